import sys, asyncio, random, itertools
sys.path.insert(0, sys.argv[1] if len(sys.argv)>1 else '/repo/src')
from koreo import cache, registry
class K: pass
class Clock:
    def __init__(self): self.t=0.0
    def monotonic(self): self.t+=1.0; return self.t
NAMES=["A","B","C","D"]
def run_history(seed):
    rng=random.Random(seed)
    clock=Clock(); cache.time=clock; registry.time=clock
    seq=itertools.count(1)
    change={}   # name -> seq of last change (prepare or delete)
    prep={}     # name -> (seq of last prepare, deps at that prepare)
    declared={} # name -> deps to declare at next prepare
    log=[]
    def preparer_for(name):
        async def prep_fn(key, spec):
            s=next(seq); d=list(declared[name])
            prep[name]=(s,d); change[name]=s
            return ({"n":name,"s":s}, [registry.Resource(K,x) for x in d] or None)
        return prep_fn
    async def main():
        ver=itertools.count(1)
        for _ in range(rng.randint(3,10)):
            name=rng.choice(NAMES)
            if rng.random()<0.7:
                # acyclic: deps only on later letters
                later=[x for x in NAMES if x>name]
                declared[name]=rng.sample(later, rng.randint(0,min(2,len(later))))
                log.append(("offer",name,tuple(declared[name])))
                await cache.prepare_and_cache(K, preparer_for(name), {"name":name,"resourceVersion":str(next(ver))}, {"x":1})
            else:
                log.append(("delete",name))
                had = cache.get_resource_from_cache(K,name) is not None
                await cache.delete_from_cache(K,name)
                if had: change[name]=next(seq); prep.pop(name,None)
            y=rng.choice([0,0,1,1,2,3])
            log.append(("yield",y))
            for _ in range(y): await asyncio.sleep(0)
        for _ in range(60): await asyncio.sleep(0)
        bad=[]
        for name,(s,d) in prep.items():
            if cache.get_resource_from_cache(K,name) is None: continue
            for x in d:
                if change.get(x,0) > s: bad.append((name,x,s,change[x]))
            subs=registry.get_subscriptions(registry.Resource(K,name))
            if {r.name for r in subs}!=set(d): bad.append(("subs",name,sorted(r.name for r in subs),d))
            if d and registry.Resource(K,name) not in cache._REPREPARE_TASKS: bad.append(("notask",name))
        for r in list(cache._REPREPARE_TASKS):
            if cache.get_resource_from_cache(K,r.name) is None: bad.append(("leftover-task",r.name))
        for r in list(registry._SUBSCRIPTION_QUEUES):
            if cache.get_resource_from_cache(K,r.name) is None: bad.append(("leftover-queue",r.name))
        cache._reset_cache(); cache._REPREPARE_TASKS.clear(); cache._PREPARE_TIMES.clear()
        return bad
    bad=asyncio.run(main())
    return bad,log
nbad=0
for seed in range(int(sys.argv[2]) if len(sys.argv)>2 else 3000):
    bad,log=run_history(seed)
    if bad:
        nbad+=1
        if nbad<=5: print(seed,bad,log)
print("bad histories",nbad)
