"""C16 - latent races of koreo.cache on the UNCHANGED tree that need a foreground preparer which suspends
(prepare_and_cache awaits `preparer(...)`; koreo's own preparers never suspend today, so none of this is
reachable in production - it becomes reachable the day a preparer gains an `await`, cf. seeded C16-17).

usage: /venv/bin/python C16_latent_races.py [src-dir]      (exit 1 = at least one race reproduced)

(a) first offer: the dependency changes while the offer's preparer is suspended AFTER it looked the
    dependency up; the dependent is not subscribed yet, nobody is notified -> stale forever.
(c) re-offer of a dependent that IS subscribed: the change event is consumed by the running monitor (it
    re-prepares the OLD entry), then the suspended offer completes with what it looked up before -> stale.
(e) the dependent is deleted while its re-offer is suspended: delete deregisters the queue that the offer
    registered; the offer then caches + subscribes without a queue; a change of the dependency before the
    new monitor task has started is dropped -> stale forever.
"""
import asyncio
import itertools
import sys

sys.path.insert(0, sys.argv[1] if len(sys.argv) > 1 else "/repo/src")
from koreo import cache, registry  # noqa: E402


class K: ...


serial = itertools.count(1)


def preparer_for(deps, sleep_before=0, sleep_after=0):
    async def prep(key, spec):
        on_offer = asyncio.current_task().get_name().startswith("drv")
        for _ in range(sleep_before if on_offer else 0):
            await asyncio.sleep(0)
        seen = {d: (cache.get_resource_from_cache(K, d) or {}).get("stamp") for d in deps}
        for _ in range(sleep_after if on_offer else 0):
            await asyncio.sleep(0)
        return {"stamp": next(serial), "seen": seen}, [registry.Resource(K, d) for d in deps] or None
    return prep


async def offer(name, version, deps=(), **kw):
    await cache.prepare_and_cache(K, preparer_for(list(deps), **kw), {"name": name, "resourceVersion": str(version)}, {})


async def settle():
    for _ in range(50):
        await asyncio.sleep(0)


def stale(name):
    v = cache.get_resource_from_cache(K, name)
    return [f"{name} was built from {d}#{st}, the cache holds {d}#{(cache.get_resource_from_cache(K, d) or {}).get('stamp')}"
            for d, st in v["seen"].items() if st != (cache.get_resource_from_cache(K, d) or {}).get("stamp")]


async def race_a():
    await offer("D", 1)
    t = asyncio.create_task(offer("R", 1, ["D"], sleep_after=2), name="drv-R")
    await asyncio.sleep(0)                       # R's preparer has looked D up and is suspended
    await offer("D", 2)
    await t
    await settle()
    return stale("R")


async def race_c():
    await offer("D", 1)
    await offer("R", 1, ["D"])
    await settle()
    t = asyncio.create_task(offer("R", 2, ["D"], sleep_after=3), name="drv-R")
    await asyncio.sleep(0)
    await offer("D", 2)                          # R's monitor takes the event and re-prepares R v1 ...
    await t                                      # ... then the offer of R v2 completes with the old D
    await settle()
    return stale("R")


async def race_e():
    await offer("D", 1)
    await offer("R", 1, ["D"])
    await settle()
    async def reoffer_then_change():
        await offer("R", 2, ["D"], sleep_before=2)   # R v2 cached + subscribed, but no queue until its new task starts
        await offer("D", 2)                          # zero turns later: the notification finds no queue
    t = asyncio.create_task(reoffer_then_change(), name="drv-R")
    await asyncio.sleep(0)
    await cache.delete_from_cache(K, "R")        # removes the queue the suspended offer registered
    await t
    await settle()
    return stale("R")


async def main():
    asyncio.current_task().set_name("drv-main")
    bad = 0
    for name, race in (("a", race_a), ("c", race_c), ("e", race_e)):
        cache._reset_cache(); cache._REPREPARE_TASKS.clear(); cache._PREPARE_TIMES.clear()
        await settle()
        problems = await race()
        print(f"race ({name}):", "REPRODUCED - idle, but " + "; ".join(problems) if problems else "not reproduced")
        bad += bool(problems)
    cache._reset_cache()
    await settle()
    return 1 if bad else 0


sys.exit(asyncio.run(main()))
