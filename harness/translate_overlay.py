#!/venv/bin/python
"""Translator: src/koreo/cel/functions.py::_deep_overlay  ->  coq/gen/DeepOverlay_gen.v

`_deep_overlay` (the deep merge behind the CEL `overlay()` function, ResourceFunction overlays and
FunctionTest `inputOverrides`/`overlayResource`) is modelled by hand three times (ResourceFn.merge_val,
Overlay.deep_overlay_v, FnTestRun.deep_overlay; proved equal in proofs/CrossModel_proofs.v).  This
translator regenerates, on every run, a Gallina transcription of the function from the Python source as it
is NOW; proofs/DeepOverlay_sync.v proves the hand model equal to it, so a behavioural edit of
`_deep_overlay` breaks a proof obligation of all three models at once.

Fail-closed: anything outside the small imperative subset below raises `Untranslatable`.
Conventions (trusted base):
  * CEL maps are association lists `list (string * json)` with Python dict behaviour (`Json.set_key`:
    replace in place or append; `Json.lookup`); other values are `json`;
  * `copy.deepcopy(x)` is the identity (values are immutable in the model: the PURITY of the function,
    i.e. that the deepcopy is there, is checked by C12's correspondence/purity oracle, not here);
  * `isinstance(x, celpy.CELEvalError)` is false (the json type has no error objects: evaluated
    overlays handed to this function contain none, see C10);
  * a `for k, v in m.items():` loop is a fold over the items whose state is the loop-carried variable
    (the dict being built) or an early `return`; `continue` ends the iteration;
  * the recursion is on explicit fuel (None when exhausted; the sync lemma excludes it by the depth
    of the overlay); partial reads (`d[k]` without the key, using a non-map as a map) give None.
"""
from __future__ import annotations

import ast
import os
import sys
from pathlib import Path

VERIF = Path(__file__).resolve().parent.parent
REPO = Path(os.environ.get("KOREO_REPO", "/repo"))
SRC = REPO / "src" / "koreo" / "cel" / "functions.py"
OUT = VERIF / "coq" / "gen" / "DeepOverlay_gen.v"
FN = "_deep_overlay"


class Untranslatable(Exception):
    pass


def bad(node, why=""):
    raise Untranslatable(f"{why} at line {getattr(node, 'lineno', '?')}: {ast.dump(node)[:200]}")


def is_attr(e, mod, name):
    return isinstance(e, ast.Attribute) and e.attr == name and isinstance(e.value, ast.Name) and e.value.id == mod


# expressions -> (text, type, partial) ; type in map | json | str ; partial text has type `option T`
def tr_expr(e, env):
    if isinstance(e, ast.Name):
        if e.id in env:
            return f"v_{e.id}", env[e.id], False
        bad(e, "unknown name")
    if isinstance(e, ast.Call) and is_attr(e.func, "copy", "deepcopy") and len(e.args) == 1 and not e.keywords:
        return tr_expr(e.args[0], env)
    if isinstance(e, ast.Subscript) and isinstance(e.value, ast.Name) and isinstance(e.slice, ast.Name):
        d, td, pd = tr_expr(e.value, env)
        k, tk, pk = tr_expr(e.slice, env)
        if td == "map" and tk == "str" and not pd and not pk:
            return f"(lookup {k} {d})", "json", True
        bad(e, "subscript")
    if isinstance(e, ast.Call) and isinstance(e.func, ast.Name) and e.func.id == FN and len(e.args) == 2 and not e.keywords:
        parts = []
        for a in e.args:
            x, t, p = tr_expr(a, env)
            if p:
                bad(e, "partial argument")
            parts.append(x if t == "map" else (f"(as_map {x})" if t == "json" else bad(e, "argument type")))
        if all(not p.startswith("(as_map") for p in parts):
            return f"(deep_overlay_gen fuel' {parts[0]} {parts[1]})", "map", True
        a, b = [p if p.startswith("(as_map") else f"(Some {p})" for p in parts]
        return (f"(match {a}, {b} with Some m_a, Some m_b => deep_overlay_gen fuel' m_a m_b | _, _ => None end)"), "map", True
    bad(e, "expression")


def tr_test(t, env):
    if isinstance(t, ast.BoolOp) and isinstance(t.op, ast.And):
        return "(" + " && ".join(tr_test(v, env) for v in t.values) + ")"
    if isinstance(t, ast.UnaryOp) and isinstance(t.op, ast.Not):
        return f"(negb {tr_test(t.operand, env)})"
    if isinstance(t, ast.Compare) and len(t.ops) == 1 and isinstance(t.ops[0], ast.In):
        k, tk, pk = tr_expr(t.left, env)
        d, td, pd = tr_expr(t.comparators[0], env)
        if tk == "str" and td == "map" and not pk and not pd:
            return f"(mem_str {k} (keys {d}))"
        bad(t, "in")
    if isinstance(t, ast.Call) and isinstance(t.func, ast.Name) and t.func.id == "isinstance" and len(t.args) == 2:
        x, tx, px = tr_expr(t.args[0], env)
        if px:
            bad(t, "isinstance of a partial expression")
        if is_attr(t.args[1], "celtypes", "MapType"):
            return "true" if tx == "map" else (f"(is_map {x})" if tx == "json" else "false")
        if is_attr(t.args[1], "celpy", "CELEvalError"):
            return "false"
        bad(t, "isinstance class")
    bad(t, "test")


def exits(stmts):
    if not stmts:
        return False
    s = stmts[-1]
    if isinstance(s, (ast.Return, ast.Continue)):
        return True
    if isinstance(s, ast.If):
        return exits(s.body) and exits(s.orelse)
    return False


def as_json(x, t):
    return f"(JMap {x})" if t == "map" else (x if t == "json" else None)


def tr_block(stmts, env, carried, in_loop, ind):
    """-> text of type lstate (inside a loop) or option map (function level)"""
    fail = "Failed" if in_loop else "None"
    if not stmts:
        if in_loop:
            return f"(Running v_{carried})"
        raise Untranslatable("control reaches the end of the function without a return")
    s, rest = stmts[0], list(stmts[1:])
    if isinstance(s, ast.Expr) and isinstance(s.value, ast.Constant):
        return tr_block(rest, env, carried, in_loop, ind)
    if isinstance(s, ast.Continue) and in_loop:
        return f"(Running v_{carried})"
    if isinstance(s, ast.Return) and s.value is not None:
        x, t, p = tr_expr(s.value, env)
        if t != "map":
            bad(s, "returns a non-map")
        ok = (lambda v: f"(Returned {v})") if in_loop else (lambda v: f"(Some {v})")
        return f"(match {x} with Some r_ => {ok('r_')} | None => {fail} end)" if p else ok(x)
    if isinstance(s, ast.If):
        c = tr_test(s.test, env)
        a = tr_block(list(s.body) + ([] if exits(s.body) else rest), dict(env), carried, in_loop, ind + "  ")
        b = tr_block(list(s.orelse) + rest, dict(env), carried, in_loop, ind + "  ")
        return f"(if {c}\n{ind} then {a}\n{ind} else {b})"
    if isinstance(s, ast.Assign) and len(s.targets) == 1:
        tgt = s.targets[0]
        x, t, p = tr_expr(s.value, env)
        if isinstance(tgt, ast.Name):
            env = dict(env)
            env[tgt.id] = t
            body = tr_block(rest, env, carried, in_loop, ind)
            if p:
                return f"(match {x} with\n{ind} | Some v_{tgt.id} => {body}\n{ind} | None => {fail} end)"
            return f"(let v_{tgt.id} := {x} in\n{ind}{body})"
        if (isinstance(tgt, ast.Subscript) and isinstance(tgt.value, ast.Name) and isinstance(tgt.slice, ast.Name)
                and env.get(tgt.value.id) == "map" and env.get(tgt.slice.id) == "str" and not p
                and (not in_loop or tgt.value.id == carried)):
            v = as_json(x, t) or bad(s, "stored value type")
            body = tr_block(rest, env, carried, in_loop, ind)
            return f"(let v_{tgt.value.id} := set_key v_{tgt.slice.id} {v} v_{tgt.value.id} in\n{ind}{body})"
        bad(s, "assignment")
    if (isinstance(s, ast.For) and not in_loop and not s.orelse and isinstance(s.target, ast.Tuple)
            and len(s.target.elts) == 2 and all(isinstance(x, ast.Name) for x in s.target.elts)
            and isinstance(s.iter, ast.Call) and isinstance(s.iter.func, ast.Attribute) and s.iter.func.attr == "items"
            and isinstance(s.iter.func.value, ast.Name) and env.get(s.iter.func.value.id) == "map" and not s.iter.args):
        kname, vname = (x.id for x in s.target.elts)
        # the loop-carried variable: the one map (other than the iterated one) assigned by subscript in the body
        stored = {n.targets[0].value.id for n in ast.walk(s) if isinstance(n, ast.Assign)
                  and isinstance(n.targets[0], ast.Subscript) and isinstance(n.targets[0].value, ast.Name)}
        rebound = {n.targets[0].id for n in ast.walk(s) if isinstance(n, ast.Assign) and isinstance(n.targets[0], ast.Name)}
        if len(stored) != 1 or (stored & rebound) or s.iter.func.value.id in stored:
            bad(s, "loop-carried state")
        (cv,) = stored
        if env.get(cv) != "map":
            bad(s, "loop-carried variable is not a map")
        env2 = dict(env)
        env2[kname], env2[vname] = "str", "json"
        body = tr_block(list(s.body), env2, cv, True, ind + "      ")
        after = tr_block(rest, env, cv, False, ind + "  ")
        return (f"(match fold_left (fun st item => match st with\n"
                f"{ind}    | Running v_{cv} =>\n{ind}      let v_{kname} := fst item in let v_{vname} := snd item in\n"
                f"{ind}      {body}\n{ind}    | other => other end) v_{s.iter.func.value.id} (Running v_{cv}) with\n"
                f"{ind} | Running v_{cv} => {after}\n{ind} | Returned r_ => Some r_\n{ind} | Failed => None end)")
    bad(s, "statement")


HEADER = '''(* GENERATED by harness/translate_overlay.py from src/koreo/cel/functions.py — do not edit.
   A transcription of `_deep_overlay`. *)
From Koreo Require Import Json.
Local Open Scope list_scope.
Local Open Scope bool_scope.

Definition is_map (j : json) : bool := match j with JMap _ => true | _ => false end.
Definition as_map (j : json) : option (list (string * json)) := match j with JMap m => Some m | _ => None end.
(* state of a `for` loop: still running with the dict being built, left by `return`, or failed *)
Inductive lstate := Running (m : list (string * json)) | Returned (m : list (string * json)) | Failed.

'''


def translate(text: str) -> str:
    tree = ast.parse(text)
    fns = [n for n in tree.body if isinstance(n, ast.FunctionDef) and n.name == FN]
    if len(fns) != 1:
        raise Untranslatable(f"{FN} not found")
    fn = fns[0]
    a = fn.args
    if a.vararg or a.kwarg or a.kwonlyargs or a.defaults or fn.decorator_list or len(a.args) != 2:
        raise Untranslatable("unexpected signature")
    env = {}
    for arg in a.args:
        if not (arg.annotation is not None and is_attr(arg.annotation, "celtypes", "MapType")):
            raise Untranslatable("parameters must be annotated celtypes.MapType")
        env[arg.arg] = "map"
    p1, p2 = (x.arg for x in a.args)
    body = tr_block(list(fn.body), env, None, False, "    ")
    return (HEADER + f"(* {FN}, functions.py line {fn.lineno} *)\n"
            f"Fixpoint deep_overlay_gen (fuel : nat) (v_{p1} v_{p2} : list (string * json)) {{struct fuel}}"
            f" : option (list (string * json)) :=\n  match fuel with\n  | O => None\n  | S fuel' =>\n    {body}\n  end.\n")


def main():
    text = translate(SRC.read_text())
    OUT.parent.mkdir(exist_ok=True)
    if not OUT.exists() or OUT.read_text() != text:
        OUT.write_text(text)
    return 0


if __name__ == "__main__":
    try:
        sys.exit(main())
    except Untranslatable as e:
        print("UNTRANSLATABLE:", e)
        sys.exit(1)
