"""Scenario generator + realiser for the ResourceFunction model (coq/model/ResourceFn.v).

A *scenario* (a plain dict mirroring the Coq record `scenario`) says what every expression site of a
ResourceFunction evaluates to and what the cluster holds.  `realise()` builds a REAL ResourceFunction
spec + inputs + in-memory cluster + cache contents with exactly that behaviour, `run()` reconciles it
with the real code and returns the observation, `c_case()` prints (scenario, observation) as Gallina
for corr/Corr_RF.v.  Property plugins (C04–C08, C12 …) reuse this with their own biases and oracles.
"""
from __future__ import annotations

import asyncio
import copy
import itertools
import json

import drivers
from cluster import Cluster
from common import cbool, cjson, clist, copt, cpair, cstr, cz

LAST_APPLIED = "koreo.dev/last-applied-configuration"     # written by hand on purpose (see DESIGN.md)
PLACEHOLDER = "<last-applied>"
_kind_counter = itertools.count()

KEYS = ["spec", "data", "a", "b", "c", "labels", "metadata", "items", "size"]
SAFE_STR = ["x", "y", "hello", "v one", "Zeta", "", "a-b", "ns-1", "true-ish"]


# --------------------------------------------------------------------------------------------
# random documents
# --------------------------------------------------------------------------------------------

def rand_scalar(rng):
    return rng.choice([0, 1, 2, -3, 17, True, False, 1.5, "x", "y", "hello", "", "v one", 10 ** 12])


def rand_json(rng, depth=2, allow_empty=True):
    r = rng.random()
    if depth <= 0 or r < 0.35:
        return rand_scalar(rng)
    if r < 0.55:
        n = rng.choice([0, 1, 2, 3]) if allow_empty else rng.choice([1, 2, 3])
        return [rand_json(rng, depth - 1) for _ in range(n)]
    n = rng.choice([0, 1, 2, 3]) if allow_empty else rng.choice([1, 2, 3])
    keys = rng.sample(KEYS, n)
    return {k: rand_json(rng, depth - 1) for k in keys}


def rand_map(rng, depth=3, nonempty=False):
    n = rng.choice([1, 2, 3]) if nonempty else rng.choice([0, 1, 2, 3])
    return {k: rand_json(rng, depth - 1) for k in rng.sample(KEYS, n)}


def rand_odoc(rng, depth=3):
    """["N", [[k, child]…]] (non-empty) | ["L", value, computed]"""
    n = rng.choice([1, 1, 2, 3])
    kvs = []
    for k in rng.sample(KEYS + ["metadata", "kind", "apiVersion"], n):
        r = rng.random()
        if depth > 0 and r < 0.4:
            kvs.append([k, rand_odoc(rng, depth - 1)])
        else:
            v = rand_json(rng, 2)
            computed = rng.random() < 0.3 or (isinstance(v, dict) and len(v) > 0)
            kvs.append([k, ["L", v, computed]])
    return ["N", kvs]


# --------------------------------------------------------------------------------------------
# scenarios
# --------------------------------------------------------------------------------------------

def default_owner():
    return {"apiVersion": "v1", "kind": "Parent", "name": "parent", "uid": "uid-parent",
            "blockOwnerDeletion": True, "controller": False}


def base_scenario():
    return {
        "cfg": {"version": "example.dev/v1", "kind": None, "plural": "widgets", "namespaced": True, "owned": True,
                "readonly": False, "delete_if_exists": False, "create_enabled": True, "create_delay": 30,
                "update": ["patch", 30]},
        "pre": None, "locals_err": False,
        "name": ["Ok", "w1", "ns1"], "lookup": None, "live": None,
        "template": ["Inline", {"spec": {"size": 1}}],
        "overlays": None, "create_overlay": None,
        "owner_ns": "ns1", "owner_ref": default_owner(),
        "post": None, "return": {"done": True},
    }


def rand_stop(rng):
    return rng.choice([["PermFail"], ["Retry", rng.choice([1, 5, 60])], ["Skip"], ["DepSkip"]])


def rand_scenario(rng, **bias):
    sc = base_scenario()
    c = sc["cfg"]
    c["namespaced"] = rng.random() < 0.8
    c["owned"] = rng.random() < 0.7
    c["readonly"] = rng.random() < 0.15
    c["delete_if_exists"] = rng.random() < 0.1
    c["create_enabled"] = rng.random() < 0.85
    c["create_delay"] = rng.choice([30, 7, 1])
    c["update"] = rng.choice([["patch", 30], ["patch", 9], ["recreate", 11], ["never"]])
    c["plural"] = None if rng.random() < 0.1 else "widgets"
    sc["lookup"] = rng.choice(["widgets", "gizmos", None]) if c["plural"] is None else None
    ns = rng.choice(["ns1", "ns1", "ns2"]) if c["namespaced"] else None
    sc["name"] = ["Err"] if rng.random() < 0.04 else ["Ok", rng.choice(["w1", "obj-2"]), ns]
    if c["namespaced"] and rng.random() < 0.04:
        sc["name"] = ["Ok", "w1", None]            # namespace evaluates to "" -> required error
    sc["owner_ns"] = rng.choice(["ns1", "ns1", "ns2", None])
    if rng.random() < 0.1:
        sc["pre"] = rand_stop(rng)
    sc["locals_err"] = rng.random() < 0.04
    if rng.random() < 0.1:
        sc["post"] = rand_stop(rng)
    sc["return"] = rng.choice([None, {"done": True}, {"n": 3, "l": [1, 2]}])
    sc["omit_defaults"] = rng.random() < 0.3
    if sc["omit_defaults"] and rng.random() < 0.7:
        c["create_delay"] = 30
        if c["update"][0] != "never":
            c["update"] = [c["update"][0], 30]
    if sc["pre"] is not None and sc["pre"][0] == "PermFail" and rng.random() < 0.5:
        sc["pre_nonbool"] = rng.choice(["='false'", "=7", "=inputs.name", "=[true]"])
    elif sc["pre"] is not None and rng.random() < 0.6:
        sc["pre_tail"] = [rng.choice(sorted(TAIL_STOPS) + ["ok", "ok"]) for _ in range(rng.choice([1, 1, 2]))]
    elif sc["pre"] is None and rng.random() < 0.05:
        sc["pre_ok_first"] = True
    # template
    r = rng.random()
    if r < 0.6:
        sc["template"] = ["Inline", rand_map(rng, 3) if rng.random() < 0.9 else None]
    elif r < 0.65:
        sc["template"] = ["InlineErr"]
    elif r < 0.9:
        t = rand_map(rng, 3)
        t["apiVersion"] = rng.choice(["example.dev/v1", "other/v9"])
        t["kind"] = rng.choice(["Widget", "Other"])
        sc["template"] = ["Ref", t]
    else:
        sc["template"] = [rng.choice(["RefNameErr", "RefMissing", "RefNotReady"])]
    # overlays
    r = rng.random()
    if r < 0.4:
        sc["overlays"] = None
    elif r < 0.45:
        sc["overlays"] = ["Stop", rng.choice([["PermFail"], ["Retry", 60]])]
    else:
        ovs = []
        for _ in range(rng.choice([1, 1, 2, 3])):
            skip = rng.choice([None, None, False, True, "Err", "Bad"] if rng.random() < 0.3 else [None, None, False, True])
            r2 = rng.random()
            if r2 < 0.6:
                body = ["Inline", rand_odoc(rng)]
            elif r2 < 0.65:
                body = ["InlineErr"]
            elif r2 < 0.85:
                body = ["Fn", rand_odoc(rng)]
            else:
                body = rng.choice([["FnInputsStop"], ["FnStop", rand_stop(rng)], ["FnNotMap"]])
            ovs.append({"skip": skip, "body": body})
        sc["overlays"] = ["List", ovs]
    r = rng.random()
    sc["create_overlay"] = None if r < 0.6 else (["Err"] if r < 0.65 else ["Doc", rand_odoc(rng)])
    # live object
    r = rng.random()
    if r < 0.45:
        sc["live"] = None
    else:
        sc["live"] = "derive"         # filled in by realise(): derived from the target (match / drift / decorated)
        sc["live_mode"] = rng.choice(["match", "match", "drift", "decorated", "noowner", "random"])
    for k, v in bias.items():
        if k in sc["cfg"]:
            sc["cfg"][k] = v
        else:
            sc[k] = v
    return sc


# --------------------------------------------------------------------------------------------
# realisation
# --------------------------------------------------------------------------------------------

class Real:
    """Everything needed to run one scenario against the real code."""
    def __init__(self):
        self.spec = {}
        self.inputs = {"name": None, "vals": [], "skips": []}
        self.cluster = None
        self.owner = None
        self.templates = {}     # name -> spec (to cache as ResourceTemplate)
        self.vfs = {}           # name -> spec (to cache as ValueFunction)
        self.plural = None


def _stop_pred(stop, label):
    kind = stop[0]
    if kind == "PermFail":
        return {"assert": "=false", "permFail": {"message": label}}
    if kind == "Retry":
        return {"assert": "=false", "retry": {"message": label, "delay": stop[1]}}
    if kind == "Skip":
        return {"assert": "=false", "skip": {"message": label}}
    return {"assert": "=false", "depSkip": {"message": label}}


TAIL_STOPS = {"Skip": ["Skip"], "DepSkip": ["DepSkip"], "Retry": ["Retry", 3], "PermFail": ["PermFail"]}


def _realise_odoc(d, vals: list, path: str):
    if d[0] == "L":
        _, v, computed = d
        if computed:
            vals.append(copy.deepcopy(v))
            return f"={path}[{len(vals) - 1}]"
        return copy.deepcopy(v)
    return {k: _realise_odoc(ch, vals, path) for k, ch in d[1]}


def realise(sc) -> Real:
    r = Real()
    tag = sc.get("tag", "")        # makes cache names unique when several scenarios share one process
    c = sc["cfg"]
    if c["kind"] is None:
        c["kind"] = f"Wk{next(_kind_counter)}"
    api = {"apiVersion": c["version"], "kind": c["kind"], "namespaced": c["namespaced"], "owned": c["owned"],
           "readonly": c["readonly"], "deleteIfExists": c["delete_if_exists"]}
    if c["plural"] is not None:
        api["plural"] = c["plural"]
    name = sc["name"]
    if name[0] == "Err":
        api["name"] = "=inputs.nope.name"
        api["namespace"] = "ns1"
    else:
        api["name"] = "=inputs.name"
        r.inputs["name"] = name[1]
        if name[2] is not None:
            api["namespace"] = name[2]
        elif c["namespaced"]:
            api["namespace"] = "=inputs.emptyns"
            r.inputs["emptyns"] = ""
    spec = {"apiConfig": api}
    if sc["pre"] is not None:
        if sc.get("pre_nonbool") and sc["pre"][0] == "PermFail":
            # an assertion that evaluates to a (truthy) non-boolean: unevaluable => PermFail, nothing touched
            spec["preconditions"] = [{"assert": "=true", "permFail": {"message": "never"}},
                                     {"assert": sc["pre_nonbool"], "retry": {"message": "nonbool", "delay": 7}}]
        else:
            spec["preconditions"] = [{"assert": "=true", "permFail": {"message": "never"}}, _stop_pred(sc["pre"], "pre")]
        # further predicates that ALSO fail: only the first failing one counts (the model does not see these)
        for k in sc.get("pre_tail") or []:
            spec["preconditions"].append({"assert": "=false", "ok": {}} if k == "ok" else _stop_pred(TAIL_STOPS[k], "tail-" + k))
    elif sc.get("pre_ok_first"):
        # the first failing predicate is of type `ok`: evaluation ends there and the preconditions PASS
        spec["preconditions"] = [{"assert": "=false", "ok": {}}, {"assert": "=false", "permFail": {"message": "after-ok"}}]
    if sc["locals_err"]:
        spec["locals"] = {"bad": "=1/0"}
    t = sc["template"]
    if t[0] == "Inline":
        spec["resource"] = copy.deepcopy(t[1]) if t[1] is not None else {}
    elif t[0] == "InlineErr":
        spec["resource"] = {"spec": {"boom": "=1/0"}}
    elif t[0] == "RefNameErr":
        spec["resourceTemplateRef"] = {"name": "=inputs.nope.t"}
    elif t[0] == "RefMissing":
        spec["resourceTemplateRef"] = {"name": "=inputs.tname"}
        r.inputs["tname"] = "absent-template"
    elif t[0] == "RefNotReady":
        spec["resourceTemplateRef"] = {"name": "=inputs.tname"}
        r.inputs["tname"] = "broken-template" + tag
        r.templates["broken-template" + tag] = {"template": {}}
    elif t[0] == "Ref":
        spec["resourceTemplateRef"] = {"name": "=inputs.tname"}
        r.inputs["tname"] = "tmpl-1" + tag
        r.templates["tmpl-1" + tag] = {"template": copy.deepcopy(t[1])}
    ov = sc["overlays"]
    if ov is not None:
        if ov[0] == "Stop":
            if ov[1][0] == "PermFail":
                spec["overlays"] = [{"overlay": {"a": 1}, "bogus": 1}]
            else:
                spec["overlays"] = [{"overlayRef": {"kind": "ValueFunction", "name": "absent-vf"}}]
        else:
            out = []
            for i, o in enumerate(ov[1]):
                e = {}
                s = o["skip"]
                if s is True or s is False:
                    r.inputs["skips"].append(s)
                    e["skipIf"] = f"=inputs.skips[{len(r.inputs['skips']) - 1}]"
                elif s == "Err":
                    e["skipIf"] = "=inputs.nope.skip"
                elif s == "Bad":
                    e["skipIf"] = "=5"
                b = o["body"]
                if b[0] == "Inline":
                    e["overlay"] = _realise_odoc(b[1], r.inputs["vals"], "inputs.vals")
                elif b[0] == "InlineErr":
                    e["overlay"] = {"spec": {"boom": "=1/0"}}
                else:
                    vf = f"vf-{i}{tag}"
                    e["overlayRef"] = {"kind": "ValueFunction", "name": vf}
                    if b[0] == "Fn":
                        fnvals = []
                        r.vfs[vf] = {"return": _realise_odoc(b[1], fnvals, "inputs.vals")}
                        r.inputs[f"fnvals{i}"] = fnvals
                        e["inputs"] = {"vals": f"=inputs.fnvals{i}"}
                    elif b[0] == "FnInputsStop":
                        r.vfs[vf] = {"return": {"a": "=inputs.vals"}}
                        e["inputs"] = {"vals": "=inputs.nope.x"}
                    elif b[0] == "FnStop":
                        r.vfs[vf] = {"preconditions": [_stop_pred(b[1], "vf")], "return": {"a": 1}}
                    elif b[0] == "FnNotMap":
                        r.vfs[vf] = {"preconditions": [{"assert": "=true", "permFail": {"message": "never"}}]}
                out.append(e)
            spec["overlays"] = out
    create = {"enabled": c["create_enabled"]}
    omit = bool(sc.get("omit_defaults"))      # rely on the CRD schema's defaults instead of writing 30
    if c["create_enabled"]:
        if not (omit and c["create_delay"] == 30):
            create["delay"] = c["create_delay"]
        co = sc["create_overlay"]
        if co is not None:
            create["overlay"] = {"spec": {"boom": "=1/0"}} if co[0] == "Err" else \
                _realise_odoc(co[1], r.inputs["vals"], "inputs.vals")
    spec["create"] = create
    u = c["update"]
    if u[0] == "never":
        spec["update"] = {"never": {}}
    elif omit and u[1] == 30:
        spec["update"] = {u[0]: {}}
    else:
        spec["update"] = {u[0]: {"delay": u[1]}}
    if sc["post"] is not None:
        spec["postconditions"] = [_stop_pred(sc["post"], "post")]
    if sc["return"] is not None:
        spec["return"] = copy.deepcopy(sc["return"])
    r.spec = spec
    r.owner = (sc["owner_ns"], copy.deepcopy(sc["owner_ref"]))
    kinds = {}
    if c["plural"] is None:
        kinds[c["kind"]] = sc["lookup"]
    r.plural = c["plural"] if c["plural"] is not None else sc["lookup"]
    r.cluster = Cluster(kinds=kinds)
    return r


def strip_directives(o):
    """Independent restatement used only to derive live objects for scenarios."""
    if isinstance(o, dict):
        return {k: strip_directives(v) for k, v in o.items() if not k.startswith("x-koreo-")}
    if isinstance(o, list):
        return [strip_directives(v) for v in o]
    return o


async def _prepare(r: Real, fn_name="fn-under-test"):
    from koreo import cache
    from koreo.resource_template.structure import ResourceTemplate
    from koreo.resource_template.prepare import prepare_resource_template
    from koreo.value_function.structure import ValueFunction
    from koreo.value_function.prepare import prepare_value_function
    for n, s in r.templates.items():
        await cache.prepare_and_cache(ResourceTemplate, prepare_resource_template,
                                      {"name": n, "resourceVersion": "1"}, copy.deepcopy(s))
    for n, s in r.vfs.items():
        await cache.prepare_and_cache(ValueFunction, prepare_value_function,
                                      {"name": n, "resourceVersion": "1"}, copy.deepcopy(s))
    return await drivers.prepare_rf(fn_name, r.spec)


def _split_body(body):
    """(body with the annotation replaced by the placeholder, parsed annotation or None)"""
    b = copy.deepcopy(body)
    rec = None
    try:
        ann = b["metadata"]["annotations"]
        if LAST_APPLIED in ann:
            rec = json.loads(ann[LAST_APPLIED])
            ann[LAST_APPLIED] = PLACEHOLDER
    except (KeyError, TypeError):
        pass
    return b, rec


def observe_calls(cluster: Cluster):
    out = []
    for c in cluster.calls:
        m = c["method"]
        if m == "GET":
            out.append({"m": "GET", "plural": c["endpoint"], "ns": c["namespace"], "name": c["name"]})
        elif m == "DELETE":
            out.append({"m": "DELETE", "plural": c["endpoint"], "ns": c["namespace"], "name": c["name"]})
        else:
            b, rec = _split_body(c["body"])
            out.append({"m": m, "plural": c["endpoint"], "ns": c["namespace"], "name": c["name"],
                        "body": b, "recorded": rec, "raw_body": c["body"]})
    return out


def run(sc, live_builder=None, passes=1, decorate=None, faults=None):
    """Realise and reconcile `sc` with the real code.  Returns (observations, real) where observations is a
    list with one entry per pass: {'outcome', 'calls', 'match', 'live_before', 'prepared_ok'}."""
    import koreo.resource_function.reconcile as rec_mod
    drivers.reset_all()
    r = realise(sc)
    r.cluster.decorate = decorate
    if faults:
        r.cluster.faults = dict(faults)
    seen = {}
    orig = rec_mod.validate_match

    def wrapped(*a, **kw):
        seen["target"] = copy.deepcopy(drivers.to_py(kw.get("target", a[0] if a else None)))
        try:
            res = orig(*a, **kw)
        except BaseException as e:
            seen["match"] = "raise:" + type(e).__name__
            raise
        seen["match"] = bool(res.match)
        return res

    async def go():
        prepared = await _prepare(r)
        fn, err = drivers.unwrap_prepared(prepared)
        if fn is None:
            return [{"prepare_failed": drivers.canon_outcome(err)}]
        obs = []
        for p in range(passes):
            if p == 0 and sc["live"] is not None:
                live = sc["live"]
                if live == "derive":
                    live = live_builder(sc, r, fn) if live_builder else None
                    sc["live"] = copy.deepcopy(live)
                if live is not None:
                    ns = sc["name"][2] if sc["name"][0] == "Ok" else None
                    key = (r.plural, ns, sc["name"][1] if sc["name"][0] == "Ok" else "?")
                    r.cluster.objects[key] = copy.deepcopy(live)
            seen.clear()
            n0 = len(r.cluster.calls)
            before = copy.deepcopy(r.cluster.objects)
            try:
                res = await drivers.reconcile_rf(fn, r.inputs, r.cluster, owner=r.owner)
                out = drivers.canon_outcome(res.outcome)
                out["resource_id"] = res.resource_id
            except Exception as e:      # noqa: BLE001 - the exception class is the observation
                out = {"cls": "Raise", "exc": type(e).__name__, "msg": str(e)[:200]}
            # anything the function left running in the background (tasks it started and did not await) gets its
            # chance to reach the API before the call log is read
            for _ in range(5):
                await asyncio.sleep(0)
            await asyncio.sleep(0.5)
            calls = observe_calls(r.cluster)[n0:]
            obs.append({"outcome": out, "calls": calls, "match": seen.get("match"), "target": seen.get("target"),
                        "lookups": list(r.cluster.lookups),
                        "before": {"/".join(map(str, k)): v for k, v in before.items()}})
        return obs

    rec_mod.validate_match = wrapped
    try:
        return drivers.run_async(go()), r
    finally:
        rec_mod.validate_match = orig
        drivers.reset_all()


def run_concurrent(scs, latencies):
    """Reconcile several scenarios CONCURRENTLY in one event loop (asyncio.gather), each against its own
    in-memory cluster, with `latencies[i]` seconds of (virtual) delay on scenario i's first API call, so that
    the reconciles interleave at the read.  Scenarios must have live=None or a concrete dict.
    -> list of observations (same shape as run()'s), or None if a prepare failed."""
    import koreo.resource_function.reconcile as rec_mod
    drivers.reset_all()
    reals = [realise(sc) for sc in scs]
    seen = {}
    orig = rec_mod.validate_match

    def wrapped(*a, **kw):
        actual = kw.get("actual", a[1] if len(a) > 1 else None)
        try:
            key = actual["metadata"]["name"]
        except Exception:      # noqa: BLE001
            key = None
        res = orig(*a, **kw)
        seen[key] = bool(res.match)
        return res

    async def one(i, sc, r, fn):
        if isinstance(sc["live"], dict):
            ns = sc["name"][2]
            r.cluster.objects[(r.plural, ns, sc["name"][1])] = copy.deepcopy(sc["live"])
        r.cluster.latency = {0: latencies[i]}
        try:
            res = await drivers.reconcile_rf(fn, r.inputs, r.cluster, owner=r.owner)
            out = drivers.canon_outcome(res.outcome)
        except Exception as e:      # noqa: BLE001
            out = {"cls": "Raise", "exc": type(e).__name__, "msg": str(e)[:200]}
        return out

    async def go():
        fns = []
        for i, r in enumerate(reals):
            fn, err = drivers.unwrap_prepared(await _prepare(r, fn_name=f"fn-{i}"))
            if fn is None:
                return None
            fns.append(fn)
        outs = await asyncio.gather(*[one(i, sc, r, fn) for i, (sc, r, fn) in enumerate(zip(scs, reals, fns))])
        return [{"outcome": out, "calls": observe_calls(r.cluster), "match": seen.get(sc["name"][1]),
                 "lookups": list(r.cluster.lookups)} for out, sc, r in zip(outs, scs, reals)]

    rec_mod.validate_match = wrapped
    try:
        return drivers.run_async(go())
    finally:
        rec_mod.validate_match = orig
        drivers.reset_all()


def injected_live(sc, stored):
    """what kr8s hands back for a stored object: kind/apiVersion of the class written into it"""
    if stored is None:
        return None
    o = copy.deepcopy(stored)
    o.update({"kind": sc["cfg"]["kind"], "apiVersion": sc["cfg"]["version"]})
    return o


# --------------------------------------------------------------------------------------------
# Gallina
# --------------------------------------------------------------------------------------------

def c_stop(s):
    if s[0] == "Retry":
        return f'(StopRetry {cz(s[1])} "t")'
    return {"PermFail": '(StopPermFail "t")', "Skip": '(StopSkip "t")', "DepSkip": '(StopDepSkip "t")'}[s[0]]


def c_odoc(d):
    if d[0] == "L":
        return f"(OLeaf {cjson(d[1])})"
    return "(ONode " + clist(d[1], lambda kv: cpair(cstr(kv[0]), c_odoc(kv[1]))) + ")"


def c_cfg(c):
    u = c["update"]
    up = "UNever" if u[0] == "never" else ("(UPatch %s)" % cz(u[1]) if u[0] == "patch" else "(URecreate %s)" % cz(u[1]))
    return ("{| c_version := %s; c_kind := %s; c_plural := %s; c_namespaced := %s; c_owned := %s; "
            "c_readonly := %s; c_delete_if_exists := %s; c_create_enabled := %s; c_create_delay := %s; c_update := %s |}" % (
                cstr(c["version"]), cstr(c["kind"]), copt(c["plural"], cstr), cbool(c["namespaced"]), cbool(c["owned"]),
                cbool(c["readonly"]), cbool(c["delete_if_exists"]), cbool(c["create_enabled"]), cz(c["create_delay"]), up))


def c_scenario(sc, match: bool):
    n = sc["name"]
    name = "NameErr" if n[0] == "Err" else f"(NameOk {cstr(n[1])} {copt(n[2], cstr)})"
    t = sc["template"]
    tm = {"InlineErr": "TInlineErr", "RefNameErr": "TRefNameErr", "RefMissing": "TRefMissing",
          "RefNotReady": "TRefNotReady"}.get(t[0])
    if tm is None:
        tm = f"(TInline {copt(t[1], cjson)})" if t[0] == "Inline" else f"(TRef {cjson(t[1])})"
    ov = sc["overlays"]
    if ov is None:
        ovs = "OvNone"
    elif ov[0] == "Stop":
        ovs = f"(OvStop {c_stop(ov[1])})"
    else:
        def c_ov(o):
            s = o["skip"]
            sk = "SNone" if s is None else ("SErr" if s == "Err" else ("SBad" if s == "Bad" else f"(SBool {cbool(s)})"))
            b = o["body"]
            bd = {"InlineErr": "OInlineErr", "FnNotMap": "OFnNotMap",
                  "FnInputsStop": '(OFnInputsStop (StopPermFail "t"))'}.get(b[0])
            if bd is None:
                bd = (f"(OInline {c_odoc(b[1])})" if b[0] == "Inline" else
                      f"(OFn {c_odoc(b[1])})" if b[0] == "Fn" else f"(OFnStop {c_stop(b[1])})")
            return "{| o_skip := %s; o_body := %s |}" % (sk, bd)
        ovs = "(OvList " + clist(ov[1], c_ov) + ")"
    co = sc["create_overlay"]
    cov = "CNone" if co is None else ("CErr" if co[0] == "Err" else f"(CDoc {c_odoc(co[1])})")
    live = injected_live(sc, sc["live"]) if isinstance(sc["live"], dict) else None
    return ("{| s_cfg := %s; s_pre := %s; s_locals_err := %s; s_name := %s; s_lookup := %s; s_live := %s; "
            "s_template := %s; s_overlays := %s; s_create_overlay := %s; s_owner_ns := %s; s_owner_ref := %s; "
            "s_match := %s; s_post := %s; s_return := %s |}" % (
                c_cfg(sc["cfg"]), copt(sc["pre"], c_stop), cbool(sc["locals_err"]), name, copt(sc["lookup"], cstr),
                copt(live, cjson), tm, ovs, cov, copt(sc["owner_ns"], cstr), cjson(sc["owner_ref"]),
                cbool(bool(match)), copt(sc["post"], c_stop), copt(sc["return"], cjson)))


CLS = {"Ok": "OOk", "Retry": "ORetry", "PermFail": "OPermFail", "Skip": "OSkip", "DepSkip": "ODepSkip", "Raise": "ORaise"}


def c_obs(o):
    out = o["outcome"]
    calls = []
    for c in o["calls"]:
        ns = copt(c["ns"], cstr)
        if c["m"] == "GET":
            calls.append(f"OGet {cstr(c['plural'])} {ns} {cstr(c['name'])}")
        elif c["m"] == "DELETE":
            calls.append(f"ODelete {cstr(c['plural'])} {ns} {cstr(c['name'])}")
        elif c["m"] == "POST":
            calls.append(f"OPost {cstr(c['plural'])} {ns} {cjson(c['body'])} {cjson(c['recorded'])}")
        else:
            calls.append(f"OPatch {cstr(c['plural'])} {ns} {cstr(c['name'])} {cjson(c['body'])} {cjson(c['recorded'])}")
    val = out.get("value") if out["cls"] == "Ok" else None
    has_val = out["cls"] == "Ok" and out.get("value") is not None
    return "{| ob_cls := %s; ob_delay := %s; ob_value := %s; ob_calls := [%s] |}" % (
        CLS[out["cls"]], copt(out.get("delay"), cz), (f"(Some {cjson(val)})" if has_val else "None"),
        "; ".join(calls))


def c_case(sc, o):
    return f"({c_scenario(sc, o['match'] is True)}, {c_obs(o)})"


def answer_of(f):
    """a cluster fault -> the answer constructor of model/RfFaults.v"""
    if f is None:
        return "AOk"
    if f[0] == "http":
        return {404: "ANotFound", 409: "AConflict"}.get(f[1], "AServerErr")
    if f[0] in ("exc_before", "exc_after"):
        return "AExc"
    raise ValueError(f"fault {f!r} has no model counterpart")


def c_fault_case(sc, o, faults):
    """(scenario, (answer to the read, answer to the write), observation); the write is also answered 409 /
    404 by the cluster itself when the read was made to say 'not found' although the object is there"""
    ag, am = answer_of(faults.get(0)), answer_of(faults.get(1))
    if ag == "ANotFound" and am == "AOk" and sc.get("live") is not None and len(o["calls"]) > 1 and o["calls"][1]["m"] == "POST":
        am = "AConflict"
    return f"({c_scenario(sc, o['match'] is True)}, ({ag}, {am}), {c_obs(o)})"


# --------------------------------------------------------------------------------------------
# deriving the live object of a scenario from what the function itself would create
# --------------------------------------------------------------------------------------------

def _paths(o, pre=()):
    """all (path, value) pairs of leaves and containers below o"""
    out = [(pre, o)]
    if isinstance(o, dict):
        for k, v in o.items():
            out += _paths(v, pre + (k,))
    elif isinstance(o, list):
        for i, v in enumerate(o):
            out += _paths(v, pre + (i,))
    return out


def _set_path(o, path, v):
    for p in path[:-1]:
        o = o[p]
    o[path[-1]] = v


def decorate_obj(o, rng):
    o = copy.deepcopy(o)
    o["status"] = {"phase": "Ready", "observedGeneration": 3}
    md = o.setdefault("metadata", {})
    if isinstance(md, dict):
        md["uid"] = "uid-obj"
        md["resourceVersion"] = "42"
        md["creationTimestamp"] = "2024-01-01T00:00:00Z"
        md.setdefault("labels", {})
        if isinstance(md["labels"], dict):
            md["labels"]["added-by"] = "server"
    for path, v in _paths(o):
        if isinstance(v, dict) and path and path[0] not in ("metadata", "status") and rng.random() < 0.5:
            v["serverDefault"] = rng.choice([1, "d", {"n": 1}])
    return o


def drift_obj(o, rng):
    """change one leaf below a non-metadata top-level key (if there is one)"""
    o = copy.deepcopy(o)
    cands = [(p, v) for p, v in _paths(o) if p and p[0] not in ("metadata", "apiVersion", "kind", "status")
             and not isinstance(v, (dict, list))]
    if not cands:
        o["spec"] = {"unexpected": True}
        return o, None
    p, v = rng.choice(cands)
    nv = "drifted" if v != "drifted" else "drifted2"
    _set_path(o, p, nv)
    return o, list(p)


def prepare_live(sc, rng):
    """Replace sc['live'] == 'derive' by a concrete stored object (or None)."""
    if sc["live"] != "derive":
        return
    mode = sc.get("live_mode", "match")
    c = sc["cfg"]
    if c["kind"] is None:
        c["kind"] = f"Wk{next(_kind_counter)}"
    name = sc["name"][1] if sc["name"][0] == "Ok" else "w1"
    ns = sc["name"][2] if sc["name"][0] == "Ok" else None
    fallback = {**rand_map(rng, 2), "apiVersion": c["version"], "kind": c["kind"],
                "metadata": {"name": name, **({"namespace": ns} if ns else {})}}
    if mode == "random" or sc["name"][0] != "Ok":
        sc["live"] = fallback
        return
    probe = copy.deepcopy(sc)
    probe["cfg"].update({"readonly": False, "delete_if_exists": False, "create_enabled": True})
    probe.update({"live": None, "pre": None, "locals_err": False, "post": None})
    obs, _ = run(probe)
    posts = [c_ for o in obs if "calls" in o for c_ in o["calls"] if c_["m"] == "POST"]
    if not posts:
        sc["live"] = fallback
        return
    body = copy.deepcopy(posts[0]["raw_body"])
    if mode == "match":
        sc["live"] = body
    elif mode == "decorated":
        sc["live"] = decorate_obj(body, rng)
    elif mode == "drift":
        sc["live"], sc["drift_path"] = drift_obj(body, rng)
    elif mode == "drift_meta":
        # the ONLY deviation lies under metadata (a label the target specifies)
        labels = body.get("metadata", {}).get("labels") if isinstance(body.get("metadata"), dict) else None
        if isinstance(labels, dict) and labels:
            k = sorted(labels)[0]
            labels[k] = "drifted" if labels[k] != "drifted" else "drifted2"
            sc["live"], sc["drift_path"] = body, ["metadata", "labels", k]
        else:
            sc["live"], sc["drift_path"] = drift_obj(body, rng)
    elif mode == "noowner":
        body.get("metadata", {}).pop("ownerReferences", None)
        sc["live"] = body
    elif mode == "drift_noowner":
        body.get("metadata", {}).pop("ownerReferences", None)
        sc["live"], sc["drift_path"] = drift_obj(body, rng)
    elif mode == "terminating":
        # an object that matches but is being deleted by the API server
        md = body.setdefault("metadata", {})
        md["deletionTimestamp"] = "2024-01-01T00:00:00Z"
        md["deletionGracePeriodSeconds"] = 0
        md["finalizers"] = ["example.dev/cleanup"]
        sc["live"] = body
    else:
        sc["live"] = fallback


def clean_scenario(sc, rng):
    """Remove the error / stop variants from a random scenario (keeps flags, documents, overlays)."""
    c = sc["cfg"]
    if sc["name"][0] != "Ok" or (c["namespaced"] and sc["name"][2] is None):
        sc["name"] = ["Ok", "w1", "ns1" if c["namespaced"] else None]
    sc["locals_err"] = False
    sc["post"] = None
    if sc["template"][0] not in ("Inline", "Ref"):
        sc["template"] = ["Inline", rand_map(rng, 3)]
    ov = sc["overlays"]
    if ov is not None:
        if ov[0] == "Stop":
            sc["overlays"] = None
        else:
            keep = []
            for o in ov[1]:
                if o["skip"] in ("Err", "Bad"):
                    o["skip"] = None
                if o["body"][0] in ("Inline", "Fn"):
                    keep.append(o)
            sc["overlays"] = ["List", keep] if keep else None
    if sc["create_overlay"] is not None and sc["create_overlay"][0] == "Err":
        sc["create_overlay"] = None
    if c["plural"] is None and sc["lookup"] is None:
        sc["lookup"] = "widgets"
    return sc
