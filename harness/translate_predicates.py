#!/venv/bin/python
"""Translator: src/koreo/predicate_helpers.py::predicate_to_koreo_result  ->  coq/gen/Predicates_gen.v

`predicate_to_koreo_result` turns the list of FALSE assertions celpy returned into the outcome of the
pre/postcondition check (property C13; also the head of every Function reconcile: C10).  It is modelled by
hand as `Predicates.p2k` / `Predicates.decide`.  This translator regenerates, on every run, a Gallina
transcription of the function from the Python source as it is NOW; `proofs/Predicates_sync.v` proves the
hand model equal to it (`p2k_is_transcription`), so a behavioural edit of the function - another case
order, another key, another outcome class, a lost message/delay/location, a `continue` instead of a
`return` - breaks a proof obligation.

Fail-closed: anything outside the shape below raises `Untranslatable`.

    def predicate_to_koreo_result(predicates, location):
        if not predicates:
            return <ret>
        for predicate in predicates:
            match predicate:
                case <pattern>: return <ret>      (one or more; the last one irrefutable `case _`)
        return <ret>

Conventions (trusted base; each is a statement about Python/celpy, not about koreo):
  * values are `ErrScan.vtree`; `predicates` is a list (`not predicates` = it is empty); since every case
    arm returns and the last is irrefutable, the loop body runs for the FIRST element only - the translator
    checks exactly that and emits `match ps with [] => <after-loop ret> | p :: _ => decide_gen loc p end`;
  * a mapping pattern `{"k": P, ..}` matches a `VMap` that has every key (`ErrScan.vlookup`, Python dict
    lookup of a str key) and whose values match the sub-patterns, tried left to right; `{}` matches any
    `VMap`; `_` matches anything; a bare name binds the value;
  * `f"{x}"` is `Predicates.fmt x` (exact text for str/int/bool/None, `None` = a text the model does not
    predict); `int(f"{x}")` is `Predicates.delay_of x` (`None` = ValueError);
  * `f"<literal>{json.dumps(x)}"` is the literal when `Predicates.dumpable x`, TypeError otherwise (the
    model keeps only the literal prefix of that message);
  * `result.<Class>(...)`: keywords `message`, `delay`, `location`; one positional argument = `message`
    (the signature of the classes is what translate_result.py reads for C03).
"""
from __future__ import annotations

import ast
import os
import sys
from pathlib import Path

VERIF = Path(__file__).resolve().parent.parent
REPO = Path(os.environ.get("KOREO_REPO", "/repo"))
SRC = REPO / "src" / "koreo" / "predicate_helpers.py"
OUT = VERIF / "coq" / "gen" / "Predicates_gen.v"
FN = "predicate_to_koreo_result"


class Untranslatable(Exception):
    pass


def bad(node, why=""):
    raise Untranslatable(f"{why} at line {getattr(node, 'lineno', '?')}: {ast.dump(node)[:200]}")


def cstr(s: str) -> str:
    if any(ord(c) > 126 or ord(c) < 32 for c in s):
        raise Untranslatable(f"non-printable text {s!r}")
    return '"' + s.replace('"', '""') + '"'


class Gen:
    def __init__(self):
        self.n = 0

    def fresh(self, p):
        self.n += 1
        return f"{p}{self.n}"


def tr_pattern(g: Gen, pat, subj: str, ok: str, env: dict) -> str:
    """Gallina text of type option T: `ok` (which may mention the bound names) if `pat` matches `subj`, else None."""
    if isinstance(pat, ast.MatchAs) and pat.pattern is None:
        if pat.name is None:
            return ok
        if pat.name in env:
            bad(pat, "name bound twice")
        env[pat.name] = "vtree"
        return f"(let v_{pat.name} := {subj} in {ok})"
    if isinstance(pat, ast.MatchMapping):
        if pat.rest is not None:
            bad(pat, "**rest in a mapping pattern")
        m = g.fresh("m")
        subs = []
        for k, p in zip(pat.keys, pat.patterns):
            if not (isinstance(k, ast.Constant) and isinstance(k.value, str)):
                bad(k, "mapping pattern key must be a str literal")
            subs.append((k.value, p, g.fresh("s")))
        text = ok
        # process in order to register names in order, then nest from the right
        order_env_names = []
        for k, p, s in subs:
            _collect_names(p, order_env_names)
        for nme in order_env_names:
            if nme in env:
                bad(pat, "name bound twice")
        for k, p, s in reversed(subs):
            text = (f"match vlookup {cstr(k)} {m} with Some {s} => "
                    f"{tr_pattern(g, p, s, text, env)} | None => None end")
        return f"match {subj} with VMap {m} => {text} | _ => None end"
    bad(pat, "unsupported pattern")


def _collect_names(pat, out):
    if isinstance(pat, ast.MatchAs) and pat.pattern is None:
        if pat.name is not None:
            out.append(pat.name)
    elif isinstance(pat, ast.MatchMapping):
        for p in pat.patterns:
            _collect_names(p, out)
    else:
        bad(pat, "unsupported pattern")


def is_fmt_of_name(e, env):
    """f"{x}" with x a bound vtree name -> x"""
    if (isinstance(e, ast.JoinedStr) and len(e.values) == 1 and isinstance(e.values[0], ast.FormattedValue)
            and e.values[0].conversion == -1 and e.values[0].format_spec is None
            and isinstance(e.values[0].value, ast.Name) and env.get(e.values[0].value.id) == "vtree"):
        return e.values[0].value.id
    return None


def tr_message(e, env):
    """-> (text : option string, guard) ; guard = None or (bool text, exception) that must hold else raise"""
    x = is_fmt_of_name(e, env)
    if x is not None:
        return f"(fmt v_{x})", None
    # f"<literal>{json.dumps(x)}"
    if (isinstance(e, ast.JoinedStr) and len(e.values) == 2 and isinstance(e.values[0], ast.Constant)
            and isinstance(e.values[0].value, str) and isinstance(e.values[1], ast.FormattedValue)
            and e.values[1].conversion == -1 and e.values[1].format_spec is None):
        c = e.values[1].value
        if (isinstance(c, ast.Call) and isinstance(c.func, ast.Attribute) and c.func.attr == "dumps"
                and isinstance(c.func.value, ast.Name) and c.func.value.id == "json" and len(c.args) == 1
                and not c.keywords and isinstance(c.args[0], ast.Name) and env.get(c.args[0].id) == "vtree"):
            return f"(Some {cstr(e.values[0].value)})", (f"dumpable v_{c.args[0].id}", "TypeError")
    bad(e, "unsupported message expression")


def tr_delay(e, env):
    """int(f"{x}") -> x"""
    if (isinstance(e, ast.Call) and isinstance(e.func, ast.Name) and e.func.id == "int" and len(e.args) == 1
            and not e.keywords):
        x = is_fmt_of_name(e.args[0], env)
        if x is not None:
            return x
    bad(e, "unsupported delay expression")


def tr_location(e, env):
    if isinstance(e, ast.Name) and env.get(e.id) == "loc":
        return "(Some loc)"
    if isinstance(e, ast.Constant) and e.value is None:
        return "None"
    bad(e, "unsupported location expression")


CLASSES = {"DepSkip": False, "Skip": False, "PermFail": False, "Retry": True}


def tr_return(stmt, env) -> str:
    """-> text : res (option outcome)"""
    if not isinstance(stmt, ast.Return):
        bad(stmt, "expected return")
    e = stmt.value
    if e is None or (isinstance(e, ast.Constant) and e.value is None):
        return "(Done None)"
    if (isinstance(e, ast.Call) and isinstance(e.func, ast.Attribute) and isinstance(e.func.value, ast.Name)
            and e.func.value.id == "result" and e.func.attr in CLASSES):
        cls = e.func.attr
        args = {}
        if len(e.args) > 1:
            bad(e, "more than one positional argument")
        if e.args:
            args["message"] = e.args[0]
        for kw in e.keywords:
            if kw.arg in args or kw.arg not in ("message", "delay", "location"):
                bad(e, "unexpected keyword")
            args[kw.arg] = kw.value
        if "message" not in args:
            bad(e, "outcome without message")
        msg, guard = tr_message(args["message"], env)
        loc = tr_location(args["location"], env) if "location" in args else "None"
        if CLASSES[cls]:
            if "delay" not in args:
                bad(e, "Retry without delay")
            d = tr_delay(args["delay"], env)
            body = (f"match delay_of v_{d} with Some z => Done (Some (Retry z {msg} {loc})) "
                    f"| None => Raised ValueError end")
        else:
            if "delay" in args:
                bad(e, "delay on a class without delay")
            body = f"Done (Some ({cls} {msg} {loc}))"
        if guard is not None:
            body = f"if {guard[0]} then {body} else Raised {guard[1]}"
        return f"({body})"
    bad(e, "unsupported return value")


def irrefutable(pat):
    return isinstance(pat, ast.MatchAs) and pat.pattern is None


def translate(src: str) -> str:
    tree = ast.parse(src)
    fn = next((n for n in tree.body if isinstance(n, ast.FunctionDef) and n.name == FN), None)
    if fn is None:
        raise Untranslatable(f"{FN} not found")
    a = fn.args
    if ([x.arg for x in a.args] != ["predicates", "location"] or a.vararg or a.kwarg or a.kwonlyargs
            or a.posonlyargs or a.defaults):
        raise Untranslatable("unexpected signature")
    body = [s for s in fn.body if not (isinstance(s, ast.Expr) and isinstance(s.value, ast.Constant))]
    if len(body) != 3:
        bad(fn, "expected: if not predicates / for / return")
    s_if, s_for, s_ret = body
    if not (isinstance(s_if, ast.If) and isinstance(s_if.test, ast.UnaryOp) and isinstance(s_if.test.op, ast.Not)
            and isinstance(s_if.test.operand, ast.Name) and s_if.test.operand.id == "predicates"
            and len(s_if.body) == 1 and not s_if.orelse):
        bad(s_if, "expected `if not predicates: return ..`")
    env0 = {"location": "loc"}
    r_empty = tr_return(s_if.body[0], env0)
    r_after = tr_return(s_ret, env0)
    if r_empty != r_after:
        # `not predicates` is true exactly for the empty list, where the loop would not run either
        bad(s_ret, "the early return for an empty list differs from the return after the loop")
    if not (isinstance(s_for, ast.For) and isinstance(s_for.target, ast.Name) and isinstance(s_for.iter, ast.Name)
            and s_for.iter.id == "predicates" and not s_for.orelse and len(s_for.body) == 1
            and isinstance(s_for.body[0], ast.Match)):
        bad(s_for, "expected `for <name> in predicates: match <name>: ...`")
    var = s_for.target.id
    m = s_for.body[0]
    if not (isinstance(m.subject, ast.Name) and m.subject.id == var):
        bad(m, "match subject must be the loop variable")
    if not m.cases or not irrefutable(m.cases[-1].pattern) or m.cases[-1].guard is not None:
        bad(m, "the last case must be irrefutable (otherwise the loop can continue)")
    g = Gen()
    defs = []
    names = []
    for i, c in enumerate(m.cases, 1):
        if c.guard is not None:
            bad(c, "guards are not supported")
        if len(c.body) != 1:
            bad(c, "a case arm must be a single return")
        env = {"location": "loc", var: "vtree"}
        # evaluate pattern first so that bound names are in env when the return is translated
        holder = "@@OK@@"
        ptext = tr_pattern(g, c.pattern, f"v_{var}", holder, env)
        rtext = tr_return(c.body[0], env)
        ptext = ptext.replace(holder, f"Some {rtext}")
        names.append(f"case_{i}")
        defs.append(f"(* line {c.pattern.lineno}: case {ast.unparse(c.pattern)} *)\n"
                    f"Definition case_{i} (loc : string) (v_{var} : vtree) : option (res (option outcome)) :=\n  {ptext}.\n")
    chain = "Raised TypeError (* unreachable: the last case is irrefutable *)"
    for nme in reversed(names):
        chain = f"match {nme} loc p with Some r => r | None =>\n  {chain} end"
    out = [
        "(* GENERATED by harness/translate_predicates.py from src/koreo/predicate_helpers.py - do not edit.",
        f"   Transcription of {FN} (conventions: the translator's docstring). *)",
        "From Koreo Require Import Json Outcome ErrScan Predicates.",
        "Local Open Scope string_scope.",
        "Local Open Scope list_scope.",
        "",
        *defs,
        "(* the match statement on one element *)",
        "Definition decide_gen (loc : string) (p : vtree) : res (option outcome) :=",
        f"  {chain}.",
        "",
        "(* if not predicates: return ..; for p in predicates: <every arm returns>; return .. *)",
        "Definition p2k_gen (loc : string) (ps : list vtree) : res (option outcome) :=",
        f"  match ps with [] => {r_after} | p :: _ => decide_gen loc p end.",
        f"Definition n_cases : nat := {len(names)}.",
        "",
    ]
    return "\n".join(out)


def main():
    text = translate(SRC.read_text())
    OUT.parent.mkdir(exist_ok=True)
    if not OUT.exists() or OUT.read_text() != text:
        OUT.write_text(text)
    return 0


if __name__ == "__main__":
    try:
        sys.exit(main())
    except Untranslatable as e:
        print("UNTRANSLATABLE:", e)
        sys.exit(1)
