"""In-memory Kubernetes API double accepted by koreo-core as `api`.

koreo-core reaches the cluster only through
  * `api.async_get(resource_class, name, namespace=…)`       (async generator)
  * `APIObject.create() / .patch(body) / .delete()`  ->  `api.call_api(METHOD, version=, url=, namespace=, data=json)`
    (async context manager whose value has `.json()`)
  * `api.lookup_kind(kind)` and `api.namespace`.

`Cluster` stores objects per (plural endpoint, namespace, name), applies PATCH as RFC 7386 JSON
merge-patch, records every call, and can inject faults / latencies per call index:

  faults[i] = None | ("exc_before", exc) | ("exc_after", exc) | ("http", code) | ("hang",)
  latency[i] = seconds of (virtual) sleep before call i takes effect

`decorate(obj)` (optional callable) post-processes every stored object the way an API server
would (status, defaults, bookkeeping metadata).
"""
from __future__ import annotations

import asyncio
import copy
import json
from contextlib import asynccontextmanager

import kr8s


def merge_patch(target, patch):
    """RFC 7386."""
    if not isinstance(patch, dict):
        return copy.deepcopy(patch)
    if not isinstance(target, dict):
        target = {}
    out = dict(target)
    for k, v in patch.items():
        if v is None:
            out.pop(k, None)
        else:
            out[k] = merge_patch(out.get(k), v)
    return out


class _Resp:
    def __init__(self, data, status_code=200):
        self._data = data
        self.status_code = status_code

    def json(self):
        return self._data


def server_error(code: int) -> kr8s.ServerError:
    return kr8s.ServerError(f"injected HTTP {code}", status={"code": code, "message": f"injected {code}"},
                            response=_Resp(None, status_code=code))


class Cluster:
    def __init__(self, objects=None, faults=None, latency=None, decorate=None, namespace="default",
                 kinds=None):
        # key: (endpoint/plural, namespace or None, name) -> raw dict
        self.objects: dict[tuple, dict] = {}
        self.calls: list[dict] = []
        self.faults = faults or {}
        self.latency = latency or {}
        self.decorate = decorate
        self._namespace = namespace
        self.kinds = kinds or {}          # kind -> plural override; None value => lookup raises ValueError
        self.lookups: list[str] = []
        self.n = 0                        # call counter (GET, POST, PATCH, DELETE all count)
        for o in objects or []:
            self.put(o)

    # ---- helpers for the harness -----------------------------------------
    @staticmethod
    def plural_of(kind: str) -> str:
        return kind.lower() + "s"

    def put(self, raw: dict, plural: str | None = None):
        md = raw.get("metadata", {})
        key = (plural or self.plural_of(raw["kind"]), md.get("namespace"), md["name"])
        self.objects[key] = copy.deepcopy(raw)

    def get(self, kind_or_plural: str, namespace, name):
        for pl in (kind_or_plural, self.plural_of(kind_or_plural)):
            o = self.objects.get((pl, namespace, name))
            if o is not None:
                return o
        return None

    def mutations(self):
        return [c for c in self.calls if c["method"] != "GET"]

    def snapshot(self):
        return {"/".join(str(p) for p in k): copy.deepcopy(v) for k, v in sorted(self.objects.items(), key=lambda kv: str(kv[0]))}

    # ---- what koreo / kr8s call -------------------------------------------
    @property
    def namespace(self):
        return self._namespace

    async def lookup_kind(self, kind: str):
        self.lookups.append(kind)
        base = kind.split(".")[0]
        if base in self.kinds:
            pl = self.kinds[base]
            if pl is None:
                raise ValueError(f"Kind {kind} not found")
            return (None, pl, None)
        return (None, self.plural_of(base), None)

    async def _gate(self, method, info):
        """Record the call, apply latency and 'before' faults. Returns the fault to apply after."""
        i = self.n
        self.n += 1
        rec = {"i": i, "method": method, **info}
        self.calls.append(rec)
        lat = self.latency.get(i)
        if lat:
            await asyncio.sleep(lat)
        f = self.faults.get(i)
        if f is None:
            return None
        rec["fault"] = f[0] if f[0] != "http" else f"http{f[1]}"
        if f[0] == "exc_before":
            raise f[1]
        if f[0] == "http":
            raise server_error(f[1])
        if f[0] == "hang":
            await asyncio.Event().wait()      # never answers (until cancelled)
        return f

    async def async_get(self, resource_class, *names, namespace=None, **kwargs):
        name = names[0] if names else None
        endpoint = getattr(resource_class, "endpoint", None) or getattr(resource_class, "plural", None)
        f = await self._gate("GET", {"kind": resource_class.kind, "endpoint": endpoint,
                                     "namespace": namespace, "name": name})
        raw = self.objects.get((endpoint, namespace, name))
        if f and f[0] == "exc_after":
            raise f[1]
        if raw is not None:
            yield resource_class(api=self, resource=copy.deepcopy(raw), namespace=namespace)

    @asynccontextmanager
    async def call_api(self, method="GET", version="v1", base="", namespace=None, url="", raise_for_status=True,
                       stream=False, **kwargs):
        data = kwargs.get("data")
        body = json.loads(data) if data else None
        parts = url.split("/")
        endpoint = parts[0]
        name = parts[1] if len(parts) > 1 else (body or {}).get("metadata", {}).get("name")
        f = await self._gate(method, {"endpoint": endpoint, "namespace": namespace, "name": name,
                                      "version": version, "url": url, "body": copy.deepcopy(body)})
        key = (endpoint, namespace, name)
        result = None
        if method == "POST":
            if key in self.objects:
                raise server_error(409)
            obj = copy.deepcopy(body)
            if self.decorate:
                obj = self.decorate(obj)
            self.objects[key] = obj
            result = copy.deepcopy(obj)
        elif method == "PATCH":
            if key not in self.objects:
                raise server_error(404)
            obj = merge_patch(self.objects[key], body)
            if self.decorate:
                obj = self.decorate(obj)
            self.objects[key] = obj
            result = copy.deepcopy(obj)
        elif method == "DELETE":
            if key not in self.objects:
                raise server_error(404)
            del self.objects[key]
            result = {}
        elif method == "GET":
            if key not in self.objects:
                raise server_error(404)
            result = copy.deepcopy(self.objects[key])
        else:
            raise AssertionError(f"unexpected method {method}")
        if f and f[0] == "exc_after":
            raise f[1]
        yield _Resp(result)
