"""Helpers shared by plugins that drive real koreo-core Functions / Workflows.

Nothing here decides a property; it prepares real definitions, runs them and turns what comes back
into plain JSON-like Python values."""
from __future__ import annotations

import asyncio
import copy

import celpy
from celpy import celtypes

from cluster import Cluster  # noqa: F401  (re-export)
import vloop


def reset_all():
    """Forget every module-level cache/registry koreo keeps between runs."""
    from koreo import cache, registry
    from koreo.resource_function.reconcile import kind_lookup
    try:
        cache._reset_cache()
    except RuntimeError:
        # cancelling tasks of a closed loop
        cache._REPREPARE_TASKS.clear()
        registry._reset_registries()
    cache._REPREPARE_TASKS.clear()
    cache._PREPARE_TIMES.clear()
    kind_lookup._reset()


class ErrMarker:
    """Stands for a celpy.CELEvalError object found inside a value."""
    def __repr__(self):
        return "<CELEvalError>"


def to_py(v):
    """celtypes / python value -> plain python (dict/list/str/int/float/bool/None);
    embedded CELEvalError objects become the string '<CELEvalError>' so a caller can see them."""
    if isinstance(v, celpy.CELEvalError):
        return "<CELEvalError>"
    if isinstance(v, celtypes.BoolType):
        return bool(v)
    if isinstance(v, bool):
        return v
    if isinstance(v, (celtypes.IntType, celtypes.UintType)):
        return int(v)
    if isinstance(v, celtypes.DoubleType):
        return float(v)
    if isinstance(v, (celtypes.StringType,)):
        return str(v)
    if isinstance(v, celtypes.BytesType):
        return {"<bytes>": list(v)}
    if isinstance(v, (celtypes.TimestampType, celtypes.DurationType)):
        return {"<time>": str(v)}
    if v is None or isinstance(v, celtypes.NullType):
        return None
    if isinstance(v, dict):
        return {to_py_key(k): to_py(x) for k, x in v.items()}
    if isinstance(v, (list, tuple)):
        return [to_py(x) for x in v]
    if isinstance(v, (int, float, str)):
        return v
    return f"<{type(v).__name__}>"


def to_py_key(k):
    k = to_py(k)
    if isinstance(k, (str, int, float, bool)) or k is None:
        return k if isinstance(k, str) else repr(k)
    return repr(k)


def contains_error(v) -> bool:
    """True if a CELEvalError object (or exception) sits anywhere inside v (keys included)."""
    if isinstance(v, BaseException):
        return True
    if isinstance(v, dict):
        return any(contains_error(k) or contains_error(x) for k, x in v.items())
    if isinstance(v, (list, tuple, set, frozenset)):
        return any(contains_error(x) for x in v)
    return False


def canon_outcome(o) -> dict:
    """Outcome object or bare value -> {'cls', 'delay', 'message', 'location', 'value'}."""
    from koreo import result
    if isinstance(o, result.DepSkip):
        return {"cls": "DepSkip", "message": o.message, "location": o.location}
    if isinstance(o, result.Skip):
        return {"cls": "Skip", "message": o.message, "location": o.location}
    if isinstance(o, result.Retry):
        return {"cls": "Retry", "delay": o.delay, "message": o.message, "location": o.location}
    if isinstance(o, result.PermFail):
        return {"cls": "PermFail", "message": o.message, "location": o.location}
    if isinstance(o, result.Ok):
        return {"cls": "Ok", "value": to_py(o.data), "location": o.location, "has_error": contains_error(o.data)}
    return {"cls": "Ok", "value": to_py(o), "has_error": contains_error(o)}


def run_async(coro, virtual=True):
    if virtual:
        return vloop.run(coro)[0]
    return asyncio.run(coro)


async def prepare_vf(name: str, spec: dict):
    from koreo.value_function.prepare import prepare_value_function
    return await prepare_value_function(name, copy.deepcopy(spec))


async def prepare_rf(name: str, spec: dict):
    from koreo.resource_function.prepare import prepare_resource_function
    return await prepare_resource_function(name, copy.deepcopy(spec))


def unwrap_prepared(p):
    """prepare_* returns (prepared, watched) on success or an outcome; -> (prepared|None, outcome|None)."""
    from koreo import result
    if isinstance(p, tuple) and not isinstance(p, (result.Retry, result.PermFail)):
        return p[0], None
    return None, p


async def reconcile_rf(fn, inputs: dict, cluster: Cluster, owner=None, location="test"):
    from koreo.resource_function.reconcile import reconcile_resource_function
    if owner is None:
        owner = ("default", {"apiVersion": "v1", "kind": "Parent", "name": "parent", "uid": "uid-parent",
                             "blockOwnerDeletion": True, "controller": False})
    return await reconcile_resource_function(api=cluster, location=location, function=fn, owner=owner,
                                             inputs=celpy.json_to_cel(copy.deepcopy(inputs)))


async def reconcile_vf(fn, inputs: dict, location="test", value_base=None):
    from koreo.value_function.reconcile import reconcile_value_function
    kw = {}
    if value_base is not None:
        kw["value_base"] = celpy.json_to_cel(copy.deepcopy(value_base))
    return await reconcile_value_function(location=location, function=fn,
                                          inputs=celpy.json_to_cel(copy.deepcopy(inputs)), **kw)


def calls_view(cluster: Cluster) -> list[dict]:
    """The recorded API calls as plain JSON (method, endpoint, namespace, name, body)."""
    out = []
    for c in cluster.calls:
        out.append({k: copy.deepcopy(c.get(k)) for k in ("method", "endpoint", "namespace", "name", "body")})
    return out
