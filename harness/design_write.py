#!/venv/bin/python
"""Fill the generated tables of DESIGN.md (between @@NAME@@ markers or <!-- NAME --> blocks)."""
import re, subprocess, sys
from pathlib import Path
V = Path(__file__).resolve().parent.parent
out = subprocess.run([sys.executable, str(V / "harness" / "design_tables.py")], text=True, stdout=subprocess.PIPE, check=True).stdout
blocks = [b.strip() for b in out.split("\n\n") if b.strip()]
seed, fix, prop = blocks[0], blocks[1], blocks[2]
s = (V / "DESIGN.md").read_text()
for name, body in (("SEEDTABLE", seed), ("FIXTABLE", fix), ("PROPTABLE", prop)):
    block = f"<!-- {name} -->\n{body}\n<!-- /{name} -->"
    if f"@@{name}@@" in s:
        s = s.replace(f"@@{name}@@", block)
    else:
        s = re.sub(rf"<!-- {name} -->.*?<!-- /{name} -->", lambda m: block, s, flags=re.S)
(V / "DESIGN.md").write_text(s)
print("DESIGN.md tables written")
