#!/venv/bin/python
"""Entry point: `check.py Cxx [--tier quick|thorough] [--seed N] [--replay FILE]`.

exit 0: the property held on everything explored (KNOWN-FINDING lines may be printed);
exit 1: `VIOLATION property=Cxx replay=<path>[ no-failing-input-found]` was printed.
"""
from __future__ import annotations

import argparse
import hashlib
import importlib
import json
import os
import re
import shutil
import sys
import time
import traceback
from pathlib import Path

if os.environ.get("PYTHONHASHSEED") != "0":
    # str hashing (hence set / dict-of-set iteration order inside koreo and the harness) must not vary from
    # run to run: every run, and every replay, sees the same orders.  Takes effect only at interpreter start.
    os.environ["PYTHONHASHSEED"] = "0"
    os.execv(sys.executable, [sys.executable] + sys.argv)
HERE = Path(__file__).resolve().parent
sys.path.insert(0, str(HERE))

import logging
logging.disable(logging.CRITICAL)
import common  # noqa: E402
from common import (BuildError, Ctx, Failure, COQ, EVIDENCE, REPLAYS, VERIF, WORK,  # noqa: E402
                    jsonable, known_match)

sys.path.insert(0, str(common.SRC))


def write_replay(prop: str, kind: str, payload: dict) -> Path:
    REPLAYS.mkdir(exist_ok=True)
    body = json.dumps(jsonable(payload), indent=1, sort_keys=True, default=repr)
    h = hashlib.sha1(body.encode()).hexdigest()[:12]
    p = REPLAYS / f"{prop}-{kind}-{h}.json"
    p.write_text(body)
    return p


class WatchdogTimeout(Exception):
    """the check ran longer than its budget: some generated case makes the implementation hang or loop"""


def arm_watchdog(tier: str, fired: list):
    import signal
    budget = float(os.environ.get("VERIF_BUDGET_S", "1800" if tier == "quick" else "14400"))

    def on_alarm(_sig, _frm):
        fired.append(time.time())
        raise WatchdogTimeout(f"no result after {budget:.0f} s")
    signal.signal(signal.SIGALRM, on_alarm)
    signal.setitimer(signal.ITIMER_REAL, budget, 60.0)      # then every minute until the run ends
    return budget


def main() -> int:
    ap = argparse.ArgumentParser()
    ap.add_argument("prop")
    ap.add_argument("--tier", default=os.environ.get("VERIF_TIER", "quick"), choices=["quick", "thorough"])
    ap.add_argument("--seed", type=int, default=int(os.environ.get("VERIF_SEED", "0") or 0))
    ap.add_argument("--replay", default=None)
    ap.add_argument("--no-build", action="store_true", help="(development) skip the Coq build")
    args = ap.parse_args()

    prop = args.prop
    t0 = time.time()
    plugin = importlib.import_module(f"props.{prop}")
    workdir = WORK / f"{prop}-{os.getpid()}"
    if workdir.exists():
        shutil.rmtree(workdir)
    workdir.mkdir(parents=True)
    ctx = Ctx(prop=prop, tier=args.tier, seed=args.seed, workdir=workdir)

    broken: list[dict] = []          # proof obligations / machinery that no longer check
    theorems: dict[str, list[str]] = {}
    obligations = discharged = 0
    prop_file = COQ / "props" / f"P_{prop}.v"
    proof_files = [COQ / f for f in getattr(plugin, "PROOF_FILES", [])] + [prop_file]
    try:
        # ---- 1. build model + theorems (full .vo build of exactly what this property needs)
        model_ok = True
        try:
            if hasattr(plugin, "pre_build"):
                # regenerate model files that are translated from /repo's current source
                plugin.pre_build()
            if not args.no_build:
                common.coq_build(list(plugin.COQ_TARGETS), clean=False)
        except BuildError as e:
            model_ok = False
            broken.append({"what": "coq build of " + ", ".join(plugin.COQ_TARGETS) + " failed",
                           "log": e.log})
        except Exception:
            model_ok = False
            broken.append({"what": "pre_build (translation of /repo sources into the model) failed",
                           "log": traceback.format_exc()})
        # ---- 2. re-check statements, assumptions, hygiene
        if model_ok:
            try:
                theorems = common.print_assumptions(prop_file, workdir)
                for name, axioms in theorems.items():
                    bad_ax = [a for a in axioms if a not in common.ALLOWED_AXIOMS
                              and a not in getattr(plugin, "ALLOWED_AXIOMS", ())]
                    if bad_ax:
                        broken.append({"what": f"theorem {name} depends on axioms {bad_ax}"})
            except BuildError as e:
                broken.append({"what": f"re-check of {prop_file.name} failed", "log": e.log})
            hits = common.hygiene_scan(common.dep_closure(list(plugin.COQ_TARGETS)))
            if hits:
                broken.append({"what": "forbidden vernacular in the development", "hits": hits})
            if args.tier == "thorough":
                # independent re-check of the compiled property file and everything it depends on
                r = common._run(["timeout", "1500", "coqchk", "-silent", "-o", "-Q", str(COQ), "Koreo",
                                 f"Koreo.props.P_{prop}"], cwd=COQ, timeout=1600)
                m = re.search(r"\* Axioms:(.*?)\n\s*\n", r.stdout, re.S)
                coqchk_axioms = m.group(1).strip() if m else "?"
                ctx.notes.append({"coqchk": {"rc": r.returncode, "axioms": coqchk_axioms}})
                if r.returncode != 0 or coqchk_axioms != "<none>":
                    broken.append({"what": f"coqchk -o on P_{prop}: rc={r.returncode}, axioms: {coqchk_axioms}",
                                   "log": r.stdout[-2000:]})
            obligations, discharged = common.count_obligations(proof_files)
            if obligations != discharged:
                broken.append({"what": f"{obligations} statements but {discharged} Qed/Defined in "
                               + ", ".join(p.name for p in proof_files)})
        ctx.model_ok = model_ok

        # ---- 3. correspondence + oracle
        if args.replay:
            data = json.loads(Path(args.replay).read_text())
            plugin.replay(ctx, data)
        else:
            fired: list = []
            budget = arm_watchdog(args.tier, fired)
            try:
                plugin.run(ctx)
            except WatchdogTimeout:
                pass
            except Exception:
                broken.append({"what": "harness crashed while running the implementation",
                               "log": traceback.format_exc()})
            finally:
                import signal
                signal.setitimer(signal.ITIMER_REAL, 0)
            if fired:
                broken.append({"what": f"the check did not finish within its budget of {budget:.0f} s: the implementation "
                                       "hangs or loops on a generated case (the run was interrupted "
                                       f"{len(fired)} time(s))"})

        # ---- 4. verdict
        rc = 0
        seen_sig = set()
        unknown = []
        for f in ctx.failures:
            if f.signature in seen_sig:
                continue
            seen_sig.add(f.signature)
            k = known_match(prop, f.signature)
            if k:
                print(f"KNOWN-FINDING: property={prop} {k.get('title', f.what)}")
            else:
                unknown.append(f)
        for f in unknown[:5]:
            p = write_replay(prop, "input", {
                "property": prop, "kind": "failing-input", "seed": args.seed, "tier": args.tier,
                "signature": f.signature, "what": f.what, "case": f.case,
                "observed": f.observed, "expected": f.expected,
                "replay_cmd": f"/venv/bin/python /verif/harness/check.py {prop} --replay <this file>"})
            print(f"VIOLATION property={prop} replay={p}")
            rc = 1
        if ctx.corr_errors:
            broken.append({"what": "correspondence evaluation failed in coqc", "log": ctx.corr_errors})
        if ctx.mismatches:
            by = {}
            for name, case, detail in ctx.mismatches:
                by.setdefault(name, []).append({"case": case, "detail": detail})
            for name, lst in by.items():
                broken.append({"what": f"correspondence '{name}': model and implementation disagree on {len(lst)} case(s)",
                               "first_cases": lst[:3]})
        if broken and not unknown:
            p = write_replay(prop, "broken", {
                "property": prop, "kind": "no-failing-input-found", "seed": args.seed, "tier": args.tier,
                "broken": broken,
                "explanation": "a theorem / the model-vs-code correspondence for this property no longer "
                               "checks, so the property is no longer shown to hold; the failing-input "
                               "search (oracle on every generated case) found no concrete counterexample"})
            print(f"VIOLATION property={prop} replay={p} no-failing-input-found")
            rc = 1
        elif broken:
            ctx.notes.append({"also_broken": broken})

        # ---- 5. evidence
        cov = {
            "obligations": obligations,
            "discharged": discharged if not any("Qed" in b["what"] or "build" in b["what"] for b in broken) else 0,
            "checker_cmd": "make -C /verif/coq " + " ".join(plugin.COQ_TARGETS) + " (coqc 8.16.1, full .vo) ; coqc props/P_%s.v (Print Assumptions)" % prop,
            "trusted_base": common.TRUSTED_BASE + list(getattr(plugin, "TRUSTED", [])),
            "theorems": theorems,
            "evaluations": ctx.cases,
            "distinct_nontrivial": len(ctx.nontrivial_keys),
            "rule": getattr(plugin, "RULE", ""),
            "samples": ctx.samples[:5] if ctx.samples else [{"theorems": sorted(theorems)}],
            "traces_validated_against_impl": ctx.traces,
            "distribution": ctx.dist,
            "model_impl_mismatches": len(ctx.mismatches),
            "oracle_failures": len(ctx.failures),
            "known_findings_seen": sorted(s for s in seen_sig if known_match(prop, s)),
            "notes": ctx.notes,
        }
        ev = {
            "property_id": prop, "tier": args.tier, "seed": args.seed, "level": "proof",
            "coverage": cov,
            "assumptions": list(getattr(plugin, "ASSUMPTIONS", [])),
            "wall_s": round(time.time() - t0, 2),
            "violations": len(unknown) + (1 if (broken and not unknown) else 0),
        }
        # evidence is only ever written for /repo itself; a run against a scratch copy
        # (KOREO_REPO, used to evaluate seeded changes) leaves it alone
        ev_dir = EVIDENCE if "KOREO_REPO" not in os.environ else (WORK / "evidence-scratch")
        ev_dir.mkdir(parents=True, exist_ok=True)
        (ev_dir / f"{prop}.json").write_text(json.dumps(jsonable(ev), indent=1, default=repr))
        print(f"[{prop}] tier={args.tier} seed={args.seed} theorems={len(theorems)} obligations={obligations} "
              f"cases={ctx.cases} nontrivial={len(ctx.nontrivial_keys)} corr={ctx.traces} "
              f"mismatches={len(ctx.mismatches)} oracle_failures={len(ctx.failures)} "
              f"wall={ev['wall_s']}s rc={rc}")
        return rc
    finally:
        shutil.rmtree(workdir, ignore_errors=True)


if __name__ == "__main__":
    sys.exit(main())
