#!/venv/bin/python
"""register.py Cxx [...]: move properties from not_applicable to claimed using notes/Cxx.manifest.json."""
import json, sys
from pathlib import Path
V = Path(__file__).resolve().parent.parent
e = json.loads((V / "harness" / "manifest_entries.json").read_text())
for pid in sys.argv[1:]:
    m = json.loads((V / "notes" / f"{pid}.manifest.json").read_text())
    e["claimed"] = [c for c in e["claimed"] if c["id"] != pid] + [{"id": pid, "text": m["text"], "note": m["note"], **({"technique": m["technique"]} if "technique" in m else {})}]
    e["not_applicable"] = [x for x in e["not_applicable"] if x["property_id"] != pid]
e["claimed"].sort(key=lambda c: c["id"])
(V / "harness" / "manifest_entries.json").write_text(json.dumps(e, indent=1))
import subprocess
subprocess.run([sys.executable, str(V / "harness" / "manifest_gen.py")], check=True)
