#!/venv/bin/python
"""Run every registered check (quick or thorough) one after the other and print a summary table."""
import json, subprocess, sys, time
from pathlib import Path
V = Path(__file__).resolve().parent.parent
tier = sys.argv[1] if len(sys.argv) > 1 else "quick"
seed = sys.argv[2] if len(sys.argv) > 2 else "0"
m = json.loads((V / "MANIFEST.json").read_text())
rows = []
for c in m["checks"]:
    cmd = c["quick_cmd"] if tier == "quick" else c["thorough_cmd"]
    t0 = time.time()
    r = subprocess.run(cmd, shell=True, cwd=V, text=True, stdout=subprocess.PIPE, stderr=subprocess.STDOUT,
                       env={**__import__("os").environ, "VERIF_SEED": seed})
    lines = r.stdout.strip().splitlines()
    rows.append((c["property_id"], r.returncode, round(time.time() - t0, 1), lines[-1] if lines else ""))
    print(rows[-1], flush=True)
    for l in lines:
        if l.startswith(("VIOLATION", "KNOWN-FINDING")):
            print("   ", l, flush=True)
print("ALL OK" if all(r[1] == 0 for r in rows) else "SOME FAILED", "total", round(sum(r[2] for r in rows)), "s")
