#!/bin/bash
# usage: quick_set.sh <log> <seed> <prop>...
cd /verif
log=$1; seed=$2; shift; shift
for p in "$@"; do
  out=$(/venv/bin/python harness/check.py $p --tier quick --seed $seed 2>&1 | grep -E "^\[C|VIOLATION" | tr '\n' ' ')
  echo "$p seed=$seed $out" >> $log
done
