#!/bin/bash
# usage: thorough_set.sh <log> <seed> <prop>...
cd /verif
log=$1; seed=$2; shift; shift
for p in "$@"; do
  out=$(/venv/bin/python harness/check.py $p --tier thorough --seed $seed 2>&1 | grep -E "^\[C|VIOLATION|KNOWN-FINDING" | tr '\n' ' ')
  echo "$p $out" >> $log
done
