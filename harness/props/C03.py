"""C03 — outcome aggregation (src/koreo/result.py) vs model/Outcome.v."""
from __future__ import annotations

import itertools

from common import Ctx, Failure, cjson, clist, copt, cstr, cz, cnat, corpus_cases, shrink_list

COQ_TARGETS = ["props/P_C03.vo", "corr/Corr_C03.vo"]
PROOF_FILES = ["proofs/Outcome_proofs.v", "proofs/Outcome_sync.v"]


def pre_build():
    """regenerate coq/gen/Outcome_gen.v from /repo's current result.py (fail-closed translator)"""
    import translate_result
    translate_result.main()

RULE = ("sequences of outcomes over an alphabet of 5 classes x message/location present, empty or absent x "
        "delays x JSON values: exhaustive up to a length bound, random up to length 40, and random "
        "permutations of each random sequence; a case is non-trivial when it has >=2 elements of >=2 classes; "
        "distinct by content")
ASSUMPTIONS = [
    "the workflow-level stage (overall outcome of a real Workflow vs its steps' outcomes, with failing API calls) is an oracle on the real code only; the Workflow itself is modelled under C01/C02/C09",
    "inputs to combine are 'raw': an Ok's data is never the module-private _OkData wrapper (no caller can hold one)",
    "unwrapped_combine inputs are bare JSON values or non-Ok outcomes",
]
TRUSTED = ["functools.reduce folds left to right",
           "harness/translate_result.py (Python-ast -> Gallina transcription of the five combine methods; conventions in its docstring)"]

SEV = {"DepSkip": 0, "Skip": 1, "Ok": 2, "Retry": 3, "PermFail": 4}


# ---- case <-> real objects -------------------------------------------------

def mk(item):
    from koreo import result
    k = item[0]
    if k == "DepSkip":
        return result.DepSkip(message=item[1], location=item[2])
    if k == "Skip":
        return result.Skip(message=item[1], location=item[2])
    if k == "Ok":
        return result.Ok(item[1], location=item[2])
    if k == "Retry":
        return result.Retry(delay=item[1], message=item[2], location=item[3])
    if k == "PermFail":
        return result.PermFail(message=item[1], location=item[2])
    if k == "Val":
        return item[1]
    raise ValueError(k)


def observe(r):
    from koreo import result
    if isinstance(r, result.DepSkip):
        return {"sev": 0, "values": [], "delay": None, "msg": r.message, "loc": r.location}
    if isinstance(r, result.Skip):
        return {"sev": 1, "values": [], "delay": None, "msg": r.message, "loc": r.location}
    if isinstance(r, result.Ok):
        assert isinstance(r.data, list), "combine returned Ok whose data is not a list"
        return {"sev": 2, "values": r.data, "delay": None, "msg": None, "loc": r.location}
    if isinstance(r, result.Retry):
        return {"sev": 3, "values": [], "delay": r.delay, "msg": r.message, "loc": r.location}
    if isinstance(r, result.PermFail):
        return {"sev": 4, "values": [], "delay": None, "msg": r.message, "loc": r.location}
    # unwrapped_combine: bare list
    assert isinstance(r, list), f"unexpected result {r!r}"
    return {"sev": 2, "values": r, "delay": None, "msg": None, "loc": None}


def _attrs(o):
    return (type(o).__name__, getattr(o, "message", None), getattr(o, "location", None),
            getattr(o, "delay", None), repr(getattr(o, "data", None)))


class InputsMutated(Exception):
    pass


def run_impl(case):
    """combine the sequence; then combine the SAME objects again (and a rotation of them): the inputs must be
    left untouched and the second result must be the same — 'combining any sequence … whatever the order'
    is about values, so combining must not consume or modify the outcomes it is given."""
    from koreo import result
    xs = [mk(i) for i in case["xs"]]
    before = [_attrs(x) for x in xs]
    f = result.combine if case["mode"] == "combine" else result.unwrapped_combine
    first = observe(f(xs))
    if [_attrs(x) for x in xs] != before:
        raise InputsMutated("combine modified the outcomes it was given")
    again = observe(f(xs))
    if again != first:
        raise InputsMutated(f"combining the same outcome objects a second time gives a different result: {first} then {again}")
    if len(xs) > 1:
        f(xs[1:] + xs[:1])
        if [_attrs(x) for x in xs] != before or observe(f(xs)) != first:
            raise InputsMutated("combining a rotation of the same outcome objects changes them / a later result")
    return first


# ---- Gallina ----------------------------------------------------------------

def c_outcome(item):
    k = item[0]
    o = lambda s: copt(s, cstr)
    if k in ("DepSkip", "Skip", "PermFail"):
        return f"({k} {o(item[1])} {o(item[2])})"
    if k == "Ok":
        return f"(Ok (Single {cjson(item[1])}) {o(item[2])})"
    if k == "Retry":
        return f"(Retry {cz(item[1])} {o(item[2])} {o(item[3])})"
    raise ValueError(k)


def c_obs(o):
    return ("{| o_sev := %s; o_values := %s; o_delay := %s; o_msg := %s; o_loc := %s |}" % (
        cnat(o["sev"]), clist(o["values"], cjson), copt(o["delay"], cz),
        copt(o["msg"], cstr), copt(o["loc"], cstr)))


def to_coq(case, obs):
    if case["mode"] == "combine":
        return f"CCombine {clist(case['xs'], c_outcome)} {c_obs(obs)}"
    us = clist(case["xs"], lambda i: f"(UVal {cjson(i[1])})" if i[0] == "Val" else f"(UOut {c_outcome(i)})")
    return f"CUnwrapped {us} {c_obs(obs)}"


# ---- oracle: the property text, directly -----------------------------------

def cls(item):
    return "Ok" if item[0] == "Val" else item[0]


def field(item, name):
    k = item[0]
    if name == "msg":
        return {"DepSkip": 1, "Skip": 1, "PermFail": 1, "Retry": 2}.get(k) and item[{"DepSkip": 1, "Skip": 1, "PermFail": 1, "Retry": 2}[k]]
    if name == "loc":
        idx = {"DepSkip": 2, "Skip": 2, "PermFail": 2, "Retry": 3, "Ok": 2}.get(k)
        return item[idx] if idx is not None else None
    raise ValueError(name)


def oracle(case, obs):
    """None if the property holds on this case, else a short reason."""
    xs = case["xs"]
    if not xs:
        return None if obs["sev"] == 1 else "empty sequence is not Skip"
    top = max(SEV[cls(i)] for i in xs)
    if obs["sev"] != top:
        return f"class severity {obs['sev']} is not the most severe present ({top})"
    if top == 2:
        want = [i[1] for i in xs if cls(i) == "Ok"]
        if obs["values"] != want or [type(v) for v in obs["values"]] != [type(v) for v in want]:
            return "Ok values are not exactly the Ok inputs in sequence order"
    if top in (3, 4):
        name = "Retry" if top == 3 else "PermFail"
        msgs = [field(i, "msg") for i in xs if i[0] == name and field(i, "msg")]
        got = obs["msg"] or ""
        for m in msgs:
            if m not in got:
                return f"message {m!r} of the winning class is lost"
        if len(got) != sum(len(m) for m in msgs) + 2 * max(0, len(msgs) - 1):
            return "combined message contains text that is not a message of the winning class"
    if top == 3:
        d = max(i[1] for i in xs if i[0] == "Retry")
        if obs["delay"] != d:
            return f"delay {obs['delay']} is not the longest Retry delay {d}"
    return None


def oracle_perm(case, obs, rng):
    """order-insensitivity: class, delay and kept-message multiset under a shuffle."""
    xs = list(case["xs"])
    rng.shuffle(xs)
    other = run_impl({"mode": case["mode"], "xs": xs})
    if other["sev"] != obs["sev"]:
        return xs, "class depends on the order of the sequence"
    if other["delay"] != obs["delay"]:
        return xs, "delay depends on the order of the sequence"
    if obs["sev"] >= 3 and len(other["msg"] or "") != len(obs["msg"] or ""):
        return xs, "kept messages depend on the order of the sequence"
    if obs["sev"] == 2 and sorted(map(repr, other["values"])) != sorted(map(repr, obs["values"])):
        return xs, "kept Ok values depend on the order of the sequence"
    return xs, None


# ---- generators --------------------------------------------------------------

TEXTS = [None, "", "m", "second msg", "a, b"]
VALUES = [None, True, 0, 1, -7, "v", "", [1, 2], {"k": 1}, [], {}, 2.5, 2 ** 70]


def alphabet():
    return [
        ["DepSkip", None, None], ["DepSkip", "dep", ""],
        ["Skip", None, None], ["Skip", "skipped", "s-loc"],
        ["Ok", 1, None], ["Ok", "v", "ok-loc"], ["Ok", None, ""],
        ["Retry", 1, None, None], ["Retry", 7, "wait", "r-loc"], ["Retry", 7, "", None],
        ["PermFail", None, None], ["PermFail", "boom", "p-loc"],
    ]


def rand_item(rng, unwrapped=False):
    k = rng.choice(["DepSkip", "Skip", "Ok", "Ok", "Retry", "Retry", "PermFail"])
    t = lambda: rng.choice(TEXTS)
    if k == "Ok":
        v = rng.choice(VALUES)
        return ["Val", v] if unwrapped else ["Ok", v, t()]
    if k == "Retry":
        return ["Retry", rng.choice([0, 1, 5, 5, 60, 3600, -1]), t(), t()]
    return [k, t(), t()]


def gen_cases(ctx: Ctx):
    for c in corpus_cases("C03"):
        yield c
    alpha = alphabet()
    maxlen = 3 if ctx.quick() else 4
    for n in range(0, maxlen + 1):
        for seq in itertools.product(alpha, repeat=n):
            yield {"mode": "combine", "xs": [list(i) for i in seq]}
    ua = [["Val", 1], ["Val", None], ["Val", [1]]] + [a for a in alpha if a[0] != "Ok"]
    for n in range(0, 3 if ctx.quick() else 4):
        for seq in itertools.product(ua, repeat=n):
            yield {"mode": "unwrapped", "xs": [list(i) for i in seq]}
    nrand = 400 if ctx.quick() else 6000
    for _ in range(nrand):
        unwrapped = ctx.rng.random() < 0.3
        n = ctx.rng.choice([1, 2, 3, 5, 8, 13, 21, 40])
        # bias: restrict the classes present so that every class wins sometimes
        cap = ctx.rng.choice([0, 1, 2, 2, 3, 3, 4, 4])
        xs = []
        while len(xs) < n:
            it = rand_item(ctx.rng, unwrapped)
            if SEV[cls(it)] <= cap:
                xs.append(it)
        yield {"mode": "unwrapped" if unwrapped else "combine", "xs": xs}


def check_one(ctx: Ctx, case, permute=True):
    obs = run_impl(case)
    why = oracle(case, obs)
    fail_case = case
    if why is None and permute and len(case["xs"]) > 1:
        xs2, why = oracle_perm(case, obs, ctx.rng)
        if why:
            fail_case = {"mode": case["mode"], "xs": case["xs"], "permuted": xs2}
    if why:
        def still(xs):
            c = {"mode": case["mode"], "xs": xs}
            o = run_impl(c)
            return oracle(c, o) == why
        small = fail_case
        if "permuted" not in fail_case:
            small = {"mode": case["mode"], "xs": shrink_list(case["xs"], still)}
        ctx.fail(Failure(signature=f"{case['mode']}: {why.split('(')[0].strip()}", what=why,
                         case=small, observed=run_impl({"mode": small["mode"], "xs": small["xs"]})))
    return obs


SEV_NAME = {"DepSkip": 0, "Skip": 1, "Ok": 2, "Retry": 3, "PermFail": 4}


def falsy_workflows():
    """Workflows whose steps succeed with FALSY values (None: ValueFunction without return; {}: sub-Workflow
    without state; []: forEach over nothing), alone and next to a skipped / a plain step: an Ok outcome
    counts as Ok whatever its value."""
    vf_none = {"kind": "ValueFunction", "spec": {"preconditions": [{"assert": "=true", "skip": {"message": "never"}}]}}
    vf_empty = {"kind": "ValueFunction", "spec": {"return": {}}}
    vf_map = {"kind": "ValueFunction", "spec": {"return": {"n": 1}}}
    vf_skip = {"kind": "ValueFunction", "spec": {"preconditions": [{"assert": "=false", "skip": {"message": "not wanted"}}],
                                                 "return": {"n": 2}}}
    vf_dep = {"kind": "ValueFunction", "spec": {"preconditions": [{"assert": "=false", "depSkip": {"message": "not yet"}}]}}
    shapes = {
        "none": [("none", {})], "empty": [("empty", {})], "fe0": [("map", {"forEach": {"itemIn": "=[]", "inputKey": "item"}})],
        "sub": [("SUB", {})],
        "none+skip": [("none", {}), ("skip", {})], "skip+none": [("skip", {}), ("none", {})],
        "fe0+dep": [("map", {"forEach": {"itemIn": "=[]", "inputKey": "item"}}), ("dep", {})],
        "map+none": [("map", {}), ("none", {})], "sub+skip": [("SUB", {}), ("skip", {})],
        "none+empty+fe0": [("none", {}), ("empty", {}), ("map", {"forEach": {"itemIn": "=[]", "inputKey": "item"}})],
    }
    for j, (shape, steps) in enumerate(sorted(shapes.items())):
        uid = 990000 + j
        fns = {f"vf-{uid}-{k}": v for k, v in (("none", vf_none), ("empty", vf_empty), ("map", vf_map), ("skip", vf_skip), ("dep", vf_dep))}
        subs = {f"sub-{uid}": {"steps": [{"label": "inner", "ref": {"kind": "ValueFunction", "name": f"vf-{uid}-none"}}]}}
        wsteps = []
        for i, (k, extra) in enumerate(steps):
            ref = {"kind": "Workflow", "name": f"sub-{uid}"} if k == "SUB" else {"kind": "ValueFunction", "name": f"vf-{uid}-{k}"}
            wsteps.append({"label": f"st{i}", "ref": ref, **extra})
        yield {"fns": fns, "subs": subs, "wf": {"steps": wsteps}, "owners": {}, "prims": {}, "uid": uid, "shape": "falsy:" + shape,
               "initial_items": []}


def workflow_stage(ctx: Ctx):
    """The 'consequently' clause at the place the aggregation is USED: a real Workflow reports Ok only if
    none of its steps is waiting or failed, and its overall class is the most severe class among its
    steps' reported outcomes.  Oracle only (the workflow itself is modelled under C01/C09); reuses the
    C09 plugin's workflow generator and fault runner, including steps that raise late."""
    from props import C09
    nwf = 3 if ctx.quick() else 12
    todo = []
    # regression shapes kept by the C09 check (independent Ok steps around a step whose API call fails, ...)
    for wcase in corpus_cases("C09"):
        if "wf" in wcase:
            todo.append((wcase, [(pl["p"], {int(i): k for i, k in pl["faults"].items()},
                                  {int(i): v for i, v in pl.get("latency", {}).items()})
                                 for pl in wcase.get("plan", []) if all(k in ("exc", "http500", "srv500") for k in pl["faults"].values())]))
    for j in range(nwf):
        case = C09.gen_workflow(ctx.rng, script=["vf", "rf:patch", "vf", "vfdep", "rf:recreate"] if j == 0 else None)
        case["initial_items"] = [[list(k), v] for k, v in C09.seed_objects(case).items()]
        todo.append((case, None))
    for case in falsy_workflows():
        todo.append((case, None))
    for case, fixed_plans in todo:
        wf = C09.build(case)
        if wf is None:
            continue
        ref = C09.reference_run(wf, {tuple(k): v for k, v in case.get("initial_items", [])})
        if not isinstance(ref, list):      # None: not quiescent; str: the fault-free pass escaped (C09's subject)
            continue
        plans = [(p, {}, {}) for p in range(len(ref))]
        if fixed_plans is not None:
            plans += [pl for pl in fixed_plans if pl[0] < len(ref)]
        else:
            for p, pe in enumerate(ref):
                for i, c in enumerate(pe["calls"]):
                    if c[0] != "GET":
                        plans.append((p, {i: "exc"}, {i: 1.0}))      # the step raises after the others finished
                        plans.append((p, {i: "http500"}, {}))
                    elif ctx.rng.random() < 0.3:
                        plans.append((p, {i: "srv500"}, {}))
        if fixed_plans is None:
            # fault-free passes under other completion orders (later API calls answer first / scattered): the
            # aggregation must see the same outcomes in the same SEQUENCE order (forEach iterations included)
            for p, pe in enumerate(ref):
                n = len(pe["calls"])
                if n >= 2:
                    plans.append((p, {}, {i: 0.05 * (n - i) for i in range(n)}))
                    plans.append((p, {}, {i: 0.05 * ((i * 7) % 5 + 1) for i in range(n)}))
        for p, faults, latency in plans:
            obs, fired, _rec = C09.fault_run(case, wf, ref, p, faults, latency)
            ctx.count("workflow-level:" + ("faulted" if fired else "fault-free"))
            if obs["escaped"] or obs["res"] is None:
                continue                                         # C09's subject
            steps = C09.step_outcomes(obs["rec"].wfs[0]) or {}
            overall = C09.canon_oc(obs["res"].result)["cls"]
            classes = [o["cls"] for o in steps.values()]
            tag = {"case": C09.slim(case), "pass": p, "faults": {str(k): v for k, v in faults.items()},
                   "latency": {str(k): v for k, v in latency.items()}}
            ctx.note_case({"workflow": case["uid"], "pass": p, "faults": tag["faults"]}, nontrivial=len(set(classes)) >= 2,
                          key=f"wf|{case['uid']}|{p}|{sorted(tag['faults'].items())}")
            if classes and SEV_NAME[overall] != max(SEV_NAME[c] for c in classes):
                ctx.fail(Failure(signature="workflow: overall outcome is not the most severe class among its steps",
                                 what=f"overall {overall}, steps {classes}", case=tag, observed={"steps": steps}))
            if not faults and latency and not fired:
                if C09.canon_result(obs["res"]) != ref[p]["canon"] or steps != (ref[p]["steps"] or {}):
                    ctx.fail(Failure(signature="workflow: outcomes / Ok values depend on the completion order of the API calls",
                                     what=f"pass {p}: result under latencies differs from the result without",
                                     case=tag, observed={"steps": steps, "canon": C09.canon_result(obs["res"])},
                                     expected={"steps": ref[p]["steps"], "canon": ref[p]["canon"]}))
            # every Ok step contributes its value, whatever that value is
            raw = obs["res"].result
            if overall == "Ok" and isinstance(raw, list) and len(raw) != sum(1 for c in classes if c == "Ok"):
                ctx.fail(Failure(signature="workflow: the Ok values are not one per Ok step",
                                 what=f"{len(raw)} values for step classes {classes}", case=tag, observed={"steps": steps}))
            # ground truth for 'waiting or failed': a step whose own API call was made to fail did not succeed
            if fired and any(k in ("exc", "http500", "srv500") for _i, k in fired) and overall in ("Ok", "Skip", "DepSkip"):
                ctx.fail(Failure(signature="workflow: reports Ok/Skip although a step is waiting or failed",
                                 what=f"overall {overall} although the API call of a step failed ({fired})",
                                 case=tag, observed={"steps": steps}))


def run(ctx: Ctx):
    cases, terms = [], []
    for case in gen_cases(ctx):
        try:
            obs = check_one(ctx, case, permute=(len(cases) % 3 == 0))
        except InputsMutated as e:
            ctx.fail(Failure(signature=f"{case['mode']}: combining modifies its inputs", what=str(e), case=case))
            continue
        except Exception as e:  # the real code raised: not a value the model can produce
            ctx.fail(Failure(signature=f"{case['mode']}: raises {type(e).__name__}",
                             what=f"result.{case['mode']} raised {e!r}", case=case))
            continue
        classes = {cls(i) for i in case["xs"]}
        ctx.note_case(case, nontrivial=len(case["xs"]) >= 2 and len(classes) >= 2)
        ctx.count(f"len:{min(len(case['xs']), 9)}{'+' if len(case['xs']) >= 9 else ''}")
        ctx.count(f"winner:{obs['sev']}")
        ctx.count(f"mode:{case['mode']}")
        cases.append(case)
        terms.append(to_coq(case, obs))
    if ctx.model_ok:
        ctx.correspond("result.combine / unwrapped_combine vs Outcome.combine", "Corr_C03", cases, terms)
    workflow_stage(ctx)


def replay(ctx: Ctx, data):
    case = data["case"] if "case" in data else data
    if "xs" not in case:            # a workflow-level case
        from props import C09
        wcase = case["case"]
        wf = C09.build(wcase)
        ref = C09.reference_run(wf, {tuple(k): v for k, v in wcase.get("initial_items", [])})
        obs, fired, _ = C09.fault_run(wcase, wf, ref, case["pass"], {int(k): v for k, v in case["faults"].items()},
                                      {int(k): v for k, v in case["latency"].items()})
        steps = C09.step_outcomes(obs["rec"].wfs[0]) or {}
        overall = C09.canon_oc(obs["res"].result)["cls"]
        if fired and overall in ("Ok", "Skip", "DepSkip"):
            ctx.fail(Failure(signature="workflow: reports Ok/Skip although a step is waiting or failed",
                             what=f"overall {overall}", case=case, observed={"steps": steps}))
        ctx.note_case(case, True)
        return
    ctx.model_ok and None
    obs = check_one(ctx, {"mode": case["mode"], "xs": case["xs"]})
    ctx.note_case(case, True)
    if ctx.model_ok:
        ctx.correspond("replay", "Corr_C03", [case], [to_coq(case, obs)])
