"""C07 — management modes bound the API calls (reconcile_resource_function) vs model/ResourceFn.v."""
from __future__ import annotations

import itertools

import rf_model as m
from common import Ctx, Failure, corpus_cases

COQ_TARGETS = ["props/P_C07.vo", "corr/Corr_RF.vo", "corr/Corr_RFF.vo"]
PROOF_FILES = ["proofs/ResourceFn_proofs.v", "proofs/RfFaults_proofs.v", "proofs/CrossModel_faults.v"]
RULE = ("exhaustive cells readonly x owned x namespaced x create.enabled x update policy x deleteIfExists x "
        "precondition result x cluster situation (absent / present+matching / present+drifted / present without owner "
        "ref / drifted and without owner ref / terminating), each with random target documents (inline or template, overlays, create overlay), plus random "
        "scenarios with failing expression sites; real prepare_resource_function + reconcile_resource_function "
        "against the in-memory cluster; non-trivial = the pass reaches the cluster (>= 1 call); distinct by cell + documents")
ASSUMPTIONS = [
    "fault-free API (GET/POST/PATCH/DELETE succeed); faults are property C09",
    "CEL evaluation results at each expression site are inputs of the model (the harness controls them through literal documents and inputs)",
    "cluster-scoped kinds are given no namespace in apiConfig",
]
TRUSTED = ["harness/cluster.py in-memory API double (RFC 7386 merge-patch, call log)", "harness/rf_model.py scenario realiser"]

MUT = ("POST", "PATCH", "DELETE")


def oracle(sc, o):
    """The property text on the observed call list. Returns list of (signature, what)."""
    c = sc["cfg"]
    methods = [x["m"] for x in o["calls"]]
    out = []
    die = c["delete_if_exists"]
    if c["readonly"] and ("POST" in methods or "PATCH" in methods):
        out.append(("readonly function created or patched", f"readonly but calls {methods}"))
    if c["readonly"] and not die and any(x in MUT for x in methods):
        out.append(("readonly function mutated", f"readonly but calls {methods}"))
    if not c["create_enabled"] and "POST" in methods:
        out.append(("create disabled but POST issued", f"create.enabled=false but calls {methods}"))
    if c["update"][0] == "never" and not die and ("PATCH" in methods or "DELETE" in methods):
        out.append(("update never but PATCH/DELETE issued", f"calls {methods}"))
    if c["update"][0] == "patch" and not die and "DELETE" in methods:
        out.append(("update patch but DELETE issued", f"calls {methods}"))
    if c["update"][0] == "recreate" and "PATCH" in methods:
        out.append(("update recreate but PATCH issued", f"calls {methods}"))
    if die and ("POST" in methods or "PATCH" in methods):
        out.append(("deleteIfExists but POST/PATCH issued", f"calls {methods}"))
    if sc["pre"] is not None and (methods or o.get("lookups")):
        out.append(("preconditions did not pass but API was called", f"calls {methods} kind lookups {o.get('lookups')}"))
    if (sc["live"] is None and not die and (c["readonly"] or not c["create_enabled"]) and sc["pre"] is None
            and sc.get("clean")):
        if any(x in MUT for x in methods):
            out.append(("absent and cannot create but mutated", f"calls {methods}"))
        if o["outcome"]["cls"] != "Retry":
            out.append(("absent and cannot create but result is not Retry",
                        f"outcome {o['outcome']['cls']} value {o['outcome'].get('value')!r}"))
    if len([x for x in methods if x in MUT]) > 1:
        out.append(("more than one mutating call in a pass", f"calls {methods}"))
    return out


def cells(ctx):
    flags = itertools.product([False, True], [False, True], [False, True], [False, True],
                              [["patch", 9], ["recreate", 11], ["never"]], [False, True],
                              [None, ["Retry", 5], ["Skip"]], ["absent", "match", "drift", "noowner", "drift_noowner", "terminating"])
    for ro, owned, nsd, ce, upd, die, pre, live in flags:
        yield {"readonly": ro, "owned": owned, "namespaced": nsd, "create_enabled": ce, "update": upd,
               "delete_if_exists": die}, pre, live


def scenarios(ctx: Ctx):
    for c in corpus_cases("C07"):
        yield c
    reps = 1 if ctx.quick() else 3
    for cfgbias, pre, live in cells(ctx):
        if ctx.quick() and pre is not None and pre[0] == "Skip":
            continue
        for _ in range(reps):
            sc = m.rand_scenario(ctx.rng)
            sc["cfg"].update(cfgbias)
            sc["cfg"]["plural"] = "widgets"
            sc["lookup"] = None
            m.clean_scenario(sc, ctx.rng)
            sc["name"] = ["Ok", "w1", "ns1" if cfgbias["namespaced"] else None]
            sc["pre"] = pre
            sc["clean"] = True
            if live == "absent":
                sc["live"] = None
            else:
                sc["live"] = "derive"
                sc["live_mode"] = live
            sc["cell"] = f"ro={cfgbias['readonly']} ce={cfgbias['create_enabled']} upd={cfgbias['update'][0]} die={cfgbias['delete_if_exists']} pre={pre is not None} live={live}"
            yield sc
    # dynamic plural lookup (apiConfig.plural omitted) x precondition result
    # a precondition whose assertion evaluates to a truthy NON-boolean: PermFail and no API call at all
    for nb in ("='false'", "=7", "=inputs.name", "=[true]"):
        for live in ("absent", "drift"):
            sc = m.rand_scenario(ctx.rng)
            m.clean_scenario(sc, ctx.rng)
            sc["cfg"].update({"plural": "widgets", "readonly": False, "delete_if_exists": False, "create_enabled": True})
            sc["lookup"] = None
            sc["pre"] = ["PermFail"]
            sc["pre_nonbool"] = nb
            sc["live"] = None if live == "absent" else "derive"
            sc["live_mode"] = "drift"
            sc["cell"] = f"non-boolean precondition {nb} live={live}"
            yield sc
    # several predicates fail at once: only the FIRST failing one decides (a later failing `ok` predicate
    # must not turn a Skip/DepSkip into "passed"); a first failing `ok` predicate ends evaluation: passed
    for pre in (["Skip"], ["DepSkip"], ["Retry", 5], ["PermFail"]):
        for tail in (["ok"], ["Retry", "ok"], ["PermFail"], ["Skip"]):
            for live in ("absent", "drift"):
                sc = m.rand_scenario(ctx.rng)
                m.clean_scenario(sc, ctx.rng)
                sc["cfg"].update({"plural": "widgets", "readonly": False, "delete_if_exists": False, "create_enabled": True})
                sc["lookup"] = None
                sc["pre"] = pre
                sc.pop("pre_nonbool", None)
                sc["pre_tail"] = tail
                sc["live"] = None if live == "absent" else "derive"
                sc["live_mode"] = "drift"
                sc["cell"] = f"failing predicates {pre[0]} then {tail} live={live}"
                yield sc
    for live in ("absent", "drift", "match"):
        sc = m.rand_scenario(ctx.rng)
        m.clean_scenario(sc, ctx.rng)
        sc["cfg"].update({"plural": "widgets"})
        sc["lookup"] = None
        sc["pre"] = None
        sc["pre_ok_first"] = True
        sc["live"] = None if live == "absent" else "derive"
        sc["live_mode"] = live
        sc["cell"] = f"first failing predicate is ok live={live}"
        yield sc
    # the only deviation lies under metadata (a label the target specifies): the policy decides all the same
    for upd in (["patch", 9], ["recreate", 11], ["never"]):
        for owned in (False, True):
            for _ in range(1 if ctx.quick() else 6):
                sc = m.rand_scenario(ctx.rng)
                m.clean_scenario(sc, ctx.rng)
                sc["cfg"].update({"plural": "widgets", "readonly": False, "delete_if_exists": False, "create_enabled": True,
                                  "update": upd, "owned": owned})
                sc["lookup"] = None
                sc["pre"] = None
                sc["template"] = ["Inline", {"metadata": {"labels": {"app": "web", "tier": ctx.rng.choice(["a", "b"])}},
                                             "spec": m.rand_map(ctx.rng, 2, nonempty=True)}]
                sc["overlays"] = None
                sc["live"] = "derive"
                sc["live_mode"] = "drift_meta"
                sc["cell"] = f"metadata-only drift upd={upd[0]} owned={owned}"
                yield sc
    # update / create delays left to the CRD schema's defaults (`update: {recreate: {}}`)
    for upd in ("patch", "recreate"):
        for live in ("drift", "drift_noowner", "absent"):
            for _ in range(2 if ctx.quick() else 8):
                sc = m.rand_scenario(ctx.rng)
                m.clean_scenario(sc, ctx.rng)
                sc["cfg"].update({"plural": "widgets", "readonly": False, "delete_if_exists": False, "create_enabled": True,
                                  "update": [upd, 30], "create_delay": 30})
                sc["lookup"] = None
                sc["pre"] = None
                sc["omit_defaults"] = True
                sc["live"] = None if live == "absent" else "derive"
                sc["live_mode"] = live
                sc["cell"] = f"defaults upd={upd} live={live}"
                yield sc
    for pre in (None, ["Retry", 5], ["PermFail"]):
        for ro in (False, True):
            for _ in range(2 if ctx.quick() else 10):
                sc = m.rand_scenario(ctx.rng)
                m.clean_scenario(sc, ctx.rng)
                sc["cfg"].update({"plural": None, "readonly": ro})
                sc["lookup"] = "widgets"
                sc["pre"] = pre
                sc["cell"] = f"lookup pre={pre is not None} ro={ro}"
                yield sc
    for _ in range(150 if ctx.quick() else 2500):
        yield m.rand_scenario(ctx.rng)


def fault_scenarios(ctx: Ctx):
    """the object appears between the read and the create (POST answered 409), and a failing read:
    oracle only (the fault-free Coq model does not cover these; faults are property C09)"""
    for upd in (["patch", 9], ["recreate", 11], ["never"]):
        for owned in (False, True):
            for _ in range(3 if ctx.quick() else 20):
                sc = m.rand_scenario(ctx.rng)
                m.clean_scenario(sc, ctx.rng)
                sc["cfg"].update({"update": upd, "owned": owned, "readonly": False, "delete_if_exists": False,
                                  "create_enabled": True, "plural": "widgets"})
                sc["lookup"] = None
                sc["pre"] = None
                sc["live"] = None
                sc["clean"] = False
                yield sc, {1: ("http", 409)}
                sc2 = dict(sc)
                sc2["cfg"] = dict(sc["cfg"], kind=None)
                yield sc2, {0: ("http", 500)}
    # delete-if-exists: the object disappears (or the server fails) between the read and the DELETE; a present object
    # whose PATCH / DELETE is answered 404 / 409 / 500 under the update policies: never a second mutating call
    for die, upd in ((True, ["patch", 9]), (True, ["never"]), (False, ["patch", 9]), (False, ["recreate", 11])):
        for code in (404, 409, 500):
            for _ in range(1 if ctx.quick() else 6):
                sc = m.rand_scenario(ctx.rng)
                m.clean_scenario(sc, ctx.rng)
                sc["cfg"].update({"update": upd, "readonly": False, "delete_if_exists": die, "create_enabled": True,
                                  "plural": "widgets"})
                sc["lookup"] = None
                sc["pre"] = None
                sc["live"] = "derive"
                sc["live_mode"] = "drift"
                sc["clean"] = False
                m.prepare_live(sc, ctx.rng)
                yield sc, {1: ("http", code)}
    # the read itself is answered 404 although the object is there / fails / raises; an exception at the write
    for live in ("absent", "drift", "match"):
        for fault in (("http", 404), ("http", 409), ("http", 500), ("exc_before", RuntimeError("boom"))):
            for _ in range(1 if ctx.quick() else 5):
                sc = m.rand_scenario(ctx.rng)
                m.clean_scenario(sc, ctx.rng)
                sc["cfg"].update({"plural": "widgets"})
                sc["lookup"] = None
                sc["pre"] = None
                sc["clean"] = False
                if live == "absent":
                    sc["live"] = None
                else:
                    sc["live"] = "derive"
                    sc["live_mode"] = live
                    m.prepare_live(sc, ctx.rng)
                yield sc, {0: fault}
                if fault[0] == "exc_before":
                    sc3 = dict(sc)
                    sc3["cfg"] = dict(sc["cfg"], kind=None)
                    yield sc3, {1: fault}


def run_one(ctx: Ctx, sc):
    m.prepare_live(sc, ctx.rng)
    obs, _ = m.run(sc)
    o = obs[0]
    if "prepare_failed" in o:
        ctx.count("prepare_failed")
        return None
    for sig, what in oracle(sc, o):
        ctx.fail(Failure(signature=sig, what=what, case=sc,
                         observed={"outcome": o["outcome"], "calls": [{k: v for k, v in c.items() if k != "raw_body"} for c in o["calls"]]}))
    return o


def run(ctx: Ctx):
    cases, terms = [], []
    for sc in scenarios(ctx):
        o = run_one(ctx, sc)
        if o is None:
            continue
        methods = tuple(x["m"] for x in o["calls"])
        ctx.note_case({"cell": sc.get("cell", "random"), "cfg": sc["cfg"], "template": sc["template"]},
                      nontrivial=len(methods) >= 1)
        ctx.count("calls:" + ",".join(methods))
        ctx.count("outcome:" + o["outcome"]["cls"])
        cases.append(sc)
        terms.append(m.c_case(sc, o))
    fcases, fterms = [], []
    for sc, faults in fault_scenarios(ctx):
        obs, _ = m.run(sc, faults=faults)
        o = obs[0]
        if "prepare_failed" in o:
            continue
        fcases.append({"scenario": sc, "faults": {str(k): list(map(str, v)) for k, v in faults.items()}})
        fterms.append(m.c_fault_case(sc, o, faults))
        ctx.count("faulted:" + ",".join(x["m"] for x in o["calls"]))
        ctx.note_case({"cfg": sc["cfg"], "faults": {str(k): v[0] for k, v in faults.items()}}, nontrivial=True)
        for sig, what in oracle(sc, o):
            ctx.fail(Failure(signature=sig + " (after an API fault)", what=what, case={"scenario": sc, "faults": {str(k): list(map(str, v)) for k, v in faults.items()}},
                             observed={"outcome": o["outcome"], "calls": [{k: v for k, v in c.items() if k != "raw_body"} for c in o["calls"]]}))
    if ctx.model_ok:
        ctx.correspond("reconcile_resource_function vs ResourceFn.reconcile_rf", "Corr_RF", cases, terms)
        ctx.correspond("reconcile_resource_function under API faults vs RfFaults.reconcile_rf_f", "Corr_RFF", fcases, fterms,
                       check_fn="check_fault_case")


def replay(ctx: Ctx, data):
    sc = data["case"] if "case" in data else data
    if "scenario" in sc:      # a faulted case: oracle only
        faults = {int(k): (v[0], int(v[1])) if v[0] == "http" else tuple(v) for k, v in sc["faults"].items()}
        obs, _ = m.run(sc["scenario"], faults=faults)
        for sig, what in oracle(sc["scenario"], obs[0]):
            ctx.fail(Failure(signature=sig + " (after an API fault)", what=what, case=sc))
        ctx.note_case(sc, True)
        if ctx.model_ok and "prepare_failed" not in obs[0]:
            ctx.correspond("replay (faulted)", "Corr_RFF", [sc], [m.c_fault_case(sc["scenario"], obs[0], faults)],
                           check_fn="check_fault_case")
        return
    o = run_one(ctx, sc)
    ctx.note_case(sc, True)
    if o is not None and ctx.model_ok:
        ctx.correspond("replay", "Corr_RF", [sc], [m.c_case(sc, o)])
