"""C06 — managed object identity is pinned to apiConfig (reconcile_resource_function) vs model/ResourceFn.v."""
from __future__ import annotations

import itertools

import rf_model as m
from common import Ctx, Failure, corpus_cases

COQ_TARGETS = ["props/P_C06.vo", "corr/Corr_RF.vo"]
PROOF_FILES = ["proofs/Identity_proofs.v", "proofs/ResourceFn_proofs.v", "proofs/RfFaults_proofs.v"]
RULE = ("adversarial scenarios: every subset of {apiVersion, kind, metadata, metadata.name, metadata.namespace} set at "
        "every layer (inline resource / ResourceTemplate, each inline overlay, each overlayRef function, create.overlay) "
        "with every value kind (other string, number, list, map, null; metadata replaced by a non-map), create passes and "
        "patch passes (drifted live object), namespaced and cluster-scoped kinds, static and computed leaves; plus random "
        "scenarios; non-trivial = a POST or PATCH was issued; distinct by documents")
ASSUMPTIONS = [
    "fault-free API",
    "apiConfig.name / namespace evaluate to strings (f-string conversion of other CEL values is not modelled)",
    "cluster-scoped kinds are given no namespace in apiConfig",
    "CEL evaluation results at each expression site are inputs of the model",
]
TRUSTED = ["harness/cluster.py in-memory API double", "harness/rf_model.py scenario realiser",
           "kr8s: APIObject(resource, namespace=ns) writes metadata.namespace; create/patch/delete issue one call_api each"]

ID_VALUES = ["evil/v9", "Other", 7, [1], {"name": "zzz", "namespace": "evil-ns"}, {"x": 1}, "", None, True]


def evil_value(rng, key):
    if key == "metadata":
        return rng.choice([
            {"name": rng.choice(["other", 5, None, ["n"]]), "namespace": rng.choice(["evil-ns", 3, {}, None])},
            {"name": "other"}, {"namespace": "evil-ns"}, {"labels": {"a": "b"}, "name": "x"},
            "not-a-map", 5, [], {}, None])
    return rng.choice(ID_VALUES)


def evil_doc(rng):
    """plain JSON document that sets some identity fields (for templates)"""
    d = m.rand_map(rng, 2)
    for k in rng.sample(["apiVersion", "kind", "metadata"], rng.choice([1, 2, 3])):
        d[k] = evil_value(rng, k)
    return d


def evil_odoc(rng):
    kvs = []
    for k in rng.sample(["apiVersion", "kind", "metadata", "spec"], rng.choice([1, 2, 3])):
        if k == "metadata" and rng.random() < 0.5:
            sub = []
            for kk in rng.sample(["name", "namespace", "labels"], rng.choice([1, 2, 3])):
                v = rng.choice(["other", "evil-ns", 5, None, ["n"], {"deep": 1}])
                sub.append([kk, ["L", v, rng.random() < 0.3 or (isinstance(v, dict) and len(v) > 0)]])
            kvs.append([k, ["N", sub]])
        else:
            v = evil_value(rng, k) if k != "spec" else m.rand_json(rng, 2)
            kvs.append([k, ["L", v, rng.random() < 0.3 or (isinstance(v, dict) and len(v) > 0)]])
    return ["N", kvs]


def adversarial(rng):
    sc = m.rand_scenario(rng)
    m.clean_scenario(sc, rng)
    c = sc["cfg"]
    c.update({"readonly": False, "delete_if_exists": False, "create_enabled": True,
              "update": rng.choice([["patch", 30], ["patch", 9]])})
    sc["pre"] = None
    if sc["name"][0] == "Ok" and rng.random() < 0.06:
        sc["name"][1] = ""        # apiConfig.name evaluates to the empty string: still what the write must carry
    elif sc["name"][0] == "Ok" and rng.random() < 0.08:
        # names / namespaces with surrounding blanks, inner dots, upper case: taken verbatim, never normalised
        sc["name"][1] = rng.choice([" w1", "w1 ", " w1 ", "W1", "w.1", "w1.", "ｗ1", "n" * 253, "n" * 254, "long-" * 60, "x" * 64])
        if sc["name"][2] is not None and rng.random() < 0.5:
            sc["name"][2] = rng.choice([" ns1", "ns1 ", "NS1"])
    if rng.random() < 0.5:
        sc["template"] = ["Inline", evil_doc(rng)]
    else:
        t = evil_doc(rng)
        # a ResourceTemplate must carry truthy apiVersion and kind to prepare
        if not t.get("apiVersion"):
            t["apiVersion"] = "evil/v9"
        if not t.get("kind"):
            t["kind"] = "Other"
        sc["template"] = ["Ref", t]
    ovs = []
    for _ in range(rng.choice([0, 1, 2, 3])):
        ovs.append({"skip": rng.choice([None, None, False, True]),
                    "body": [rng.choice(["Inline", "Fn"]), evil_odoc(rng)]})
    sc["overlays"] = ["List", ovs] if ovs else None
    sc["create_overlay"] = ["Doc", evil_odoc(rng)] if rng.random() < 0.6 else None
    if rng.random() < 0.45:
        sc["live"] = "derive"
        sc["live_mode"] = rng.choice(["drift", "drift", "noowner", "random"])
    else:
        sc["live"] = None
    return sc


def oracle(sc, o):
    out = []
    if sc["name"][0] != "Ok":
        return out
    c = sc["cfg"]
    name, ns = sc["name"][1], sc["name"][2]
    for call in o["calls"]:
        if call["m"] not in ("POST", "PATCH"):
            if call["name"] != name or (c["namespaced"] and call["ns"] != ns):
                out.append((f"{call['m']} addressed to another object", f"{call['m']} {call['ns']}/{call['name']} expected {ns}/{name}"))
            continue
        b = call["raw_body"]
        md = b.get("metadata") if isinstance(b, dict) else None
        got = (b.get("apiVersion"), b.get("kind"), md.get("name") if isinstance(md, dict) else "<metadata not a map>",
               md.get("namespace") if isinstance(md, dict) else "<metadata not a map>")
        want = (c["version"], c["kind"], name, ns if ns is not None else got[3])
        if got != want:
            out.append((f"{call['m']} body identity differs from apiConfig", f"body has {got}, apiConfig gives {want}"))
        if call["name"] != name:
            out.append((f"{call['m']} addressed to another name", f"{call['name']} != {name}"))
        if c["namespaced"] and call["ns"] != ns:
            out.append((f"{call['m']} addressed to another namespace", f"{call['ns']} != {ns}"))
        if call["plural"] != (c["plural"] or sc["lookup"]):
            out.append((f"{call['m']} addressed to another kind endpoint", f"{call['plural']}"))
    return out


def scenarios(ctx: Ctx):
    for c in corpus_cases("C06"):
        yield c
    for _ in range(500 if ctx.quick() else 8000):
        yield adversarial(ctx.rng)
    # sequences: two functions that share kind / name / namespace but differ in apiVersion (or share kind
    # and differ in name / namespace), reconciled one after the other in the same process: the second
    # must not inherit anything from the first
    for _ in range(60 if ctx.quick() else 800):
        a = adversarial(ctx.rng)
        a["cfg"]["plural"] = "widgets"
        a["lookup"] = None
        yield a
        b = adversarial(ctx.rng)
        b["cfg"].update({"kind": a["cfg"]["kind"], "plural": "widgets", "namespaced": a["cfg"]["namespaced"]})
        b["lookup"] = None
        how = ctx.rng.choice(["version", "version", "name", "ns", "groupless", "groupless", "grouped"])
        b["name"] = list(a["name"])
        if how == "version":
            b["cfg"]["version"] = "example.dev/v2"
        elif how == "groupless":
            # a core-style apiVersion without a group next to the same kind / version of a group
            # (kr8s matches 'v1' against every group's v1): each keeps its own apiVersion
            b["cfg"]["version"] = "v1"
        elif how == "grouped":
            a["cfg"]["version"], b["cfg"]["version"] = "v1", "other.example.dev/v1"
        elif how == "name":
            b["name"][1] = "another"
        elif b["name"][2] is not None:
            b["name"][2] = "ns-other"
        b["live"] = "derive"
        b["live_mode"] = "drift"
        b["pair"] = how
        yield b
    for _ in range(100 if ctx.quick() else 1500):
        yield m.rand_scenario(ctx.rng)


def run_one(ctx: Ctx, sc):
    m.prepare_live(sc, ctx.rng)
    obs, _ = m.run(sc)
    o = obs[0]
    if "prepare_failed" in o:
        ctx.count("prepare_failed")
        return None
    for sig, what in oracle(sc, o):
        ctx.fail(Failure(signature=sig, what=what, case=sc,
                         observed={"outcome": o["outcome"], "calls": [{k: v for k, v in c.items() if k != "body"} for c in o["calls"]]}))
    return o


def exotic_key_cases(ctx: Ctx):
    """computed maps that are NOT JSON: a CEL bytes key becomes its base64 text when the object is converted for
    the API, and the bytes below are the base64 decodings of 'name', 'kind' and 'metadata' - they must not
    replace the pinned identity.  Oracle only (the Json model has string keys)."""
    import drivers, vloop
    from cluster import Cluster
    name_b, kind_b, meta_b = "b'\\x9d\\xa9\\x9e'", "b'\\x92\\x29\\xdd'", "b'\\x99\\xeb\\x5a\\x75\\xab\\x5a'"
    docs = {
        "metadata: name then bytes": {"metadata": "={'name': 'x', %s: 'evil'}" % name_b, "spec": {"a": 1}},
        "metadata: bytes then name": {"metadata": "={%s: 'evil', 'name': 'x'}" % name_b, "spec": {"a": 1}},
        "labels only (control)": {"metadata": "={'labels': {%s: 'v'}}" % name_b},
    }
    overlays = {
        "overlay sets metadata with a bytes key": [{"overlay": {"metadata": "={%s: 'evil'}" % name_b}}],
        "overlay computes metadata.labels (control)": [{"overlay": {"metadata": {"labels": "={'a': 'b'}"}}}],
    }

    async def go(spec, kind):
        from koreo.resource_function.prepare import prepare_resource_function
        prepared = await prepare_resource_function("fn-exotic", spec)
        fn, err = drivers.unwrap_prepared(prepared)
        if fn is None:
            return None
        cl = Cluster()
        await drivers.reconcile_rf(fn, {}, cl, owner=(None, {"apiVersion": "v1", "kind": "P", "name": "p", "uid": "u"}))
        return [c for c in cl.calls]

    todo = [(k, {"resource": d}) for k, d in docs.items()] + \
           [(k, {"resource": {"spec": {"a": 1}}, "overlays": o}) for k, o in overlays.items()] + \
           [("create overlay with a bytes key", {"resource": {"spec": {"a": 1}},
                                                  "create": {"overlay": {"metadata": "={%s: 'evil'}" % name_b}}})]
    for label, extra in todo:
        kind = f"Wx{next(m._kind_counter)}"
        api = {"apiVersion": "example.dev/v1", "kind": kind, "plural": "widgets", "name": "x", "namespace": "ns1", "owned": False}
        drivers.reset_all()
        try:
            calls = vloop.run(go({"apiConfig": api, **extra}, kind))[0]
        except Exception as e:      # a crash is C10 / C20 business; identity is what is judged here
            ctx.count("exotic-keys:raised:" + type(e).__name__)
            continue
        finally:
            drivers.reset_all()
        if calls is None:
            ctx.count("exotic-keys:prepare_failed")
            continue
        ctx.count("exotic-keys:run")
        ctx.note_case({"exotic": label}, nontrivial=True, key="exotic|" + label)
        for c in calls:
            body = c.get("body")
            if c["method"] in ("POST", "PATCH") and isinstance(body, dict):
                md = body.get("metadata") if isinstance(body.get("metadata"), dict) else {}
                got = (body.get("apiVersion"), body.get("kind"), md.get("name"), md.get("namespace"), c.get("name"))
                want = ("example.dev/v1", kind, "x", "ns1", "x")
                if got != want:
                    ctx.fail(Failure(signature="non-JSON computed map (bytes key) redirects the object's identity",
                                     what=f"{label}: sent {got}, apiConfig gives {want}", case={"exotic": label, "spec": extra}))


def concurrent_pairs(ctx: Ctx, cases, terms):
    """two functions of the SAME kind (different names / namespaces) reconciled concurrently in one event
    loop, interleaved at the read: each must still create / patch its own object under its own identity"""
    for _ in range(40 if ctx.quick() else 500):
        a = adversarial(ctx.rng)
        b = adversarial(ctx.rng)
        for sc in (a, b):
            sc["cfg"]["plural"] = "widgets"
            sc["lookup"] = None
            sc["cfg"]["namespaced"] = a["cfg"]["namespaced"]
        kind = f"Wc{next(m._kind_counter)}"
        a["cfg"]["kind"] = b["cfg"]["kind"] = kind
        a["tag"], b["tag"] = "-a", "-b"
        a["name"] = ["Ok", "first", "ns1" if a["cfg"]["namespaced"] else None]
        b["name"] = ["Ok", "second", ctx.rng.choice(["ns1", "ns2"]) if a["cfg"]["namespaced"] else None]
        # a SECOND definition of the same apiVersion/kind that disagrees about the scope (prepared after the
        # first): the first, unchanged function must keep addressing its own namespace.  Only the first is
        # judged (what the conflicting definition itself should do is not C06's business).
        conflict = ctx.rng.random() < 0.25
        if conflict:
            b["cfg"]["namespaced"] = not a["cfg"]["namespaced"]
            b["name"] = ["Ok", "second", "ns2" if b["cfg"]["namespaced"] else None]
            b["live"] = None
        for sc in (a, b):
            if sc["live"] == "derive":
                m.prepare_live(sc, ctx.rng)
        lat = ctx.rng.choice([[2.0, 1.0], [1.0, 2.0], [1.0, 1.0], [3.0, 0.5]])
        obs = m.run_concurrent([a, b], lat)
        if obs is None:
            ctx.count("concurrent:prepare_failed")
            continue
        for sc, o in zip((a, b), obs):
            if conflict and sc is b:
                ctx.count("concurrent:scope-conflict-second-not-judged")
                continue
            methods = tuple(x["m"] for x in o["calls"])
            ctx.count("concurrent:" + ("scope-conflict:" if conflict else "") + ",".join(methods))
            ctx.note_case({"concurrent": True, "name": sc["name"], "template": sc["template"], "overlays": sc["overlays"]},
                          nontrivial=("POST" in methods or "PATCH" in methods))
            for sig, what in oracle(sc, o):
                ctx.fail(Failure(signature=sig + " (concurrent reconciles of one kind)", what=what,
                                 case={"concurrent": [a, b], "latencies": lat},
                                 observed={"outcome": o["outcome"], "calls": [{k: v for k, v in c.items() if k != "body"} for c in o["calls"]]}))
            cases.append(sc)
            terms.append(m.c_case(sc, o))


def run(ctx: Ctx):
    cases, terms = [], []
    for sc in scenarios(ctx):
        o = run_one(ctx, sc)
        if o is None:
            continue
        methods = tuple(x["m"] for x in o["calls"])
        ctx.note_case({"template": sc["template"], "overlays": sc["overlays"], "create_overlay": sc["create_overlay"],
                       "name": sc["name"]}, nontrivial=("POST" in methods or "PATCH" in methods))
        ctx.count("calls:" + ",".join(methods))
        ctx.count("outcome:" + o["outcome"]["cls"])
        cases.append(sc)
        terms.append(m.c_case(sc, o))
    concurrent_pairs(ctx, cases, terms)
    exotic_key_cases(ctx)
    if ctx.model_ok:
        ctx.correspond("reconcile_resource_function vs ResourceFn.reconcile_rf", "Corr_RF", cases, terms)


def replay(ctx: Ctx, data):
    sc = data["case"] if "case" in data else data
    if "exotic" in sc:
        exotic_key_cases(ctx)
        return
    if "concurrent" in sc and isinstance(sc["concurrent"], list):
        a, b = sc["concurrent"]
        obs = m.run_concurrent([a, b], sc["latencies"])
        for s1, o in zip((a, b), obs or []):
            for sig, what in oracle(s1, o):
                ctx.fail(Failure(signature=sig + " (concurrent reconciles of one kind)", what=what, case=sc))
        ctx.note_case(sc, True)
        return
    o = run_one(ctx, sc)
    ctx.note_case(sc, True)
    if o is not None and ctx.model_ok:
        ctx.correspond("replay", "Corr_RF", [sc], [m.c_case(sc, o)])
