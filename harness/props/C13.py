"""C13 — first false assertion decides; unevaluable ones fail safe.

Real code: koreo.predicate_helpers.predicate_extractor / predicate_to_koreo_result,
koreo.cel.evaluation.evaluate_predicates, koreo.value_function (prepare + reconcile).
Model: coq/model/Predicates.v (+ ErrScan.v).

A predicate is a small *document*  ["M", [[key, doc], ..]] | ["L", leaf]  whose leaves say
which expression to write into the spec and what it evaluates to:
  ["lit", v]        static literal v (written as is)                 -> value v
  ["in", v]         "=inputs.<fresh name>" with inputs.<name> = v    -> value v
  ["cel", src, v]   the expression src, known to evaluate to v       -> value v
  ["fn", tpl, a, v] the expression tpl.format("inputs.<fresh name>") with inputs.<name> = a, known to
                    evaluate to v (koreo's CEL extension functions applied to inputs)  -> value v
  ["err", src]      an expression that fails with an error *value*   -> embedded CELEvalError
  ["raise", src]    an expression whose failure *raises* through the enclosing literals (macro body)
The harness builds the real spec from the documents, runs the real code, and hands the
*evaluated elements* (documents with leaves replaced by their values) to the Coq model.
"""
from __future__ import annotations

import contextlib
import itertools
import math
import re

from common import (Ctx, Failure, cbool, clist, cnat, copt, cpair, corpus_cases, cstr, cz,
                    float_dyadic, shrink_list)

COQ_TARGETS = ["props/P_C13.vo", "corr/Corr_C13.vo"]
PROOF_FILES = ["proofs/Predicates_proofs.v", "proofs/ErrScan_proofs.v", "proofs/Predicates_sync.v"]


def pre_build():
    """regenerate coq/gen/Predicates_gen.v from /repo's current predicate_helpers.py::predicate_to_koreo_result
    (fail-closed translator); proofs/Predicates_sync.v proves the hand model equal to it"""
    import translate_predicates
    translate_predicates.main()


RULE = ("predicate lists (1..20 entries) over the five outcome kinds x truth values, written as real "
        "precondition specs: exhaustive kind x truth assignments up to a length bound; every position of a "
        "non-boolean / failing assertion, message or delay in short lists; random longer lists with injected "
        "non-boolean and failing leaves, permuted key order and malformed kinds; each list run through "
        "predicate_extractor + evaluate_predicates, and a sample through a real ValueFunction with the "
        "evaluation sites recorded. Non-trivial: >=2 predicates of which at least one is false or non-boolean; "
        "distinct by content")
ASSUMPTIONS = [
    "celpy: `[e1..en].filter(p, !p.assert)` raises CELEvalError when some !e.assert is not a boolean negation "
    "(error value, other type, missing key) and otherwise returns the elements with a false assertion, in order "
    "(compared with the recorded Runner.evaluate result on every case)",
    "celpy: a failing leaf inside a map literal stays an embedded CELEvalError value; a failing macro body raises",
    "theorem hypotheses: every assertion is a boolean and everything belonging to a FALSE assertion evaluates "
    "(C13_first_false_decides); messages of passing assertions are unconstrained",
    "f-string / int() of celpy values: modelled for str, int, bool, None and ASCII numerals (other texts are not compared)",
    "ResourceFunction: reconcile_krm_resource is an arbitrary function in the model (Section variable); the real "
    "function is run against a sentinel API that refuses every access (preconditions part) and, as a readonly "
    "function over an existing object, against the in-memory cluster harness/cluster.py (postconditions part)",
]
TRUSTED = ["in-process wrapper around celpy.InterpretedRunner.evaluate that records, per evaluation site, "
           "what celpy did",
           "harness/translate_predicates.py (Python-ast -> Gallina transcription of predicate_helpers."
           "predicate_to_koreo_result; conventions in its docstring: mapping patterns = dict lookups on vtree maps, "
           "f-string = Predicates.fmt, int(f-string) = Predicates.delay_of, json.dumps raising = not Predicates.dumpable)"]

# ResourceFunctions are run (a) against a *sentinel* API object that records and refuses every
# attribute access (mode "rf"): "preconditions decided => cluster not touched, locals not
# evaluated"; (b) when harness/cluster.py (in-memory kr8s API double with a call log) is importable,
# against that double (mode "rfc": a readonly function whose object exists, so that the
# postconditions are reached): "preconditions decided => empty call log; postconditions decided =>
# that outcome is the result and `return` is not evaluated"
# (model theorems: P_C13.C13_rf_cluster_not_touched, C13_rf_post_body_not_evaluated).
try:
    import cluster as _cluster_mod          # noqa: F401
    RF_AVAILABLE = True
except Exception:                           # pragma: no cover
    RF_AVAILABLE = False

LOC = "fn"
KINDS = ["ok", "depSkip", "skip", "retry", "permFail"]
SEV = {"DepSkip": 0, "Skip": 1, "Ok": 2, "Retry": 3, "PermFail": 4}


# --------------------------------------------------------------------------
# values <-> tagged trees <-> Gallina
# --------------------------------------------------------------------------

def tree_of(v):
    """Python / celpy value -> tagged tree (JSON-able)."""
    import celpy
    from celpy import celtypes
    if isinstance(v, celpy.CELEvalError):
        return ["e"]
    if v is None:
        return ["n"]
    if isinstance(v, (bool, celtypes.BoolType)):
        return ["b", bool(v)]
    if isinstance(v, int):
        return ["i", int(v)]
    if isinstance(v, float):
        if math.isnan(v) or math.isinf(v):
            return ["o", "float"]
        m, e = float_dyadic(float(v))
        return ["f", m, e]
    if isinstance(v, str):
        return ["s", str(v)]
    if isinstance(v, (list, tuple)):
        return ["l", [tree_of(x) for x in v]]
    if isinstance(v, dict):
        return ["m", [[tree_of(k), tree_of(x)] for k, x in v.items()]]
    return ["o", type(v).__name__]


def c_tree(t) -> str:
    k = t[0]
    if k == "n":
        return "VNull"
    if k == "b":
        return f"(VBool {cbool(t[1])})"
    if k == "i":
        return f"(VInt {cz(t[1])})"
    if k == "f":
        return f"(VFloat {cz(t[1])} {cz(t[2])})"
    if k == "s":
        return f"(VStr {cstr(t[1])})"
    if k == "o":
        return f"(VOther {cstr(t[1])})"
    if k == "e":
        return "VErr"
    if k == "l":
        return "(VList " + clist(t[1], c_tree) + ")"
    if k == "m":
        return "(VMap " + clist(t[1], lambda kv: cpair(c_tree(kv[0]), c_tree(kv[1]))) + ")"
    raise ValueError(k)


def c_raw(r) -> str:
    if r[0] == "raise":
        return "RRaise"
    if r[0] == "raise_other":
        return "RRaiseOther"
    return f"(RVal {c_tree(r[1])})"


def c_index(idx) -> str:
    if isinstance(idx, int):
        return f"(IAt {cnat(idx)})"
    return "(ISub " + clist(idx.items(), lambda kv: cpair(cstr(kv[0]), c_index(kv[1]))) + ")"


def c_obs(o) -> str:
    if o[0] == "none":
        return "ONone"
    if o[0] == "raised":
        return "ORaised"
    if o[0] == "val":
        return f"(OVal {c_tree(o[1])})"
    _, sev, delay, msg, loc = o
    return f"(OOut {cnat(sev)} {copt(delay, cz)} {cstr(msg)} {copt(loc, cstr)})"


SITES = {"pre": "SPre", "locals": "SLocals", "return": "SReturn", "post": "SPost", "resource": "SResource"}


# --------------------------------------------------------------------------
# documents -> spec / inputs / evaluated tree
# --------------------------------------------------------------------------

class Builder:
    """Turns documents into spec fragments, allocating inputs.<name> for ["in", v] leaves."""

    def __init__(self):
        self.inputs = {}

    def leaf_spec(self, leaf):
        k = leaf[0]
        if k == "lit":
            return leaf[1]
        if k == "in":
            name = f"v{len(self.inputs)}"
            self.inputs[name] = leaf[1]
            return f"=inputs.{name}"
        if k == "fn":
            name = f"v{len(self.inputs)}"
            self.inputs[name] = leaf[2]
            return leaf[1].format(f"inputs.{name}")
        return leaf[1]          # cel / err / raise: the source text

    def spec(self, doc):
        if doc[0] == "L":
            return self.leaf_spec(doc[1])
        if doc[0] == "A":
            return [self.spec(d) for d in doc[1]]
        return {k: self.spec(d) for k, d in doc[1]}


def leaf_tree(leaf):
    k = leaf[0]
    if k in ("lit", "in"):
        return tree_of(leaf[1])
    if k == "cel":
        return tree_of(leaf[2])
    if k == "fn":
        return tree_of(leaf[3])
    return ["e"]                # err (and raise: never reaches the model as a value)


def doc_tree(doc):
    if doc[0] == "L":
        return leaf_tree(doc[1])
    if doc[0] == "A":       # celpy: a list literal with a failing item is itself an error value
        items = [doc_tree(d) for d in doc[1]]
        errs = [i for i in items if i[0] == "e"]
        return errs[0] if errs else ["l", items]
    return ["m", [[["s", k], doc_tree(d)] for k, d in doc[1]]]


def doc_leaves(doc):
    if doc[0] == "L":
        yield doc[1]
    elif doc[0] == "A":
        for d in doc[1]:
            yield from doc_leaves(d)
    else:
        for _, d in doc[1]:
            yield from doc_leaves(d)


def has_raise(docs) -> bool:
    return any(l[0] == "raise" for d in docs for l in doc_leaves(d))


def failing(leaf) -> bool:
    return leaf[0] in ("err", "raise")


# --------------------------------------------------------------------------
# running the real code
# --------------------------------------------------------------------------

def walk_has_error(v, depth=0) -> bool:
    """Independent walker: is there a CELEvalError object anywhere in this Python value?
    (dict keys and values, list/tuple/set/frozenset/deque items, object attributes)"""
    import collections
    import celpy
    if isinstance(v, celpy.CELEvalError):
        return True
    if v is None or isinstance(v, (str, bytes, bytearray, int, float, complex, type)) or depth > 200:
        return False
    if isinstance(v, dict):
        return any(walk_has_error(k, depth + 1) or walk_has_error(x, depth + 1) for k, x in v.items())
    if isinstance(v, (list, tuple, set, frozenset, collections.deque)):
        return any(walk_has_error(x, depth + 1) for x in v)
    d = getattr(v, "__dict__", None)
    if isinstance(d, dict) and not isinstance(v, BaseException):
        return any(walk_has_error(x, depth + 1) for x in d.values())
    return False


@contextlib.contextmanager
def recording():
    """Record what celpy's Runner.evaluate does, per call: (runner, ["raise"] | ["raise_other"] |
    ["val", tree, independent-walker-found-an-error])."""
    import celpy
    log = []
    orig = celpy.InterpretedRunner.evaluate

    def wrapped(self, *a, **kw):
        try:
            v = orig(self, *a, **kw)
        except celpy.CELEvalError:
            log.append((self, ["raise"]))
            raise
        except BaseException:
            log.append((self, ["raise_other"]))
            raise
        log.append((self, ["val", tree_of(v), walk_has_error(v)]))
        return v

    celpy.InterpretedRunner.evaluate = wrapped
    try:
        yield log
    finally:
        celpy.InterpretedRunner.evaluate = orig


MSG_PREFIXES = [re.compile(p, re.S) for p in (
    r"^(Error evaluating `[^`]*`: )", r"^(Error evaluating `[^`]*`)",
    r"^(Unknown failure evaluating `[^`]*`\.)", r"^(Bad structure for `[^`]*`)",
    r"^(Bad overlay structure for `[^`]*`)", r"^(Unknown predicate type: )",
    r"^(Invalid `locals` expression type)")]


def canon_msg(m):
    """Cut the prose after the modelled prefix of an evaluation-failure message."""
    if m is None:
        return "<None>"
    m = str(m)
    for p in MSG_PREFIXES:
        g = p.match(m)
        if g:
            return g.group(1)
    return m


def observe(r):
    from koreo import result
    if r is None:
        return ["none"]
    for cls in ("DepSkip", "Skip", "Retry", "PermFail"):
        if isinstance(r, getattr(result, cls)):
            d = r.delay if cls == "Retry" else None
            if d is not None and not isinstance(d, int):
                d = -999999          # cannot be a modelled delay
            return ["out", SEV[cls], d, canon_msg(r.message), r.location]
    if isinstance(r, result.Ok):
        return ["out", 2, None, "<Ok>", r.location]
    return ["val", tree_of(r)]


_ENV = None


def cel_env():
    global _ENV
    if _ENV is None:
        import celpy
        from koreo.cel.functions import koreo_function_annotations
        _ENV = celpy.Environment(annotations=dict(koreo_function_annotations))
    return _ENV


_PREP_CACHE: dict = {}


def prepare_predicates(spec):
    """predicate_extractor on the spec (memoised on the spec text: the exhaustive truth
    tables reuse one prepared program with different inputs)."""
    import json
    from koreo.predicate_helpers import predicate_extractor
    key = json.dumps(spec, sort_keys=False, default=repr)
    if key not in _PREP_CACHE:
        if len(_PREP_CACHE) > 4000:
            _PREP_CACHE.clear()
        _PREP_CACHE[key] = predicate_extractor(cel_env(), spec)
    return _PREP_CACHE[key]


def run_pred(case):
    """-> (raw, obs) or None when the spec does not prepare to a program."""
    import celpy
    from koreo.cel.evaluation import evaluate_predicates
    b = Builder()
    spec = [b.spec(p) for p in case["preds"]]
    prog = prepare_predicates(spec)
    if not isinstance(prog, celpy.Runner):
        return None
    inputs = {"inputs": celpy.json_to_cel(b.inputs)}
    with recording() as log:
        try:
            r = evaluate_predicates(prog, inputs, LOC)
            obs = observe(r)
        except Exception as e:      # the property: no exception escapes
            obs = ["raised", type(e).__name__]
    raws = [x for (rn, x) in log if rn is prog]
    raw = raws[0] if len(raws) == 1 else ["raise_other"]
    if obs[0] == "raised":
        obs = ["raised", obs[1], raw]
    return raw, obs


_LOOP = None


def run_async(coro):
    global _LOOP
    import asyncio
    if _LOOP is None:
        _LOOP = asyncio.new_event_loop()
    return _LOOP.run_until_complete(coro)


def run_vf(case):
    """A real ValueFunction.  -> dict(obs, trace, raws, index) or None if prepare failed."""
    import celpy
    from koreo.value_function.prepare import prepare_value_function
    from koreo.value_function.reconcile import reconcile_value_function
    from koreo.value_function.structure import ValueFunction
    b = Builder()
    spec = {}
    if case["preds"] is not None:
        spec["preconditions"] = [b.spec(p) for p in case["preds"]]
    if case.get("locals") is not None:
        spec["locals"] = b.spec(case["locals"])
    if case.get("ret") is not None:
        spec["return"] = b.spec(case["ret"])
    prepared = run_async(prepare_value_function("k", spec))
    if not (isinstance(prepared, tuple) and isinstance(prepared[0], ValueFunction)):
        return None
    fn = prepared[0]
    inputs = celpy.json_to_cel(dict(case.get("inputs") or {}, **b.inputs))
    base = celpy.json_to_cel(case["base"]) if case.get("base") is not None else None
    leak = False
    with recording() as log:
        try:
            r = run_async(reconcile_value_function(LOC, fn, inputs, base))
            obs = observe(r)
            leak = walk_has_error(r) or walk_has_error(getattr(r, "__dict__", None))
            if obs == ["none"]:         # a function's None result is the value null
                obs = ["val", ["n"]]
        except Exception as e:
            obs = ["raised", type(e).__name__]
    site_of = {}
    if fn.preconditions is not None:
        site_of[id(fn.preconditions)] = "pre"
    if fn.local_values is not None:
        site_of[id(fn.local_values)] = "locals"
    if fn.return_value is not None:
        site_of[id(fn.return_value.values)] = "return"
    trace, raws = [], {}
    for rn, x in log:
        s = site_of.get(id(rn), "?")
        trace.append(s)
        raws[s] = x
    return {"obs": obs, "trace": trace, "raws": raws, "leak": leak,
            "has": {"pre": fn.preconditions is not None, "locals": fn.local_values is not None,
                    "return": fn.return_value is not None},
            "index": fn.return_value.value_index if fn.return_value is not None else None}


class Touched(Exception):
    pass


class SentinelApi:
    """Stands for the cluster: records and refuses every use."""

    def __init__(self):
        object.__setattr__(self, "touches", [])

    def __getattr__(self, name):
        self.touches.append(name)
        raise Touched(name)


OWNER = ("ns", {"apiVersion": "v1", "kind": "Owner", "metadata": {"name": "o", "uid": "u-1", "namespace": "ns"}})


_KIND_COUNTER = [0]


def api_config(case, **extra):
    """apiConfig for the case: with an explicit plural, or (case["lookup"]) for a FRESH custom kind
    without `plural`, so that koreo has to ask the API server (`api.lookup_kind`) on first use —
    which counts as touching the cluster.  The looked-up plural is cached on the kr8s class and in
    kind_lookup._plural_map, hence a new kind name per run and a reset of the lookup cache."""
    from koreo.resource_function.reconcile import kind_lookup
    kind_lookup._reset()
    cfg = {"apiVersion": "test.koreo.dev/v1", "kind": "TestResource", "plural": "testresources",
           "name": "obj", "namespace": "ns"}
    if case.get("lookup"):
        _KIND_COUNTER[0] += 1
        cfg["kind"] = f"C13Widget{_KIND_COUNTER[0]}"
        del cfg["plural"]
    cfg.update(extra)
    return cfg


def run_rf(case):
    """A real ResourceFunction against the sentinel API. -> dict or None if prepare failed."""
    import celpy
    from koreo.resource_function.prepare import prepare_resource_function
    from koreo.resource_function.reconcile import reconcile_resource_function
    from koreo.resource_function.structure import ResourceFunction
    b = Builder()
    spec = {"apiConfig": api_config(case),
            "resource": {"spec": {"v": 1}},
            "return": {"r": "=resource.spec.v"}}
    if case["preds"] is not None:
        spec["preconditions"] = [b.spec(p) for p in case["preds"]]
    if case.get("locals") is not None:
        spec["locals"] = b.spec(case["locals"])
    prepared = run_async(prepare_resource_function("k", spec))
    if not (isinstance(prepared, tuple) and isinstance(prepared[0], ResourceFunction)):
        return None
    fn = prepared[0]
    api = SentinelApi()
    with recording() as log:
        try:
            r = run_async(reconcile_resource_function(api, LOC, fn, OWNER, celpy.json_to_cel(b.inputs)))
            obs = observe(r.outcome)
            if obs == ["none"]:
                obs = ["val", ["n"]]
        except Touched:
            obs = ["raised", "Touched"]
        except Exception as e:
            obs = ["raised", type(e).__name__]
    site_of = {id(fn.preconditions): "pre", id(fn.local_values): "locals",
               id(fn.postconditions): "post", id(fn.return_value): "return"}
    site_of.pop(id(None), None)
    trace, raws = [], {}
    for rn, x in log:
        st = site_of.get(id(rn), "resource")
        if st == "resource" and trace and trace[-1] == "resource":
            continue
        trace.append(st)
        raws[st] = x
    return {"obs": obs, "trace": trace, "raws": raws, "touches": list(api.touches),
            "has": {"pre": fn.preconditions is not None, "locals": fn.local_values is not None}}


# --------------------------------------------------------------------------
# Gallina terms
# --------------------------------------------------------------------------

def term_pred(case, raw, obs) -> str:
    es = clist([doc_tree(p) for p in case["preds"]], c_tree)
    return f"CPred {es} {cstr(LOC)} {c_raw(raw)} {c_obs(obs)}"


def term_vf(case, out) -> str:
    pre = "None" if not out["has"]["pre"] else "(Some " + clist([doc_tree(p) for p in case["preds"]], c_tree) + ")"
    pre_raw = copt(out["raws"].get("pre"), c_raw)
    placeholder = ["raise"]

    def site(name):
        if not out["has"][name]:
            return None
        return out["raws"].get(name, placeholder)

    locals_ = copt(site("locals"), c_raw)
    ret = "None"
    if out["has"]["return"]:
        ret = f"(Some ({c_index(out['index'])}, {c_raw(site('return'))}))"
    base = "None"
    if case.get("base") is not None:
        base = "(Some " + clist(tree_of(case["base"])[1], lambda kv: cpair(c_tree(kv[0]), c_tree(kv[1]))) + ")"
    trace = clist(out["trace"], lambda s: SITES[s])
    return f"CVf {pre} {pre_raw} {locals_} {ret} {base} {cstr(LOC)} {c_obs(out['obs'])} {trace}"


RFC_OBJECT = {"apiVersion": "test.koreo.dev/v1", "kind": "TestResource",
              "metadata": {"name": "obj", "namespace": "ns"}, "spec": {"v": 1}}


def run_rfc(case):
    """A real readonly ResourceFunction against the in-memory cluster holding its object."""
    import celpy
    from cluster import Cluster
    from koreo.resource_function.prepare import prepare_resource_function
    from koreo.resource_function.reconcile import reconcile_resource_function
    from koreo.resource_function.structure import ResourceFunction
    b = Builder()
    spec = {"apiConfig": api_config(case, readonly=True),
            "resource": {"spec": {"v": 1}}}
    if case["preds"] is not None:
        spec["preconditions"] = [b.spec(p) for p in case["preds"]]
    if case.get("locals") is not None:
        spec["locals"] = b.spec(case["locals"])
    if case.get("post") is not None:
        spec["postconditions"] = [b.spec(p) for p in case["post"]]
    if case.get("ret") is not None:
        spec["return"] = b.spec(case["ret"])
    prepared = run_async(prepare_resource_function("k", spec))
    if not (isinstance(prepared, tuple) and isinstance(prepared[0], ResourceFunction)):
        return None
    fn = prepared[0]
    cl = Cluster(objects=[dict(RFC_OBJECT, kind=spec["apiConfig"]["kind"])])
    with recording() as log:
        try:
            r = run_async(reconcile_resource_function(cl, LOC, fn, OWNER, celpy.json_to_cel(b.inputs)))
            obs = observe(r.outcome)
            if obs == ["none"]:
                obs = ["val", ["n"]]
        except Exception as e:
            obs = ["raised", type(e).__name__]
    site_of = {id(fn.preconditions): "pre", id(fn.local_values): "locals",
               id(fn.postconditions): "post", id(fn.return_value): "return"}
    site_of.pop(id(None), None)
    trace, raws = [], {}
    for rn, x in log:
        st = site_of.get(id(rn), "resource")
        if st == "resource" and trace and trace[-1] == "resource":
            continue
        trace.append(st)
        raws[st] = x
    return {"obs": obs, "trace": trace, "raws": raws,
            "calls": [f"lookup_kind({k})" for k in cl.lookups] + [c["method"] for c in cl.calls],
            "has": {"pre": fn.preconditions is not None, "locals": fn.local_values is not None,
                    "post": fn.postconditions is not None, "return": fn.return_value is not None}}


def term_rfc(case, out) -> str:
    def elems(key, has):
        return "None" if not out["has"][has] else "(Some " + clist([doc_tree(p) for p in case[key]], c_tree) + ")"

    def site(name):
        if not out["has"][name]:
            return None
        return out["raws"].get(name, ["raise"])

    trace = clist(out["trace"], lambda s: SITES[s])
    return (f"CRfc {elems('preds', 'pre')} {copt(out['raws'].get('pre'), c_raw)} {copt(site('locals'), c_raw)} "
            f"{elems('post', 'post')} {copt(out['raws'].get('post'), c_raw)} {copt(site('return'), c_raw)} "
            f"{cstr(LOC)} {cnat(len(out['calls']))} {c_obs(out['obs'])} {trace}")


def oracle_rfc(case, out, pre_obs, post_obs):
    obs, trace = out["obs"], out["trace"]
    if obs[0] == "raised":
        return (escape_signature("rf", obs[1], out["raws"].values()),
                f"reconcile_resource_function raised {obs[1]}")
    unloc = lambda m: re.sub(r"`[^`]*`", "`_`", m)

    def same(a, b):
        return a[:3] == b[:3] and (a[0] != "out" or unloc(a[3]) == unloc(b[3]))

    if pre_obs is not None and pre_obs[0] not in ("none", "raised"):
        if out["calls"]:
            return ("rf: cluster touched although the preconditions decided",
                    f"preconditions gave {pre_obs} but the API calls {out['calls']} were made")
        if [s for s in trace if s != "pre"]:
            return ("rf: body evaluated although the preconditions decided",
                    f"preconditions gave {pre_obs} but sites {trace} were evaluated")
        if not same(obs, pre_obs):
            return ("rf: result is not the precondition outcome",
                    f"preconditions gave {pre_obs} but the function returned {obs}")
        return None
    if "post" in trace and post_obs is not None and post_obs[0] not in ("none", "raised"):
        if "return" in trace:
            return ("rf: return evaluated although the postconditions decided",
                    f"postconditions gave {post_obs} but sites {trace} were evaluated")
        if not same(obs, post_obs):
            return ("rf: result is not the postcondition outcome",
                    f"postconditions gave {post_obs} but the function returned {obs}")
    return None


def term_rf(case, out) -> str:
    pre = "None" if not out["has"]["pre"] else "(Some " + clist([doc_tree(p) for p in case["preds"]], c_tree) + ")"
    pre_raw = copt(out["raws"].get("pre"), c_raw)
    locals_ = "None" if not out["has"]["locals"] else f"(Some {c_raw(out['raws'].get('locals', ['raise']))})"
    trace = clist(out["trace"], lambda s: SITES[s])
    return (f"CRf {pre} {pre_raw} {locals_} {cstr(LOC)} {cbool(bool(out['touches']))} "
            f"{c_obs(out['obs'])} {trace}")


# --------------------------------------------------------------------------
# oracle: the property text, directly on the case description
# --------------------------------------------------------------------------

def view(pred):
    """Abstract view of one predicate document: assertion value class, outcome kind, leaves."""
    v = {"a": ("missing",), "shape": "malformed", "kind": None, "m": None, "d": None, "leaves": []}
    if pred[0] != "M":
        return v
    entries = pred[1]
    keys = [k for k, _ in entries]
    if len(set(keys)) != len(keys):
        return v
    d = dict(entries)
    if "assert" in d and d["assert"][0] == "L":
        leaf = d["assert"][1]
        if failing(leaf):
            v["a"] = ("err",)
        else:
            val = leaf_value(leaf)
            v["a"] = ("bool", val) if isinstance(val, bool) else ("nonbool",)
    elif "assert" in d:
        v["a"] = ("nonbool",)
    kinds = [k for k in keys if k in KINDS]
    v["leaves"] = [l for k, dd in entries if k != "assert" for l in doc_leaves(dd)]
    if len(kinds) != 1:
        return v
    kind = kinds[0]
    body = d[kind]
    if body[0] != "M":
        return v
    bd = dict(body[1])
    if len(bd) != len(body[1]):
        return v
    need = {"ok": [], "retry": ["message", "delay"]}.get(kind, ["message"])
    if any(n not in bd or bd[n][0] != "L" for n in need):
        return v
    v["shape"], v["kind"] = "std", kind
    v["m"] = bd["message"][1] if "message" in need else None
    v["d"] = bd["delay"][1] if "delay" in need else None
    return v


def leaf_value(leaf):
    return leaf[3] if leaf[0] == "fn" else leaf[2] if leaf[0] == "cel" else leaf[1]


CLS_OF_KIND = {"depSkip": 0, "skip": 1, "retry": 3, "permFail": 4}


def escape_signature(prefix: str, exc: str, raws) -> str:
    """Signature of an escaping exception.  (Until /repo 4ee1f6b an IndexError from celpy's
    tree_dump escaped the CELEvalError handlers; the reproducers are corpus regressions now.)"""
    return f"{prefix}: exception escapes"


def oracle_pred(preds, obs):
    """None if the property holds on this case, else (signature, reason)."""
    if obs[0] == "raised":
        return (escape_signature("pred", obs[1], [obs[2]] if len(obs) > 2 else []),
                f"evaluate_predicates raised {obs[1]}")
    if obs[0] == "val" or (obs[0] == "out" and obs[1] == 2):
        return ("pred: result is not an outcome", "evaluate_predicates returned a value")
    views = [view(p) for p in preds]
    is_pf = obs[0] == "out" and obs[1] == 4
    if any(v["a"][0] == "missing" for v in views):
        return None                                 # not a list of assertions: outside the property
    if any(v["a"][0] in ("nonbool", "err") for v in views):
        if not is_pf:
            return ("pred: non-boolean or failing assertion is not PermFail",
                    "an assertion is not a boolean / cannot be evaluated but the outcome is not PermFail")
        return None
    falses = [i for i, v in enumerate(views) if v["a"][1] is False]
    fail_at = [i for i, v in enumerate(views) if any(failing(l) for l in v["leaves"])]
    if not falses:
        if obs[0] == "none" or (is_pf and fail_at):
            return None
        return ("pred: no false assertion but not continue",
                "every assertion is true but evaluation does not continue")
    i = falses[0]
    v = views[i]
    elsewhere = any(j != i for j in fail_at)
    if v["shape"] != "std":
        return None                                 # outcome kind malformed: outside the quantifier
    if v["m"] is not None and failing(v["m"]):
        if not is_pf:
            return ("pred: failing message of the deciding assertion is not PermFail",
                    "the first false assertion's message cannot be evaluated but the outcome is not PermFail")
        return None
    if is_pf and elsewhere:
        return None                                 # reading (b): some other message failed -> PermFail
    kind = v["kind"]
    if kind == "ok":
        if obs[0] != "none":
            return ("pred: first false assertion (ok kind) does not continue",
                    f"first false assertion #{i} is of kind ok but the result is {obs}")
        return None
    if kind == "retry":
        dl = v["d"]
        dv = None if failing(dl) else leaf_value(dl)
        if not (isinstance(dv, int) and not isinstance(dv, bool)):
            # delay not an integer: the text does not say; accept PermFail or a Retry
            if is_pf or (obs[0] == "out" and obs[1] == 3):
                return None
            return ("pred: first false assertion does not decide",
                    f"first false assertion #{i} is a retry (odd delay) but the result is {obs}")
    want_cls = CLS_OF_KIND[kind]
    if obs[0] != "out" or obs[1] != want_cls:
        return ("pred: first false assertion does not decide",
                f"first false assertion #{i} is of kind {kind} but the result is {obs}")
    mv = leaf_value(v["m"])
    if isinstance(mv, str) and obs[3] != mv:
        return ("pred: message of the deciding assertion not returned",
                f"first false assertion #{i} has message {mv!r} but the outcome carries {obs[3]!r}")
    if kind == "retry" and obs[2] != leaf_value(v["d"]):
        return ("pred: delay of the deciding assertion not returned",
                f"first false assertion #{i} has delay {leaf_value(v['d'])!r} but the outcome carries {obs[2]!r}")
    return None


def oracle_vf(case, out):
    """Function level: a non-continue precondition outcome is the result, the body is not evaluated."""
    obs, trace = out["obs"], out["trace"]
    if obs[0] == "raised":
        return (escape_signature("vf", obs[1], out["raws"].values()),
                f"reconcile_value_function raised {obs[1]}")
    if "?" in trace:
        return None
    if case["preds"] is None or not out["has"]["pre"]:
        return None
    pre_obs = case["_pre_obs"]           # what evaluate_predicates alone returned for these predicates
    if pre_obs is None or pre_obs[0] == "raised":
        return None
    if pre_obs[0] != "none":
        if [s for s in trace if s != "pre"]:
            return ("vf: body evaluated although the preconditions decided",
                    f"preconditions gave {pre_obs} but sites {trace} were evaluated")
        unloc = lambda m: re.sub(r"`[^`]*`", "`_`", m)
        if obs[:3] != pre_obs[:3] or (obs[0] == "out" and unloc(obs[3]) != unloc(pre_obs[3])):
            return ("vf: result is not the precondition outcome",
                    f"preconditions gave {pre_obs} but the function returned {obs}")
    else:
        if out["has"]["return"] and "return" not in trace and "locals" not in trace:
            return ("vf: body not evaluated although the preconditions continue",
                    f"preconditions continue but sites {trace} were evaluated")
    return None


def oracle_rf(case, out, pre_obs):
    """Preconditions decided => the cluster is not touched, nothing else is evaluated, and the
    precondition outcome is the result."""
    obs, trace = out["obs"], out["trace"]
    if obs[0] == "raised" and obs[1] != "Touched":
        return (escape_signature("rf", obs[1], out["raws"].values()),
                f"reconcile_resource_function raised {obs[1]}")
    if pre_obs is None or not out["has"]["pre"] or pre_obs[0] == "raised":
        return None
    if pre_obs[0] != "none":
        if out["touches"]:
            return ("rf: cluster touched although the preconditions decided",
                    f"preconditions gave {pre_obs} but the API object was used: {out['touches']}")
        if [s for s in trace if s != "pre"]:
            return ("rf: body evaluated although the preconditions decided",
                    f"preconditions gave {pre_obs} but sites {trace} were evaluated")
        unloc = lambda m: re.sub(r"`[^`]*`", "`_`", m)
        if obs[:3] != pre_obs[:3] or (obs[0] == "out" and unloc(obs[3]) != unloc(pre_obs[3])):
            return ("rf: result is not the precondition outcome",
                    f"preconditions gave {pre_obs} but the function returned {obs}")
    return None


# --------------------------------------------------------------------------
# generators
# --------------------------------------------------------------------------

def L(leaf):
    return ["L", leaf]


def M(*entries):
    return ["M", [list(e) for e in entries]]


def pred(a_leaf, kind, msg_leaf=None, delay_leaf=None, assert_last=False, extra=None):
    if kind == "ok":
        body = M()
    elif kind == "retry":
        body = M(("message", L(msg_leaf)), ("delay", L(delay_leaf)))
    else:
        body = M(("message", L(msg_leaf)))
    entries = [("assert", L(a_leaf)), (kind, body)]
    if assert_last:
        entries.reverse()
    if extra:
        entries.append(("note", L(["lit", extra])))
    return M(*entries)


TRUE_LEAVES = [["in", True], ["cel", "=true", True], ["lit", True], ["cel", "=1 == 1", True], ["cel", "=!false", True]]
FALSE_LEAVES = [["in", False], ["cel", "=false", False], ["lit", False], ["cel", "=1 == 2", False],
                ["cel", "=!true", False]]
# koreo's CEL extension functions as assertions: the only one that returns a boolean
# (config_connect_ready) over resources that drive it to true and to false through each of its exits,
# and comparisons built on the others
def _kcc(*conds, status=True):
    r = {"apiVersion": "x/v1", "kind": "K", "metadata": {"name": "n", "namespace": "ns"}}
    if status:
        r["status"] = {"conditions": list(conds)} if conds != (None,) else {}
    return r


_READY = {"type": "Ready", "reason": "UpToDate", "status": "True"}
CCR = "=config_connect_ready({0})"
FN_TRUE_LEAVES = [
    ["fn", CCR, _kcc(_READY), True],
    ["fn", CCR, _kcc({"type": "Other", "status": "False"}, _READY), True],
    ["fn", "=!config_connect_ready({0})", _kcc(dict(_READY, status="False")), True],
    ["fn", "=config_connect_ready({0}) == true", _kcc(_READY), True],
    ["fn", "=lower({0}) == 'abc'", "AbC", True],
    ["fn", "=split({0}, ',')[1] == 'b'", "a,b,c", True],
    ["fn", "=split_first({0}, '/') == 'apps'", "apps/v1", True],
    ["fn", "=split_last({0}, '/') == 'v1'", "apps/v1", True],
    ["fn", "=split_index({0}, '-', 1) == 'y'", "x-y-z", True],
    ["fn", "=strip({0}, '-') == 'a'", "--a--", True],
    ["fn", "=rstrip({0}, '/') == 'a'", "a//", True],
    ["fn", "=replace({0}, 'a', 'b') == 'bbb'", "aba", True],
    ["fn", "=size(flatten({0})) == 3", [[1], [2, 3]], True],
    ["fn", "=to_ref({0}).name == 'n'", {"name": "n", "kind": "K"}, True],
    ["fn", "=self_ref({0}).kind == 'K'", _kcc(), True],
    ["fn", "=group_ref({0}).apiGroup == 'apps'", {"apiVersion": "apps/v1", "name": "n"}, True],
    ["fn", "=has(kindless_ref({0}).namespace)", {"name": "n", "namespace": "ns"}, True],
    ["fn", "=from_json({0}).a == 1", "{\"a\": 1}", True],
    ["fn", "=to_json({0}) == '{{\"a\": 1}}'", {"a": 1}, True],
    ["fn", "=b64decode(b64encode({0})) == 'hi'", "hi", True],
    ["fn", "=overlay({0}, {{'b': 2}}).b == 2", {"a": 1}, True],
]
FN_FALSE_LEAVES = [
    ["fn", CCR, _kcc(dict(_READY, status="False")), False],
    ["fn", CCR, _kcc(dict(_READY, status="Unknown")), False],
    ["fn", CCR, _kcc(dict(_READY, reason="Updating")), False],
    ["fn", CCR, _kcc(_READY, _READY), False],
    ["fn", CCR, _kcc({"type": "Other", "status": "True"}), False],
    ["fn", CCR, _kcc(), False],
    ["fn", CCR, _kcc(None), False],
    ["fn", CCR, _kcc(status=False), False],
    ["fn", "=!config_connect_ready({0})", _kcc(_READY), False],
    ["fn", "=lower({0}) == 'abc'", "abd", False],
    ["fn", "=split_first({0}, '/') == 'apps'", "batch/v1", False],
    ["fn", "=size(flatten({0})) == 3", [[1], [2]], False],
    ["fn", "=to_ref({0}).name == 'n'", {"name": "m"}, False],
    ["fn", "=has(kindless_ref({0}).namespace)", {"name": "n"}, False],
    ["fn", "=from_json({0}).a == 1", "{\"a\": 2}", False],
    ["fn", "=overlay({0}, {{'b': 2}}).b == 3", {"a": 1}, False],
]

NONBOOL_LEAVES = [["lit", "false"], ["lit", "true"], ["in", 5], ["in", 0], ["in", "x"], ["in", None], ["in", [True]],
                  ["in", 1.5], ["in", {}], ["lit", 0], ["lit", 1], ["cel", "='true'", "true"], ["in", ""],
                  ["in", {"assert": True}]]
TRUE_LEAVES += FN_TRUE_LEAVES
FALSE_LEAVES += FN_FALSE_LEAVES
ERR_LEAVES = [["err", "=1/0"], ["err", "=inputs.nope"], ["err", "=inputs.nope.x"], ["err", "=to_ref({})"],
              ["err", "=from_json('{')"], ["err", "=[1][5]"], ["err", "=int('x')"],
              ["raise", "=[1].map(x, x/0)"], ["raise", "=[1, 2].filter(x, x/0 == 1)"],
              # errors whose tree celpy's tree_dump cannot print (IndexError inside tree_dump), as
              # values and raised: koreo must still answer PermFail (regression for /repo 4ee1f6b)
              ["err", "=inputs.nope == []"], ["err", "=inputs.nope ? 1 : {}"],
              ["raise", "=[1].map(x, inputs.nope == [])"]]
# a Python ValueError inside celpy is caught by the nearest enclosing map literal, whose whole tree
# becomes the error's tree: with `ok: {}` next to it tree_dump cannot print that tree either
VALUE_ERROR_ASSERT = ["raise", "=[1, 2, 3].map(x, x > 1, x * 2)"]
MSG_OK = [["lit", "plain message"], ["in", "from inputs"], ["in", "quote \" and\nnewline ü"], ["cel", "='a' + 'b'", "ab"],
          ["in", ""], ["in", 5], ["in", None], ["in", True], ["in", 2.5], ["in", "Error: not really"]]
DELAY_OK = [["lit", 5], ["lit", 0], ["in", 7], ["lit", 3600], ["in", 2 ** 40], ["lit", -1]]
DELAY_ODD = [["in", "12"], ["in", " 8 "], ["in", "+5"], ["in", "-3"], ["in", "1_0"], ["in", "1__0"], ["in", "_1"],
             ["in", "abc"], ["in", ""], ["in", 2.5], ["lit", 2.5], ["in", True], ["in", None], ["in", "-0"],
             ["in", "\t9\n"], ["in", "- 3"], ["in", [1]], ["err", "=1/0"], ["err", "=inputs.nope"]]


def std_pred(i, kind, truth, via="in"):
    a = ["in", truth] if via == "in" else ["cel", "=true" if truth else "=false", truth]
    return pred(a, kind, ["lit", f"message {i} {kind}"], ["lit", 10 + i])


def gen_exhaustive(ctx: Ctx):
    """every kind assignment x every truth assignment, lists up to the bound"""
    bound = 3 if ctx.quick() else 4
    for n in range(1, bound + 1):
        for kinds in itertools.product(KINDS, repeat=n):
            for truth in itertools.product([True, False], repeat=n):
                yield {"mode": "pred", "preds": [std_pred(i, k, t) for i, (k, t) in enumerate(zip(kinds, truth))],
                       "tag": "exhaustive"}


def gen_positions(ctx: Ctx):
    """a non-boolean / failing assertion, message or delay at every position of short lists,
    against every truth assignment of the others"""
    rng = ctx.rng
    for n in (1, 2, 3):
        for pos in range(n):
            for truth in itertools.product([True, False], repeat=n):
                kinds = [rng.choice(KINDS) for _ in range(n)]
                for what in ("assert-nonbool", "assert-err", "msg-err", "delay-odd"):
                    ps = [std_pred(i, k, t) for i, (k, t) in enumerate(zip(kinds, truth))]
                    if what == "assert-nonbool":
                        ps[pos] = pred(rng.choice(NONBOOL_LEAVES), kinds[pos], ["lit", "m"], ["lit", 3])
                    elif what == "assert-err":
                        ps[pos] = pred(rng.choice(ERR_LEAVES), kinds[pos], ["lit", "m"], ["lit", 3])
                    elif what == "msg-err":
                        k = kinds[pos] if kinds[pos] != "ok" else rng.choice(KINDS[1:])
                        ps[pos] = pred(["in", truth[pos]], k, rng.choice(ERR_LEAVES), ["lit", 3])
                    else:
                        ps[pos] = pred(["in", truth[pos]], "retry", ["lit", "m"], rng.choice(DELAY_ODD))
                    yield {"mode": "pred", "preds": ps, "tag": what}


def rand_pred(rng, i, p_false, noise):
    kind = rng.choice(KINDS)
    truth = rng.random() >= p_false
    a = rng.choice(TRUE_LEAVES if truth else FALSE_LEAVES)
    msg = rng.choice(MSG_OK)
    delay = rng.choice(DELAY_OK)
    r = rng.random()
    if r < noise:
        what = rng.choice(["a-nonbool", "a-err", "m-err", "d-odd", "malformed", "multi", "extra"])
        if what == "a-nonbool":
            a = rng.choice(NONBOOL_LEAVES)
        elif what == "a-err":
            a = rng.choice(ERR_LEAVES)
        elif what == "m-err":
            msg = rng.choice(ERR_LEAVES)
        elif what == "d-odd":
            kind, delay = "retry", rng.choice(DELAY_ODD)
        elif what == "malformed":
            shape = rng.choice(["nokind", "bogus", "nomsg", "nodelay", "scalar", "okbody", "noassert"])
            al = ("assert", L(a))
            if shape == "nokind":
                return M(al)
            if shape == "bogus":
                return M(al, ("bogus", M(("message", L(msg)))))
            if shape == "nomsg":
                return M(al, (rng.choice(KINDS[1:]), M()))
            if shape == "nodelay":
                return M(al, ("retry", M(("message", L(msg)))))
            if shape == "scalar":
                return M(al, (kind, L(rng.choice([["lit", "text"], ["lit", 5], ["in", None], ["in", [1]]]))))
            if shape == "okbody":
                return M(al, ("ok", M(("message", L(msg)))))
            return M((kind, M(("message", L(msg)), ("delay", L(delay)))))
        elif what == "multi":
            k2 = rng.choice(KINDS)
            ents = [("assert", L(a))]
            for k in rng.sample([kind, k2], 2) if k2 != kind else [kind]:
                ents.append((k, M() if k == "ok" else M(("message", L(msg)), ("delay", L(delay)))))
            return M(*ents)
        else:
            return pred(a, kind, msg, delay, assert_last=rng.random() < 0.5, extra="x")
    return pred(a, kind, msg, delay, assert_last=rng.random() < 0.3)


def gen_special(ctx: Ctx):
    for kind in KINDS:
        for truth in (True, False):
            yield {"mode": "pred", "preds": [std_pred(0, "skip", truth), pred(VALUE_ERROR_ASSERT, kind, ["lit", "m"], ["lit", 3])],
                   "tag": "special:python-exception-in-assert"}


def gen_functions(ctx: Ctx):
    """every extension-function assertion (true and false variants) x every outcome kind, as the
    deciding assertion and next to another false one; also as real Value-/ResourceFunction conditions"""
    rng = ctx.rng
    for leaf in FN_TRUE_LEAVES + FN_FALSE_LEAVES:
        for kind in KINDS:
            p = pred(leaf, kind, ["lit", f"fn {kind}"], ["lit", 17])
            yield {"mode": "pred", "preds": [p], "tag": "functions"}
            yield {"mode": "pred", "preds": [std_pred(0, "skip", True), p, std_pred(2, "permFail", False)],
                   "tag": "functions"}
        p = pred(leaf, rng.choice(KINDS[1:]), ["lit", "fn"], ["lit", 17])
        yield {"mode": "vf", "preds": [p], "locals": None, "ret": M(("r", L(["lit", 1]))), "base": None, "tag": "vf-functions"}
        if RF_AVAILABLE:
            yield {"mode": "rfc", "preds": None, "locals": None, "post": [p], "ret": RFC_RETURNS[1],
                   "lookup": False, "tag": "rfc-functions"}


def gen_random(ctx: Ctx):
    rng = ctx.rng
    n_cases = 1200 if ctx.quick() else 15000
    for _ in range(n_cases):
        n = rng.choice([1, 2, 2, 3, 3, 4, 5, 6, 8, 12, 20])
        p_false = rng.choice([0.0, 0.1, 0.3, 0.5, 0.9])
        noise = rng.choice([0.0, 0.0, 0.05, 0.15, 0.4])
        yield {"mode": "pred", "preds": [rand_pred(rng, i, p_false, noise) for i in range(n)], "tag": "random"}


def vf_ok(p) -> bool:
    """would the predicate pass the ValueFunction schema?"""
    v = view(p)
    if v["shape"] != "std" or v["a"][0] == "missing":
        return False
    a = dict(p[1])["assert"][1]
    spec = Builder().leaf_spec(a)
    if not isinstance(spec, str):
        return False
    if v["m"] is not None and not isinstance(Builder().leaf_spec(v["m"]), str):
        return False
    if v["d"] is not None and not (v["d"][0] == "lit" and isinstance(v["d"][1], int) and not isinstance(v["d"][1], bool)):
        return False
    return len(p[1]) == 2


BODIES = [
    # (locals, return)
    (None, M(("r", L(["lit", "static"])))),
    (M(("x", L(["in", 4]))), M(("r", L(["cel", "=locals.x", 4])), ("n", M(("k", L(["lit", 1])))))),
    (M(("x", L(["err", "=1/0"]))), M(("r", L(["lit", 1])))),
    (M(("x", L(["lit", 1]))), M(("r", L(["err", "=1/0"])))),
    (M(("x", L(["raise", "=[1].map(x, x/0)"]))), M(("r", L(["lit", 1])))),
    (None, M(("r", L(["err", "=inputs.nope.x"])), ("s", L(["lit", "s"])))),
    (M(("x", L(["lit", 1]))), None),
    (None, None),
]


def gen_vf(ctx: Ctx):
    rng = ctx.rng
    # exhaustive kinds x truth for lists <= 2, each with a body that would PermFail if evaluated
    for n in (1, 2):
        for kinds in itertools.product(KINDS, repeat=n):
            for truth in itertools.product([True, False], repeat=n):
                ps = [pred(["cel", "=true" if t else "=false", t], k, ["lit", f"message {i}"], ["lit", 10 + i])
                      for i, (k, t) in enumerate(zip(kinds, truth))]
                loc, ret = BODIES[(n + len(kinds) + sum(truth)) % 6]
                yield {"mode": "vf", "preds": ps, "locals": loc, "ret": ret, "base": None, "tag": "vf-exhaustive"}
    n_cases = 300 if ctx.quick() else 4000
    made = 0
    while made < n_cases:
        n = rng.choice([0, 1, 2, 3, 5, 9, 20])
        p_false = rng.choice([0.0, 0.1, 0.3, 0.6])
        noise = rng.choice([0.0, 0.1, 0.3])
        ps = []
        while len(ps) < n:
            p = rand_pred(rng, len(ps), p_false, noise)
            if vf_ok(p):
                ps.append(p)
        loc, ret = rng.choice(BODIES)
        if not ps and ret is None:
            continue
        base = rng.choice([None, None, {"r": 0, "keep": "k"}, {"n": {"z": 1}}, {}])
        made += 1
        yield {"mode": "vf", "preds": ps if ps else None, "locals": loc, "ret": ret, "base": base, "tag": "vf-random"}


RF_LOCALS = [None, M(("x", L(["in", 4]))), M(("x", L(["err", "=1/0"]))), M(("x", L(["err", "=inputs.nope.x"])))]


def gen_rf(ctx: Ctx):
    rng = ctx.rng
    for n in (1, 2):
        for kinds in itertools.product(KINDS, repeat=n):
            for truth in itertools.product([True, False], repeat=n):
                ps = [pred(["in", t], k, ["lit", f"message {i}"], ["lit", 10 + i])
                      for i, (k, t) in enumerate(zip(kinds, truth))]
                for lookup in (False, True):
                    yield {"mode": "rf", "preds": ps, "locals": RF_LOCALS[(n + sum(truth)) % 4], "lookup": lookup,
                           "tag": "rf-exhaustive"}
    n_cases = 150 if ctx.quick() else 2500
    made = 0
    while made < n_cases:
        n = rng.choice([0, 1, 2, 3, 5, 9, 20])
        p_false = rng.choice([0.0, 0.1, 0.3, 0.6])
        noise = rng.choice([0.0, 0.1, 0.3])
        ps = []
        while len(ps) < n:
            p = rand_pred(rng, len(ps), p_false, noise)
            if vf_ok(p):
                ps.append(p)
        made += 1
        yield {"mode": "rf", "preds": ps if ps else None, "locals": rng.choice(RF_LOCALS),
               "lookup": rng.random() < 0.5, "tag": "rf-random"}


RFC_RETURNS = [None, M(("r", L(["cel", "=resource.spec.v", 1]))), M(("r", L(["err", "=1/0"]))),
               M(("r", L(["err", "=resource.spec.nope"])))]


def gen_rfc(ctx: Ctx):
    rng = ctx.rng
    # postconditions: every kind x truth for lists <= 2 (preconditions absent or passing)
    for n in (1, 2):
        for kinds in itertools.product(KINDS, repeat=n):
            for truth in itertools.product([True, False], repeat=n):
                post = [pred(["in", t], k, ["lit", f"post message {i}"], ["lit", 20 + i])
                        for i, (k, t) in enumerate(zip(kinds, truth))]
                pre = None if (n + sum(truth)) % 2 else [pred(["in", True], "skip", ["lit", "pre"])]
                yield {"mode": "rfc", "preds": pre, "locals": RF_LOCALS[(n + sum(truth)) % 2], "post": post,
                       "ret": RFC_RETURNS[1 + (len(kinds) + sum(truth)) % 3], "lookup": bool(sum(truth) % 2),
                       "tag": "rfc-exhaustive"}
    # preconditions that decide, for a kind whose plural must be looked up: no lookup either
    for kinds in itertools.product(KINDS, repeat=2):
        for truth in itertools.product([True, False], repeat=2):
            pre = [pred(["in", t], k, ["lit", f"pre message {i}"], ["lit", 30 + i])
                   for i, (k, t) in enumerate(zip(kinds, truth))]
            yield {"mode": "rfc", "preds": pre, "locals": None, "post": None, "ret": RFC_RETURNS[1], "lookup": True,
                   "tag": "rfc-pre-lookup"}
    n_cases = 150 if ctx.quick() else 2500

    def plist(n):
        ps = []
        p_false = rng.choice([0.0, 0.1, 0.3, 0.6])
        noise = rng.choice([0.0, 0.1, 0.3])
        while len(ps) < n:
            p = rand_pred(rng, len(ps), p_false, noise)
            if vf_ok(p):
                ps.append(p)
        return ps or None

    for _ in range(n_cases):
        pre = plist(rng.choice([0, 0, 1, 2, 4]))
        post = plist(rng.choice([0, 1, 2, 3, 6, 20]))
        yield {"mode": "rfc", "preds": pre, "locals": rng.choice(RF_LOCALS[:2] + [None]), "post": post,
               "ret": rng.choice(RFC_RETURNS), "lookup": rng.random() < 0.5, "tag": "rfc-random"}


def gen_cases(ctx: Ctx):
    for c in corpus_cases("C13"):
        yield c
    if RF_AVAILABLE:
        yield from gen_rfc(ctx)
    yield from gen_exhaustive(ctx)
    yield from gen_positions(ctx)
    yield from gen_special(ctx)
    yield from gen_functions(ctx)
    yield from gen_random(ctx)
    yield from gen_vf(ctx)
    yield from gen_rf(ctx)


# --------------------------------------------------------------------------
# driver
# --------------------------------------------------------------------------

def nontrivial(case) -> bool:
    ps = (case["preds"] or []) + (case.get("post") or [])
    vs = [view(p) for p in ps]
    return len(ps) >= 2 and any(v["a"][0] != "bool" or v["a"][1] is False for v in vs)


def check_pred(ctx: Ctx, case, shrink=True):
    """-> Gallina term or None (case skipped)"""
    got = run_pred(case)
    if got is None:
        ctx.count("skipped:spec does not prepare")
        return None
    raw, obs = got
    ctx.count("pred-result:" + (obs[0] if obs[0] != "out" else ["DepSkip", "Skip", "Ok", "Retry", "PermFail"][obs[1]]))
    ctx.count("celpy:" + raw[0])
    vs = [view(p) for p in case["preds"]]
    if all(v["a"][0] == "bool" for v in vs):
        nf = sum(1 for v in vs if v["a"][1] is False)
        ctx.count(f"false-assertions:{nf if nf < 3 else '3+'}")
    else:
        ctx.count("false-assertions:n/a (non-boolean present)")
    bad = oracle_pred(case["preds"], obs)
    if bad:
        sig, why = bad
        small = case
        if shrink:
            def still(ps):
                if not ps:
                    return False
                g = run_pred({"preds": ps})
                if g is None:
                    return False
                b = oracle_pred(ps, g[1])
                return bool(b) and b[0] == sig
            small = {"mode": "pred", "preds": shrink_list(case["preds"], still)}
        b2 = Builder()
        spec = [b2.spec(p) for p in small["preds"]]
        g = run_pred(small)
        ctx.fail(Failure(signature=sig, what=why, case=small,
                         observed={"spec": spec, "inputs": b2.inputs, "result": g[1] if g else None}))
    if has_raise(case["preds"]):
        # a raising leaf: the list literal never becomes a value; the model is asked only that
        # a raise gives PermFail (evaluate_predicates_raw RRaise), via an empty marker list
        ctx.count("raising-leaf")
        if raw[0] != "raise":
            ctx.mismatch("celpy: macro failure inside a literal raises", case, raw)
        return None
    return term_pred(case, raw, obs)


def check_vf(ctx: Ctx, case):
    out = run_vf(case)
    if out is None:
        ctx.count("skipped:vf does not prepare")
        return None
    pre_obs = None
    if case["preds"]:
        g = run_pred({"preds": case["preds"]})
        pre_obs = g[1] if g else None
    bad = oracle_vf(dict(case, _pre_obs=pre_obs), out)
    if bad is None and case["preds"] and pre_obs is not None:
        bad = oracle_pred(case["preds"], pre_obs)
    if bad:
        sig, why = bad
        b2 = Builder()
        spec = {"preconditions": [b2.spec(p) for p in case["preds"] or []]}
        ctx.fail(Failure(signature=sig, what=why, case=case,
                         observed={"spec": spec, "inputs": b2.inputs, "result": out["obs"], "trace": out["trace"]}))
    for s in out["trace"]:
        ctx.count(f"vf-site:{s}")
    docs = list(case["preds"] or []) + [d for d in (case.get("locals"), case.get("ret")) if d is not None]
    if has_raise(case["preds"] or []) or "?" in out["trace"]:
        return None
    return term_vf(case, out)


def check_rf(ctx: Ctx, case):
    out = run_rf(case)
    if out is None:
        ctx.count("skipped:rf does not prepare")
        return None
    pre_obs = None
    if case["preds"]:
        g = run_pred({"preds": case["preds"]})
        pre_obs = g[1] if g else None
    bad = oracle_rf(case, out, pre_obs)
    if bad:
        sig, why = bad
        b2 = Builder()
        spec = {"preconditions": [b2.spec(p) for p in case["preds"] or []]}
        ctx.fail(Failure(signature=sig, what=why, case=case,
                         observed={"spec": spec, "inputs": b2.inputs, "result": out["obs"], "trace": out["trace"],
                                   "api_touches": out["touches"]}))
    ctx.count("rf:cluster touched" if out["touches"] else "rf:cluster not touched")
    ctx.count("rf:plural " + ("to be looked up" if case.get("lookup") else "given"))
    if has_raise(case["preds"] or []):
        return None
    return term_rf(case, out)


def check_rfc(ctx: Ctx, case):
    if not RF_AVAILABLE:
        ctx.count("skipped:rfc (harness/cluster.py not available)")
        return None
    out = run_rfc(case)
    if out is None:
        ctx.count("skipped:rfc does not prepare")
        return None

    def alone(ps):
        if not ps:
            return None
        g = run_pred({"preds": ps})
        return g[1] if g else None

    bad = oracle_rfc(case, out, alone(case["preds"]), alone(case.get("post")))
    if bad:
        sig, why = bad
        b2 = Builder()
        spec = {"preconditions": [b2.spec(p) for p in case["preds"] or []],
                "postconditions": [b2.spec(p) for p in case.get("post") or []]}
        ctx.fail(Failure(signature=sig, what=why, case=case,
                         observed={"spec": spec, "inputs": b2.inputs, "result": out["obs"], "trace": out["trace"],
                                   "api_calls": out["calls"]}))
    for st in out["trace"]:
        ctx.count(f"rfc-site:{st}")
    ctx.count(f"rfc-calls:{len(out['calls'])}")
    ctx.count("rfc:plural " + ("to be looked up" if case.get("lookup") else "given"))
    if has_raise((case["preds"] or []) + (case.get("post") or [])):
        return None
    return term_rfc(case, out)


def check_one(ctx: Ctx, case):
    mode = case.get("mode", "pred")
    if mode == "rfc":
        return check_rfc(ctx, case)
    if mode == "vf":
        return check_vf(ctx, case)
    if mode == "rf":
        return check_rf(ctx, case)
    return check_pred(ctx, case)


def run(ctx: Ctx):
    cases, terms = [], []
    for case in gen_cases(ctx):
        try:
            term = check_one(ctx, case)
        except Exception as e:      # harness-level surprise: report as a failure of the run
            ctx.fail(Failure(signature=f"{case.get('mode', 'pred')}: harness could not run the case ({type(e).__name__})",
                             what=repr(e), case=case))
            continue
        ctx.note_case(case, nontrivial=nontrivial(case))
        ctx.count(f"mode:{case.get('mode', 'pred')}")
        ctx.count(f"tag:{case.get('tag', 'corpus')}")
        n = len(case["preds"] or [])
        ctx.count(f"len:{n if n < 9 else '9+'}")
        if term is not None:
            cases.append(case)
            terms.append(term)
    if not RF_AVAILABLE:
        ctx.count("rf-postconditions:pending (harness/cluster.py not available)")
    if ctx.model_ok:
        ctx.correspond("evaluate_predicates / reconcile_value_function vs Predicates.v", "Corr_C13", cases, terms)


def replay(ctx: Ctx, data):
    case = data["case"] if "case" in data else data
    term = check_one(ctx, case)
    ctx.note_case(case, True)
    if ctx.model_ok and term is not None:
        ctx.correspond("replay", "Corr_C13", [case], [term])
