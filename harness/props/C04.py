"""C04 — a ResourceFunction reaches a fixpoint: no mutation once the target is met.

Model: coq/model/Validate.v (comparator + comparison/dispatch tail), coq/model/Payload.v.
Generators, the capture shim and the flow driver are shared with harness/props/C05.py.

* unit — for well-formed targets: the object as sent matches (match_refl_sent); every server-side
         decoration of it still matches (match_monotone_decoration); the RFC 7386 merge of the real
         `_prepare_for_api` payload into ANY live object matches (patch_reaches_target);
* flow — real prepare_resource_function + reconcile_resource_function against the in-memory cluster:
         create -> (decorate) -> pass -> pass; arbitrary live object -> patch -> pass -> pass;
         recreate / never policies; owner reference missing.  Oracle on the call log and outcome:
         target met => no create/patch/delete and Ok; a pass that mutates is Retry(configured delay),
         never Ok; after a create or patch the next pass with unchanged inputs is quiet.
"""
from __future__ import annotations

import copy
import json

import common
from common import Ctx, Failure, cjson, clist, copt, cstr, cz, cbool, corpus_cases

from props import C05 as B

COQ_TARGETS = ["props/P_C04.vo", "corr/Corr_C04.vo"]
PROOF_FILES = ["proofs/Fixpoint_proofs.v", "proofs/Validate_proofs.v"]
RULE = ("well-formed targets of depth <= 4 with the three x-koreo directives at random depths (also inside list "
        "items), falsy leaves, empty containers; server decorations (extra keys at any depth, status, metadata "
        "bookkeeping, permuted set lists, permuted/extended map lists, ints as equal floats); arbitrary live objects "
        "for the patch case; two to three consecutive passes through the real reconcile against the RFC 7386 "
        "cluster; policies patch/recreate/never/default, owned or not, create overlays that agree with the target; "
        "templates / inline overlays / overlayRef functions that write apiVersion, kind, metadata.name, metadata.namespace "
        "(C06's adversarial scenarios without nulls and create overlay): pass 1 creates, passes 2 and 3 are quiet; "
        "pairs of functions for the same Kind/namespace/name in different API groups (controls: other name / namespace) "
        "reconciled interleaved in one process without reset, each against its own cluster; "
        "a case is non-trivial when the target has >= 2 keys or a directive; distinct by content")
ASSUMPTIONS = [
    "no explicit nulls in the target (the property's quantifier); set-directed lists hold scalars (documented "
    "restriction); compare-as-map lists hold maps whose key fields are present scalars; the target does not itself "
    "specify the koreo.dev/last-applied-configuration annotation or ownerReferences",
    "the last-applied annotation is absent or was written by koreo for this target",
    "no_update_loop: unique keys in target / live object / owner reference, the owner reference has a string uid, "
    "the first pass's owner check did not return a PermFail object (corrupt live metadata)",
    "fault-free API (faults are C09's)",
] + B.ASSUMPTIONS[:1] + B.ASSUMPTIONS[3:]
TRUSTED = B.TRUSTED

SIG_PREFIX = "C04"


# ---------------------------------------------------------------------------
# unit level
# ---------------------------------------------------------------------------

def real_payload(target):
    from koreo.resource_function.reconcile import _prepare_for_api
    return _prepare_for_api(copy.deepcopy(target))


def merge_patch(live, patch):
    import cluster
    return cluster.merge_patch(copy.deepcopy(live), copy.deepcopy(patch))


def last_applied_of(obj):
    pa = B.parse_annotation(obj)
    return pa[1] if pa and pa[0] == "ok" else None


def unit_fail(ctx, sig, what, case, obs):
    ctx.fail(Failure(signature=sig, what=what, case=case, observed=obs, expected="match"))


def with_meta(t):
    """targets as reconcile sees them always carry metadata (forced overlay)"""
    t = copy.deepcopy(t)
    md = t.get("metadata")
    if not isinstance(md, dict):
        md = {}
    md = {k: v for k, v in md.items() if k not in B.DIRS and k not in ("annotations", B.OWNERS)}
    md["name"] = "w1"
    t["metadata"] = md
    for d in (B.S, B.L):
        if d in t:
            t[d] = [x for x in t[d] if x != "metadata"]
    if B.M in t:
        t[B.M] = {k: v for k, v in t[B.M].items() if k != "metadata"}
    return t


def run_unit(ctx: Ctx, cases, terms):
    rng = ctx.rng
    n = 400 if ctx.quick() else 6000
    for i in range(n):
        t = with_meta(B.gen_good(rng, rng.choice([1, 2, 2, 3, 4]), nulls=False))
        sent = B.strip(t)
        # 1. the object as sent matches its own target
        o1 = B.run_validate(t, sent, sent)
        c1 = {"kind": "unit", "t": t, "a": sent, "la": sent, "why": "as-sent"}
        ctx.note_case(c1, nontrivial=True)
        ctx.count(f"unit:as-sent:{o1}")
        cases.append(c1)
        terms.append("C4 (" + B.unit_term(c1, o1) + ")")
        if o1 != "match":
            unit_fail(ctx, "unit: the object as sent does not match its own target",
                      f"validate_match(target, strip(target), strip(target)) gave {o1}", c1, o1)
            continue
        # 2. server-side decoration keeps the match
        live = B.decorate(rng, t, sent, intfloat=(i % 2 == 0))
        la = sent if i % 3 else None
        if B.L in json.dumps(t) and la is None:
            la = sent
        o2 = B.run_validate(t, live, la)
        c2 = {"kind": "unit", "t": t, "a": live, "la": la, "why": "decorated"}
        ctx.note_case(c2, nontrivial=True)
        ctx.count(f"unit:decorated:{o2}")
        cases.append(c2)
        terms.append("C4 (" + B.unit_term(c2, o2) + ")")
        if o2 != "match":
            unit_fail(ctx, "unit: a server-decorated object that contains the target does not match",
                      f"validate_match on a decorated superset gave {o2}", c2, o2)
        # 2b. the annotation was recorded for an EARLIER, differently shaped target: never an exception; and when
        #     no key is compared against last-applied the recorded document is irrelevant (still a match)
        la_old = B.retype_doc(rng, sent)
        o2b = B.run_validate(t, live, la_old)
        c2b = {"kind": "unit", "t": t, "a": live, "la": la_old, "why": "decorated, annotation of another shape"}
        ctx.note_case(c2b, nontrivial=True)
        ctx.count(f"unit:la-other-shape:{o2b}")
        cases.append(c2b)
        terms.append("C4 (" + B.unit_term(c2b, o2b) + ")")
        if o2b not in ("match", "mismatch") or (o2b == "mismatch" and B.L not in json.dumps(t)):
            unit_fail(ctx, "unit: " + B.SIG_LA_SHAPE if o2b not in ("match", "mismatch") else
                      "unit: a last-applied document of another shape turns a match into a mismatch although no key is compared against it",
                      f"validate_match(target, decorated superset, retyped last-applied) gave {o2b}", c2b, o2b)
        # 3. RFC 7386 merge of the real payload into any live object matches
        payload = real_payload(t)
        for j in range(2):
            old = B.rand_json(rng, 3) if j else B.decorate(rng, t, B.strip(with_meta(B.gen_good(rng, 2, nulls=False))))
            if not isinstance(old, dict):
                old = {"x": old}
            merged = merge_patch(old, payload)
            la3 = last_applied_of(merged)
            o3 = B.run_validate(t, merged, la3)
            c3 = {"kind": "unit", "t": t, "a": merged, "la": la3, "why": "after-patch", "old": old}
            ctx.note_case(c3, nontrivial=True)
            ctx.count(f"unit:after-patch:{o3}")
            cases.append(c3)
            terms.append("C4 (" + B.unit_term(c3, o3) + ")")
            if o3 != "match":
                unit_fail(ctx, "unit: after the patch is applied (RFC 7386) the object does not match the target",
                          f"validate_match(target, merge_patch(live, payload), recorded) gave {o3}", c3, o3)


# ---------------------------------------------------------------------------
# flow level
# ---------------------------------------------------------------------------

def c_tobs(pobs):
    """(result term, calls terms) of one observed pass, as in C05.tail_term"""
    out = pobs["outcome"]
    if out["cls"] == "Raised":
        r = f"(RRaised {cstr(out['base'])})"
    elif out["cls"] == "Retry":
        r = f"(RRetry {cz(out['delay'])} {cstr(out['location'] or '')})"
    elif out["cls"] == "PermFail":
        r = "RPermFail"
    else:
        r = f"(RLive {cjson(out['value']['live'])})"
    calls = []
    for m in pobs["mutations"]:
        if m["method"] == "PATCH":
            b = copy.deepcopy(m["body"])
            try:
                doc = json.loads(b["metadata"]["annotations"][B.ANNOTATION])
                b["metadata"]["annotations"][B.ANNOTATION] = "<last-applied>"
            except Exception:  # noqa: BLE001 - a body without a readable annotation: never what the model predicts
                doc = None
            calls.append(f"(OPatch {cjson(b)} {cjson(doc)})")
        elif m["method"] == "DELETE":
            calls.append("ODelete")
        else:
            calls += ["ODelete", "ODelete"]
    return r, clist(calls, str)


def placeholder_annotation(obj):
    o = copy.deepcopy(obj)
    try:
        if isinstance(o["metadata"]["annotations"][B.ANNOTATION], str):
            o["metadata"]["annotations"][B.ANNOTATION] = "<last-applied>"
    except Exception:  # noqa: BLE001
        pass
    return o


def two_pass_term(case, va1, p1, stored2, p2):
    live = va1["a"]
    pa = B.parse_annotation(live)
    ann = None if pa is None or pa[0] == "bad" else pa[1]
    cfg = "{| tc_should_own := %s; tc_owner_ref := %s; tc_update := %s |}" % (
        cbool(case["owned"]), cjson(B.OWNER_REF), B.c_policy(case["policy"], case["delay"]))
    r1, c1 = c_tobs(p1)
    patched = any(m["method"] == "PATCH" for m in p1["mutations"])
    if patched and p2["outcome"]["cls"] == "Ok":
        # the model's object carries the placeholder where this run's PATCH wrote the annotation text
        p2 = copy.deepcopy(p2)
        p2["outcome"]["value"]["live"] = placeholder_annotation(p2["outcome"]["value"]["live"])
    r2, c2 = c_tobs(p2)
    # the model's stored object carries the placeholder only where a PATCH of this run wrote the annotation
    s2 = stored2
    if s2 is not None and patched:
        s2 = placeholder_annotation(s2)
    return (f"C4Two {cfg} {cjson(va1['t'])} {cjson(live)} {B.c_ann(pa)} {r1} {c1} "
            f"{copt(s2, cjson)} {r2} {c2}")


def delays(case):
    d = 30 if case["policy"] == "default" else case["delay"]
    cd = case.get("create_delay")
    return {"PATCH": d, "DELETE": d, "POST": B.CREATE_DELAY if cd is None else (30 if cd == "default" else cd)}


def pass_oracle(case, i, p, met_before):
    """property text on pass i; met_before: the previous pass was a create/patch (so the target must be met now)"""
    out, muts = p["outcome"], p["mutations"]
    if out["cls"] == "Raised":
        return ("raises", f"pass {i}: reconcile raised {out['exc']}")
    if len(muts) > 1:
        return ("calls", f"pass {i}: more than one mutating call {[m['method'] for m in muts]}")
    if muts:
        want = delays(case)[muts[0]["method"]]
        if out["cls"] != "Retry" or out.get("delay") != want:
            return ("mutating-pass-not-retry", f"pass {i}: {muts[0]['method']} but outcome {out['cls']}"
                                               f"({out.get('delay')}), expected Retry({want})")
        if met_before:
            return ("update-loop", f"pass {i}: {muts[0]['method']} although the previous pass created/patched "
                                   "the object and nothing changed since")
    elif met_before and out["cls"] != "Ok":
        return ("not-ok", f"pass {i}: no call but outcome {out['cls']} (expected to go on to return: Ok)")
    return None


def run_scenario(ctx: Ctx, case, cases, terms):
    """case: {kind: scenario, body, create_overlay, policy, delay, owned, initial (stored object or None),
              decorate_seed (int or None), expect_met_first (bool)}"""
    import drivers
    import random
    drivers.reset_all()
    spec = B.mk_spec(case["body"], case["policy"], case["delay"], case["owned"], case.get("create_delay"))
    if case.get("inputs"):
        # parts of the target come from the inputs (e.g. metadata.annotations: =inputs.annotations)
        for path, expr in case.get("from_inputs", []):
            cur = spec["resource"]
            for k in path[:-1]:
                cur = cur.setdefault(k, {})
            cur[path[-1]] = expr
    if case.get("create_overlay"):
        spec["create"]["overlay"] = copy.deepcopy(case["create_overlay"])
    p = drivers.run_async(drivers.prepare_rf("rf-c04", spec))
    fn, err = drivers.unwrap_prepared(p)
    if fn is None:
        ctx.count("flow:prepare-failed")
        ctx.notes.append({"prepare_failed": case["body"], "outcome": repr(err)})
        return
    cl = drivers.Cluster()
    if case.get("initial") is not None:
        cl.put(case["initial"], plural=B.PLURAL)
    passes = []
    met = bool(case.get("expect_met_first"))
    npass = case.get("passes", 3)
    for i in range(npass):
        before = B.stored(cl)
        pobs = B.one_pass(fn, cl, case.get("inputs"))
        after = B.stored(cl)
        passes.append((before, pobs, after))
        ctx.count(f"flow:pass{i}:{pobs['outcome']['cls']}:{'+'.join(m['method'] for m in pobs['mutations']) or 'quiet'}")
        why = pass_oracle(case, i, pobs, met)
        if why:
            ctx.fail(Failure(signature=f"flow: {case['policy']}: {why[0]}", what=why[1], case=case,
                             observed=[{"outcome": q["outcome"], "mutations": q["mutations"]} for _, q, _ in passes],
                             expected="no mutation once the target is met; mutating passes are Retry(configured delay)"))
            break
        muts = pobs["mutations"]
        met = bool(muts and muts[0]["method"] in ("POST", "PATCH")) or (met and not muts)
        if case.get("contradicts") and muts and muts[0]["method"] == "POST":
            met = False      # the create overlay wrote something else than the target: one correcting pass is legitimate
        if case["policy"] == "never" and not muts and after is not None:
            met = met  # never: quiet by policy, says nothing about the target
        # server-side decoration between passes
        if case.get("decorate_seed") is not None and after is not None and pobs["validate_args"] is not None:
            rr = random.Random(case["decorate_seed"] + i)
            tgt = pobs["validate_args"][0]["t"] if pobs["validate_args"] else B.materialise(case["body"])
            deco = B.decorate(rr, tgt, after, intfloat=False)
            deco.setdefault("metadata", {}).update({"uid": "uid-w1", "resourceVersion": str(10 + i)})
            B.vary_owner_refs(rr, deco)
            cl.put(deco, plural=B.PLURAL)
    ctx.note_case({k: case.get(k) for k in ("body", "policy", "owned", "initial", "create_overlay")}, nontrivial=True)
    # correspondence: every pass that reached the comparator, and consecutive pairs
    for idx, (before, pobs, after) in enumerate(passes):
        if not pobs["validate_args"]:
            continue
        va = pobs["validate_args"][0]
        if not B.flow_in_model(va):
            continue
        cases.append(dict(case, note=f"pass {idx}"))
        terms.append("C4 (" + B.tail_term(case, va, pobs) + ")")
        if case.get("decorate_seed") is None and idx + 1 < len(passes):
            nxt = passes[idx + 1][1]
            if after is None or (nxt["validate_args"] and B.flow_in_model(nxt["validate_args"][0])):
                if after is None:
                    continue
                cases.append(dict(case, note=f"passes {idx},{idx + 1}"))
                terms.append(two_pass_term(case, va, pobs, after, nxt))


def gen_scenarios(ctx: Ctx):
    rng = ctx.rng
    nb = 40 if ctx.quick() else 400
    for bi in range(nb):
        body = B.flow_body(rng, rng.choice([1, 2, 2, 3]))
        owned = rng.random() < 0.7
        delay = rng.choice([0, 0, 1, 5, 17, 60])
        create_delay = rng.choice([0, 0, None, 7, "default"])
        target = B.materialise(body)
        # a. create, then repeated passes (optionally with decoration in between / a create overlay)
        overlay = None
        if rng.random() < 0.4:
            overlay = {"spec": {"createdOnly": rng.choice([1, "x", True])}, "metadata": {"labels": {"phase": "new"}}}
        from_inputs = {}
        if rng.random() < 0.3:
            # metadata.annotations evaluates to an EMPTY map that comes from the inputs
            from_inputs = {"inputs": {"annotations": {}}, "from_inputs": [[["metadata", "annotations"], "=inputs.annotations"]]}
        yield {"kind": "scenario", "body": body, "create_overlay": overlay, "policy": rng.choice(["patch", "default", "recreate", "never"]),
               "delay": delay, "create_delay": create_delay, **from_inputs, "owned": owned, "initial": None,
               "decorate_seed": rng.randrange(1000) if rng.random() < 0.6 else None, "passes": 3}
        # a'. create.overlay writes a target-specified field with ANOTHER container type than the resource does
        #     (the annotation written by the create then has another shape than the target): no exception; at most
        #     one correcting pass; then quiet
        spec_keys = [k for k in body["spec"] if k not in B.DIRS]
        if spec_keys and bi % 2 == 0:
            k = rng.choice(spec_keys)
            yield {"kind": "scenario", "body": body, "create_overlay": {"spec": {k: B.retype_value(rng, body["spec"][k])}},
                   "contradicts": True, "policy": rng.choice(["patch", "default", "recreate"]), "delay": delay,
                   "create_delay": create_delay, "owned": owned, "initial": None, "decorate_seed": None, "passes": 4}
        # b. any live object: patch, then quiet
        r = rng.random()
        if r < 0.4:
            initial = {"apiVersion": "example.dev/v1", "kind": B.KIND, "metadata": {"name": B.NAME, "namespace": B.NS},
                       "spec": B.rand_json(rng, 3)}
        elif r < 0.7:
            other = B.materialise(B.flow_body(rng, 2))
            initial = B.decorate(rng, other, B.strip(other))
        else:
            initial = B.decorate(rng, target, B.strip(target))
            devs = list(B.deviations(target, initial))
            devs = [(d, l2) for d, l2 in devs if d["path"][0][1] not in ("apiVersion", "kind")
                    and not (d["path"][0][1] == "metadata" and (len(d["path"]) == 1 or d["path"][1][1] in ("name", "namespace")))]
            if devs:
                initial = rng.choice(devs)[1]
        if bi % 3 == 0 and owned:
            # c. the target is met but the parent's owner reference is missing
            made = B.created_object(ctx, body, True)      # what the function itself creates for this body
            if made is None:
                continue
            met = B.decorate(rng, target, made, intfloat=False)
            met["metadata"].pop(B.OWNERS, None)
            yield {"kind": "scenario", "body": body, "create_overlay": None, "create_delay": create_delay,
                   "policy": ["never", "patch", "recreate"][(bi // 3) % 3], "delay": delay, "owned": True,
                   "initial": met, "decorate_seed": None, "passes": 3}
        if bi % 3 == 1 and B.L not in json.dumps(body):
            # d. an adopted object: meets the target (and is owner-reffed) but was never annotated by koreo
            made = B.created_object(ctx, body, owned)
            if made is None:
                continue
            met = B.decorate(rng, target, made, intfloat=False)
            met["metadata"].get("annotations", {}).pop(B.ANNOTATION, None)
            met["metadata"][B.OWNERS] = [dict(B.OWNER_REF)]
            B.vary_owner_refs(rng, met)
            met["status"] = {"ready": True}
            yield {"kind": "scenario", "body": body, "create_overlay": None,
                   "policy": ["patch", "recreate", "never", "default"][(bi // 3) % 4], "delay": delay, "owned": owned,
                   "initial": met, "decorate_seed": None, "passes": 2, "expect_met_first": True}
        if not isinstance(initial, dict):
            continue
        initial.setdefault("metadata", {})
        if not isinstance(initial["metadata"], dict):
            initial["metadata"] = {}
        initial["metadata"].update({"name": B.NAME, "namespace": B.NS})
        if rng.random() < 0.3 and owned:
            initial["metadata"][B.OWNERS] = [dict(B.OWNER_REF)]
        yield {"kind": "scenario", "body": body, "create_overlay": None, "policy": rng.choice(["patch", "patch", "default", "recreate", "never"]),
               "delay": delay, "create_delay": create_delay, "owned": owned, "initial": initial, "decorate_seed": None, "passes": 3}


# ---------------------------------------------------------------------------
# identity-writing templates / overlays / overlayRef functions
# ---------------------------------------------------------------------------

def _denull_v(v):
    if v is None:
        return "nn"
    if isinstance(v, dict):
        return {k: _denull_v(w) for k, w in v.items()}
    if isinstance(v, list):
        return [_denull_v(w) for w in v]
    return v


def _denull_odoc(d):
    if isinstance(d, list) and len(d) == 3 and d[0] == "L":
        return ["L", _denull_v(d[1]), d[2]]
    if isinstance(d, list):
        return [_denull_odoc(x) for x in d]
    return d


def identity_scenario(rng):
    """a C06 adversarial scenario (template, inline overlays and overlayRef functions that set apiVersion / kind /
    metadata.name / metadata.namespace / metadata to other values), made to fit C04's quantifier: no explicit
    nulls, no create overlay (it may contradict the target), object absent at the start"""
    from props import C06
    sc = C06.adversarial(rng)
    sc["live"] = None
    sc["create_overlay"] = None
    sc["template"] = [sc["template"][0], _denull_v(sc["template"][1])]
    if sc["overlays"]:
        for ov in sc["overlays"][1]:
            ov["body"] = [ov["body"][0], _denull_odoc(ov["body"][1])]
    return sc


def identity_oracle(obs):
    """pass 1 creates, passes 2 and 3 make no mutating call"""
    if "prepare_failed" in obs[0]:
        return "skip"
    muts = [[c["m"] for c in o["calls"] if c["m"] != "GET"] for o in obs]
    if muts[0] != ["POST"]:
        return "skip"                                   # not a create pass (stopped earlier): nothing to say
    if obs[0]["outcome"]["cls"] != "Retry":
        return f"the creating pass is {obs[0]['outcome']['cls']}, not Retry"
    for i, (o, mu) in enumerate(zip(obs[1:], muts[1:]), 2):
        if o["outcome"]["cls"] == "Raise":
            return f"pass {i} raised {o['outcome']['exc']}"
        if mu:
            return (f"pass {i} made {mu} although pass 1 created the object and nothing changed since "
                    f"({o['outcome'].get('message')})")
        if o["outcome"]["cls"] != "Ok":
            return f"pass {i} made no call but is {o['outcome']['cls']}, not Ok"
    return None


def run_identity_case(ctx: Ctx, sc):
    import rf_model as m
    obs, _ = m.run(copy.deepcopy(sc), passes=3)
    why = identity_oracle(obs)
    if why == "skip":
        ctx.count("identity:skipped")
        return None
    ctx.note_case({"template": sc["template"], "overlays": sc["overlays"], "name": sc["name"]}, nontrivial=True)
    ctx.count("identity:" + "/".join(",".join(c["m"] for c in o["calls"] if c["m"] != "GET") or "quiet" for o in obs))
    return why


def run_identity(ctx: Ctx):
    n = 40 if ctx.quick() else 500
    for _ in range(n):
        sc = identity_scenario(ctx.rng)
        why = run_identity_case(ctx, sc)
        if why:
            small = copy.deepcopy(sc)
            if small["overlays"]:
                def still(ovs):
                    c = copy.deepcopy(small)
                    c["overlays"] = ["List", ovs] if ovs else None
                    import rf_model as m
                    o, _ = m.run(c, passes=3)
                    w = identity_oracle(o)
                    return bool(w) and w != "skip"
                ovs = common.shrink_list(small["overlays"][1], still)
                small["overlays"] = ["List", ovs] if ovs else None
            ctx.fail(Failure(signature="flow: identity-writing template/overlays: update-loop after create",
                             what=why, case={"kind": "identity", "sc": small}, observed=why,
                             expected="pass 1 creates (Retry), passes 2 and 3 make no mutating call and are Ok"))


# ---------------------------------------------------------------------------
# pairs of functions in one process (no reset of koreo between them)
# ---------------------------------------------------------------------------

def pair_case(rng):
    """two functions managing the same Kind / namespace / name in DIFFERENT API groups (or, as controls, in the
    same group under different names / namespaces), each against its own cluster"""
    how = rng.choice(["group", "group", "group", "name", "namespace"])
    a = {"body": B.flow_body(rng, rng.choice([1, 2])), "version": "a.example/v1", "name": B.NAME, "ns": B.NS,
         "owned": rng.random() < 0.5, "policy": rng.choice(["patch", "default", "recreate"]), "delay": rng.choice([3, 9])}
    b = {"body": B.flow_body(rng, rng.choice([1, 2])) if rng.random() < 0.6 else copy.deepcopy(a["body"]),
         "version": "b.example/v1" if how == "group" else "a.example/v1",
         "name": "w2" if how == "name" else B.NAME, "ns": "other-ns" if how == "namespace" else B.NS,
         "owned": rng.random() < 0.5, "policy": rng.choice(["patch", "default", "recreate"]), "delay": rng.choice([3, 9])}
    return {"kind": "pair", "how": how, "fns": [a, b]}


def run_pair(ctx: Ctx, case):
    import drivers
    drivers.reset_all()
    fns = []
    for i, f in enumerate(case["fns"]):
        spec = B.mk_spec(f["body"], f["policy"], f["delay"], f["owned"])
        spec["apiConfig"].update({"apiVersion": f["version"], "name": f["name"], "namespace": f["ns"]})
        fn, err = drivers.unwrap_prepared(drivers.run_async(drivers.prepare_rf(f"rf-pair-{i}", spec)))
        if fn is None:
            ctx.count("pair:prepare-failed")
            return
        fns.append((fn, drivers.Cluster()))
    log = []
    why = None
    for rnd in range(3):                       # A1 B1 A2 B2 A3 B3, nothing reset in between
        for i, (fn, cl) in enumerate(fns):
            pobs = B.one_pass(fn, cl)
            muts = [m["method"] for m in pobs["mutations"]]
            log.append({"fn": "AB"[i], "round": rnd + 1, "outcome": pobs["outcome"], "mutations": muts,
                        "bodies": [m.get("body") for m in pobs["mutations"]]})
            if why:
                continue
            out = pobs["outcome"]
            if out["cls"] == "Raised":
                why = f"{'AB'[i]}{rnd + 1} raised {out['exc']}"
            elif rnd == 0:
                if muts != ["POST"] or out["cls"] != "Retry" or out.get("delay") != B.CREATE_DELAY:
                    why = f"{'AB'[i]}1: expected one POST and Retry({B.CREATE_DELAY}), saw {muts} / {out['cls']}({out.get('delay')})"
            elif muts:
                why = (f"{'AB'[i]}{rnd + 1} made {muts} although its object was created by {'AB'[i]}1 and nothing "
                       f"changed since ({out.get('message')})")
            elif out["cls"] != "Ok":
                why = f"{'AB'[i]}{rnd + 1} made no call but is {out['cls']}, not Ok"
    ctx.note_case(case, nontrivial=True)
    ctx.count(f"pair:{case['how']}:" + ("ok" if not why else "fail"))
    if why:
        ctx.fail(Failure(signature=f"flow: two functions in one process ({case['how']} differs): mutation after the first pass",
                         what=why, case=case, observed=log,
                         expected="each function creates its object in its first pass and never mutates afterwards"))


def run_pairs(ctx: Ctx):
    for _ in range(16 if ctx.quick() else 200):
        run_pair(ctx, pair_case(ctx.rng))


def run_case(ctx: Ctx, case, cases, terms):
    if case.get("kind") == "pair":
        run_pair(ctx, case)
        return
    if case.get("kind") == "identity":
        why = run_identity_case(ctx, case["sc"])
        if why:
            ctx.fail(Failure(signature="flow: identity-writing template/overlays: update-loop after create",
                             what=why, case=case, observed=why))
        return
    if case.get("kind") == "scenario":
        run_scenario(ctx, case, cases, terms)
    elif case.get("kind") == "flow":
        sub_c, sub_t = [], []
        B.run_flow_case(ctx, case, sub_c, sub_t, oracle=False)
        cases += sub_c
        terms += ["C4 (" + t + ")" for t in sub_t]
    else:
        obs = B.run_validate(case["t"], case["a"], case.get("la"), case.get("as_set", False))
        ctx.note_case(case, True)
        if case.get("why") and obs != "match":
            unit_fail(ctx, f"unit: {case['why']}: does not match", f"gave {obs}", case, obs)
        cases.append(case)
        terms.append("C4 (" + B.unit_term(case, obs) + ")")


def correspond(ctx: Ctx, cases, terms, name="validate_match / reconcile tail (1 and 2 passes) vs Validate.v"):
    if ctx.model_ok and terms:
        ctx.correspond(name, "Corr_C04", cases, terms)


def run(ctx: Ctx):
    cases, terms = [], []
    for case in corpus_cases("C04"):
        run_case(ctx, case.get("case", case), cases, terms)
    run_unit(ctx, cases, terms)
    for case in gen_scenarios(ctx):
        run_scenario(ctx, case, cases, terms)
    run_identity(ctx)
    run_pairs(ctx)
    correspond(ctx, cases, terms)


def replay(ctx: Ctx, data):
    cases, terms = [], []
    run_case(ctx, data["case"] if "case" in data else data, cases, terms)
    correspond(ctx, cases, terms, name="replay")
