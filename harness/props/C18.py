"""C18 — FunctionTest cases chain sequentially; variant and skipped cases leave no trace
(src/koreo/function_test/run.py, prepare.py) vs model/FnTestRun.v.

Three things happen for every generated FunctionTest T:

1. METAMORPHIC ORACLE (public API only: prepare_function_test + run_function_test):
   T is run, then T with all / some variant cases removed, with its variant cases
   moved / duplicated / fresh ones inserted, with its skipped cases removed, with both
   removed; the per-case results of every case whose non-variant, non-skipped
   predecessors are the same must be identical, and the run must stop at the same
   non-variant case.  Comparison stops at a "setup error" (overlayResource with no
   current resource), which the property excludes.
2. SNAPSHOT MONITOR: deep fingerprints of the prepared Function under test and of the
   FunctionTest's fixtures before/after every run; T is run twice on the same prepared
   object and once more, freshly prepared, after all derived runs.
3. CORRESPONDENCE: the run is instrumented in-process (MockApi subclass, wrappers around
   reconcile_*, evaluate_overlay, _run_test_case); the observed fut / verdict / overlay
   results become lookup tables keyed by (inputs, resource), and the Coq model has to
   reproduce from the fixtures and the case list alone the state every case started
   from, its result, the abort flag, the returned state and the final TestResult.
"""
from __future__ import annotations

import asyncio
import copy
import json
import re

from common import (Ctx, Failure, cbool, cjson, clist, cnat, copt, cpair, cstr, corpus_cases,
                    jsonable, shrink_list)

COQ_TARGETS = ["props/P_C18.vo", "corr/Corr_C18.vo"]
PROOF_FILES = ["proofs/FnTestRun_proofs.v"]
RULE = ("(a) corpus of shrunk past failures; (b) EXHAUSTIVE small scope: every sequence of <=2 (quick) / <=3 (thorough) "
        "cases over 5 case bodies x {plain, variant, skip} against the patching ResourceFunction; (c) random "
        "FunctionTests of 1..20 cases against 8 ResourceFunctions (patch / recreate / never / readonly / "
        "deleteIfExists / plural-lookup / two with user annotations + x-koreo-compare-last-applied) and 2 ValueFunctions whose behaviour depends on inputs and on the "
        "current resource; cases mix inputOverrides (deep-merged), currentResource, overlayResource (static, "
        "resource- and input-dependent, failing), all four assertion kinds made true or false from an "
        "instrumented run — true expectReturn/expectResource mostly rewritten to need x-koreo-compare-as-set / "
        "-as-map (members permuted) — variant/skip flags anywhere, at most one planned failing non-variant case, injected "
        "inputs-overlay errors; every test is run as is, twice, as a single folded case, with passing cases' "
        "assertion kinds swapped, with a variant repeated in place sharing its expectation object, and in up to 6 derived forms (variants removed / some removed / moved / "
        "duplicated+inserted, skips removed, both removed); "
        "(d) direct streams for cel.functions._overlay and MockApi. A test is non-trivial when it has >=3 executed "
        "cases, >=1 variant or skip among them, and the threaded state changed at least once; distinct by content")
ASSUMPTIONS = [
    "the function under test is a function of the (inputs, resource) it is handed (checked: the recorded "
    "table must be functional, modulo the case index embedded in location strings)",
    "results are compared modulo the case index that the runner embeds in location/message strings "
    "(`testCases[i]`), which names the case and is not state",
    "an exception escaping from a VARIANT case (other than the harness's own injected mock-API fault) counts as a "
    "violation: the theorems exclude crashing cases by hypothesis, the property text does not",
    "setup errors (overlayResource while no current resource exists) abort the run even in a variant case; "
    "the property excludes them and so do the theorems' side conditions and the oracle",
    "the lazily filled plural of a ResourceFunction's kr8s class (apiConfig without `plural`) is not counted "
    "as a modification of the Function under test",
    "'no case can modify the Function under test or the base fixtures' is observed by snapshot monitor and "
    "re-runs only (Gallina has no heap)",
]
TRUSTED = ["instrumentation: subclass of run.MockApi and wrappers around run.reconcile_resource_function, "
           "run.reconcile_value_function, run.evaluate_overlay, run._run_test_case (observation only)",
           "celpy evaluation of the generated expressions; kr8s APIObject create/patch/delete issuing one call_api each"]

IDX_RE = re.compile(r"testCases\[\d+\]")
ERR_KEY = "__celerr__"
CRASH_KEY = "c18.koreo.dev/crash"
LOC = "c18"

# ---------------------------------------------------------------------------
# canonical JSON views
# ---------------------------------------------------------------------------


def canon(v):
    """celtypes / python value -> plain JSON python value (bool before int!)."""
    from celpy import celtypes
    if v is None:
        return None
    if isinstance(v, celtypes.BoolType):
        return bool(v)
    if isinstance(v, bool):
        return v
    if isinstance(v, (celtypes.IntType, celtypes.UintType)):
        return int(v)
    if isinstance(v, int):
        return int(v)
    if isinstance(v, float):
        return float(v)
    if isinstance(v, str):
        return str(v)
    if isinstance(v, dict):
        return {canon_key(k): canon(x) for k, x in v.items()}
    if isinstance(v, (list, tuple)):
        return [canon(x) for x in v]
    return {"__repr__": IDX_RE.sub("testCases[#]", repr(v))}


def canon_key(k):
    """map keys: strings as they are; CEL / Python maps may have int, bool ... keys, which JSON cannot
    express — keep them apart from the string that spells the same"""
    from celpy import celtypes
    if isinstance(k, str):
        return str(k)
    if isinstance(k, (bool, celtypes.BoolType)):
        return f"<bool:{bool(k)}>"
    if isinstance(k, int):
        return f"<int:{int(k)}>"
    return f"<{type(k).__name__}:{k}>"


TYPED_KEY = re.compile(r"^<[A-Za-z]+:.*>$")


def has_typed_keys(doc):
    if isinstance(doc, dict):
        return any(TYPED_KEY.match(k) for k in doc) or any(has_typed_keys(v) for v in doc.values())
    if isinstance(doc, list):
        return any(has_typed_keys(v) for v in doc)
    return False


def replace_typed_maps(doc):
    """an expectation that mismatches every map with non-string keys by >= 2 unexpected keys of different types"""
    if isinstance(doc, dict):
        if any(TYPED_KEY.match(k) for k in doc):
            return {"zz": 1}
        return {k: replace_typed_maps(v) for k, v in doc.items()}
    if isinstance(doc, list):
        return [replace_typed_maps(v) for v in doc]
    return doc


def norm_text(s):
    return None if s is None else IDX_RE.sub("testCases[#]", str(s))


def outcome_view(o):
    """JSON view of a reconcile outcome (class, delay, message, value)."""
    from koreo import result
    if isinstance(o, result.DepSkip):
        return {"class": "DepSkip", "message": norm_text(o.message)}
    if isinstance(o, result.Skip):
        return {"class": "Skip", "message": norm_text(o.message)}
    if isinstance(o, result.Retry):
        return {"class": "Retry", "delay": int(o.delay), "message": norm_text(o.message)}
    if isinstance(o, result.PermFail):
        return {"class": "PermFail", "message": norm_text(o.message)}
    if isinstance(o, result.Ok):
        return {"class": "Ok", "value": canon(o.data)}
    return {"class": "Ok", "value": canon(o)}


def skey(v) -> str:
    """canonical text of a JSON value: map order insensitive, int/float/bool distinct (as json_eqb)."""
    if isinstance(v, dict):
        return "{" + ",".join(json.dumps(k) + ":" + skey(v[k]) for k in sorted(v)) + "}"
    if isinstance(v, list):
        return "[" + ",".join(skey(x) for x in v) + "]"
    if isinstance(v, bool):
        return "b" + str(v)
    if isinstance(v, int):
        return "i" + str(v)
    if isinstance(v, float):
        return "f" + repr(v)
    if v is None:
        return "null"
    return json.dumps(v)


# ---------------------------------------------------------------------------
# the functions under test
# ---------------------------------------------------------------------------

PRE = [
    {"assert": "=!has(inputs.pre) || inputs.pre != 'skip'", "skip": {"message": "pre says skip"}},
    {"assert": "=!has(inputs.pre) || inputs.pre != 'dep'", "depSkip": {"message": "pre says depskip"}},
    {"assert": "=!has(inputs.pre) || inputs.pre != 'fail'", "permFail": {"message": "pre says permfail"}},
    {"assert": "=!has(inputs.pre) || inputs.pre != 'retry'", "retry": {"delay": 7, "message": "pre says retry"}},
]


def rf_spec(kind, plural=True, update=None, create=None, readonly=False, delete=False, post=True, annot=False, keyed=False):
    spec = {
        "apiConfig": {"apiVersion": "c18.koreo.dev/v1", "kind": kind, "name": "=inputs.name", "namespace": "ns"},
        "preconditions": copy.deepcopy(PRE),
        "resource": {"spec": {"a": "=inputs.a", "b": "=inputs.b", "tags": ["=inputs.name", "zeta", "alpha"],
                              "ports": [{"name": "http", "port": 80}, {"name": "admin", "port": "=8000 + inputs.a"}]}},
        "return": {"a": "=has(resource.spec) ? resource.spec.a : -1",
                   "tags": "=has(resource.spec) && has(resource.spec.tags) ? resource.spec.tags : ['none', 'at', 'all']",
                   "ports": "=has(resource.spec) && has(resource.spec.ports) ? resource.spec.ports : []",

                   "ready": "=has(resource.status) && has(resource.status.ready)",
                   "n": "=inputs.a + 1"},
    }
    if keyed:
        # a returned map whose keys are an int, a string and a bool (computed by a CEL map literal)
        spec["return"]["keyed"] = "={inputs.a + 100: 'by-number', 'name': inputs.name, true: 'flag'}"
    if annot:
        # user annotations next to Koreo's last-applied one, a field compared against last-applied, and
        # a return value that reads the annotations: the next case's behaviour depends on the WHOLE
        # carried-forward object, metadata.annotations included
        spec["resource"] = {"metadata": {"annotations": {"team": "=inputs.name", "tier": "gold"}},
                            "spec": {"x-koreo-compare-last-applied": ["a"], "a": "=inputs.a", "b": "=inputs.b",
                                     "tags": ["=inputs.name", "zeta", "alpha"],
                                     "ports": [{"name": "http", "port": 80}, {"name": "admin", "port": "=8000 + inputs.a"}]}}
        spec["return"]["annotations"] = ("=has(resource.metadata.annotations) ? "
                                         "size(resource.metadata.annotations) : 0")
    if plural:
        spec["apiConfig"]["plural"] = kind.lower() + "s"
    if readonly:
        spec["apiConfig"]["readonly"] = True
    if delete:
        spec["apiConfig"]["deleteIfExists"] = True
    if update:
        spec["update"] = update
    if create:
        spec["create"] = create
    if post:
        spec["postconditions"] = [
            {"assert": "=!has(resource.status) || !has(resource.status.broken)",
             "permFail": {"message": "resource is broken"}},
            {"assert": "=has(resource.status) && has(resource.status.ready)",
             "retry": {"delay": 3, "message": "not ready yet"}},
        ]
    return spec


def zoo():
    return [
        {"kind": "ResourceFunction", "name": "c18-patch", "spec": rf_spec("WidgetP", create={"overlay": {"spec": {"created": True}}, "delay": 11})},
        {"kind": "ResourceFunction", "name": "c18-recreate", "spec": rf_spec("WidgetR", update={"recreate": {"delay": 5}}, keyed=True)},
        {"kind": "ResourceFunction", "name": "c18-never", "spec": rf_spec("WidgetN", update={"never": {}}, post=False, keyed=True)},
        {"kind": "ResourceFunction", "name": "c18-readonly", "spec": rf_spec("WidgetO", readonly=True, keyed=True)},
        {"kind": "ResourceFunction", "name": "c18-delete", "spec": rf_spec("WidgetD", delete=True, post=False)},
        {"kind": "ResourceFunction", "name": "c18-lookup", "spec": rf_spec("WidgetL", plural=False)},
        {"kind": "ResourceFunction", "name": "c18-annot", "spec": rf_spec("WidgetA", annot=True)},
        {"kind": "ResourceFunction", "name": "c18-annot-nopost", "spec": rf_spec("WidgetB", annot=True, post=False, keyed=True)},
        {"kind": "ValueFunction", "name": "c18-value", "spec": {
            "preconditions": copy.deepcopy(PRE),
            "locals": {"twice": "=inputs.a * 2"},
            "return": {"twice": "=locals.twice", "b": "=inputs.b", "name": "=inputs.name",
                       "tags": ["=inputs.name", "zeta", "alpha"],
                       "ports": [{"name": "http", "port": "=inputs.a"}, {"name": "admin", "port": 9}],
                       "keyed": "={80: 'http', 'alias': inputs.name, false: 'flag'}"}}},
        {"kind": "ValueFunction", "name": "c18-value-res", "spec": {
            "preconditions": copy.deepcopy(PRE),
            "return": {"seen": "=resource.spec.a + inputs.a", "status": {"from": "=inputs.name"}}}},
    ]


ZOO_WEIGHTS = [5, 3, 2, 2, 2, 1, 3, 3, 2, 2]


# ---------------------------------------------------------------------------
# generators
# ---------------------------------------------------------------------------

NAMES = ["w1", "w2"]


def gen_inputs(rng):
    r = rng.random()
    if r < 0.04:
        return None                        # no base inputs at all
    if r < 0.07:
        return {}
    inp = {"name": rng.choice(NAMES), "a": rng.choice([0, 1, 2, 5]), "b": {"x": rng.choice([1, 2])}}
    if rng.random() < 0.1:
        inp["pre"] = rng.choice(["skip", "dep", "fail", "retry", "none"])
    if rng.random() < 0.1:
        del inp[rng.choice(["a", "b"])]
    return inp


def gen_resource(rng, kind, inputs):
    """a full object, more or less in line with what the function would want"""
    inputs = inputs or {}
    res = {"apiVersion": "c18.koreo.dev/v1", "kind": kind,
           "metadata": {"name": inputs.get("name", "w1"), "namespace": "ns"},
           "spec": {"a": inputs.get("a", 1) if rng.random() < 0.6 else rng.choice([0, 1, 2, 9]),
                    "b": copy.deepcopy(inputs.get("b", {"x": 1})) if rng.random() < 0.7 else {"x": 9}}}
    if rng.random() < 0.6:
        res["spec"]["tags"] = [inputs.get("name", "w1"), "zeta", "alpha"] if rng.random() < 0.7 else ["alpha", "zeta"]
        res["spec"]["ports"] = [{"name": "http", "port": 80}, {"name": "admin", "port": 8000 + (inputs.get("a") if isinstance(inputs.get("a"), int) else 1)}]
    if rng.random() < 0.5:
        res["status"] = {"ready": True}
    if rng.random() < 0.1:
        res.setdefault("status", {})["broken"] = True
    if rng.random() < 0.25:
        res["metadata"]["annotations"] = {"note": "kept"}
        if rng.random() < 0.5:
            res["metadata"]["annotations"]["team"] = res["metadata"]["name"]
            res["metadata"]["annotations"]["tier"] = "gold"
    if rng.random() < 0.04:
        res["metadata"].setdefault("annotations", {})[CRASH_KEY] = "1"
    if rng.random() < 0.1:
        res["spec"]["extra"] = [1, {"k": "v"}]
    return res


def gen_overrides(rng):
    ov = {}
    for _ in range(rng.choice([1, 1, 2])):
        r = rng.random()
        if r < 0.3:
            ov["a"] = rng.choice([0, 1, 2, 3, 5, 8])
        elif r < 0.5:
            ov["b"] = {rng.choice(["x", "y", "z"]): rng.choice([1, 2, 3])}     # deep-merged into b
        elif r < 0.6:
            ov["b"] = rng.choice([5, "flat", [1, 2]])                          # replaces b
        elif r < 0.75:
            ov["pre"] = rng.choice(["skip", "dep", "fail", "retry", "none"])
        elif r < 0.88:
            ov["name"] = rng.choice(NAMES + ["w3"])
        else:
            ov["extra"] = {"deep": {"k": rng.choice([1, 2])}}
    return ov


OVERLAYS = [
    {"status": {"ready": True}},
    {"status": {"ready": True}},
    {"status": {"broken": True}},
    {"spec": {"a": "=resource.spec.a + 1"}},
    {"spec": {"a": "=a"}},                      # inputs are top-level variables here
    {"status": {"seen": "=name"}},
    {"spec": {"b": {"q": 7}}},
    {"metadata": {"labels": {"l": "v"}}},
    {"spec": {"bad": "=1/0"}},                  # evaluates to an error -> PermFail
    {"status": {"bad": "=resource.nope.nope"}},
]


def gen_case(rng, fn, inputs, cid, allow_flags=True):
    case = {"label": cid}
    if allow_flags:
        r = rng.random()
        if r < 0.34:
            case["variant"] = True
        if rng.random() < 0.12:
            case["skip"] = True
    if rng.random() < 0.45:
        case["inputOverrides"] = gen_overrides(rng)
    r = rng.random()
    if r < 0.2:
        kind = fn["spec"].get("apiConfig", {}).get("kind", "WidgetV")
        cur = dict(inputs or {})
        cur.update({k: v for k, v in case.get("inputOverrides", {}).items() if k in ("name", "a")})
        case["currentResource"] = gen_resource(rng, kind, cur)
    elif r < 0.48:
        ov = rng.choice(OVERLAYS)
        if not case.get("variant") and "bad" in json.dumps(ov) and rng.random() < 0.75:
            ov = rng.choice(OVERLAYS[:8])
        case["overlayResource"] = copy.deepcopy(ov)
    return case


def placeholder(fn):
    return {"expectDelete": False} if fn["kind"] == "ResourceFunction" else {"expectOutcome": {"ok": {}}}


ASSERT_KEYS = ("expectResource", "expectReturn", "expectOutcome", "expectDelete")


def set_assertion(case, a):
    for k in ASSERT_KEYS:
        case.pop(k, None)
    case.update(copy.deepcopy(a))


def strip_last_applied(m):
    m = copy.deepcopy(m)
    ann = m.get("metadata", {}).get("annotations") if isinstance(m.get("metadata"), dict) else None
    if isinstance(ann, dict):
        ann.pop("koreo.dev/last-applied-configuration", None)
        if not ann:
            del m["metadata"]["annotations"]
    return m


def outcome_assertion(view, truthful, rng):
    cls = view["class"]
    if truthful:
        if cls == "Ok":
            return {"expectOutcome": {"ok": {}}}
        msg = (view.get("message") or "")
        frag = "" if rng.random() < 0.3 else msg[:rng.choice([3, 6, 10])].upper()
        if "testCases[" in frag:
            frag = ""
        key = {"Retry": "retry", "PermFail": "permFail", "Skip": "skip", "DepSkip": "depSkip"}[cls]
        body = {"message": frag}
        if cls == "Retry":
            body["delay"] = rng.choice([0, view["delay"]])
        return {"expectOutcome": {key: body}}
    other = rng.choice([c for c in ["ok", "retry", "permFail", "skip", "depSkip"]
                        if c.lower() != cls.lower()] + ["same"])
    if other == "ok":
        return {"expectOutcome": {"ok": {}}}
    if other == "same":
        if cls == "Ok":
            return {"expectOutcome": {"permFail": {"message": ""}}}
        key = {"Retry": "retry", "PermFail": "permFail", "Skip": "skip", "DepSkip": "depSkip"}[cls]
        body = {"message": "zz-no-such-text"}
        if cls == "Retry":
            body["delay"] = 0
        return {"expectOutcome": {key: body}}
    body = {"message": ""}
    if other == "retry":
        body["delay"] = 0
    return {"expectOutcome": {other: body}}


def _scalar(v):
    return v is None or isinstance(v, (bool, int, float, str))


def directivise(doc, rng):
    """an expectation equivalent to `doc` that only matches THANKS TO compare directives: lists of distinct
    scalars are listed in x-koreo-compare-as-set and their members permuted, lists of objects with distinct
    `name`s are listed in x-koreo-compare-as-map (keyed by name) and their items permuted.
    Returns (expectation, number of directives used)."""
    if isinstance(doc, list):
        out, n = [], 0
        for x in doc:
            y, m = directivise(x, rng)
            out.append(y)
            n += m
        return out, n
    if not isinstance(doc, dict):
        return doc, 0
    out, n, as_set, as_map = {}, 0, [], {}
    for k, v in doc.items():
        if isinstance(v, list) and len(v) >= 2 and all(_scalar(x) for x in v) \
                and len({(type(x).__name__, x) for x in v}) == len(v):
            perm = list(reversed(v))
            if rng.random() < 0.5:
                perm = perm[1:] + perm[:1]
            if perm == v:
                perm = v[1:] + v[:1]
            out[k] = perm
            as_set.append(k)
            n += 1
        elif isinstance(v, list) and len(v) >= 2 and all(isinstance(x, dict) and _scalar(x.get("name")) and "name" in x for x in v) \
                and len({str(x["name"]) for x in v}) == len(v):
            items = [directivise(x, rng)[0] for x in v]
            out[k] = list(reversed(items))
            as_map[k] = ["name"]
            n += 1
        else:
            out[k], m = directivise(v, rng)
            n += m
    if as_set:
        out["x-koreo-compare-as-set"] = as_set
    if as_map:
        out["x-koreo-compare-as-map"] = as_map
    return out, n


def maybe_directivise(a, rng):
    """rewrite a truthful expectReturn / expectResource so that it needs the compare directives (most of the time)"""
    for key in ("expectReturn", "expectResource"):
        if key in a and rng.random() < 0.7:
            doc, n = directivise(a[key], rng)
            if n:
                return {key: doc}
    return a


def build_assertion(fn, pref, truthful, ob, rng):
    a = _build_assertion(fn, pref, truthful, ob, rng)
    return maybe_directivise(a, rng) if truthful else a


def _build_assertion(fn, pref, truthful, ob, rng):
    """an assertion of the preferred kind that is true / false of the observed run `ob`"""
    view, mat, deleted = ob["outcome"], ob["mat"], ob["deleted"]
    is_rf = fn["kind"] == "ResourceFunction"
    if pref == "delete" and is_rf:
        return {"expectDelete": deleted if truthful else (not deleted)}
    if pref == "resource" and is_rf:
        if truthful and mat and view["class"] == "Retry":
            want = strip_last_applied(mat)
            if want:
                return {"expectResource": want}
        elif not truthful:
            if mat and rng.random() < 0.5:
                want = strip_last_applied(mat)
                want["zz"] = 1
                return {"expectResource": want}
            return {"expectResource": {"zz": 1}}
    if pref == "return":
        typed = view["class"] == "Ok" and has_typed_keys(view["value"])
        if truthful and view["class"] == "Ok" and isinstance(view["value"], dict) and view["value"] and not typed:
            return {"expectReturn": view["value"]}
        elif truthful:
            pass            # not Ok, or a map with non-string keys (no JSON expectation can match it): assert the outcome instead
        else:
            if typed and rng.random() < 0.7:
                # mismatch inside the maps with int/bool/string keys (several unexpected keys of different types)
                return {"expectReturn": replace_typed_maps(view["value"])}
            if view["class"] == "Ok" and isinstance(view["value"], dict) and view["value"] and rng.random() < 0.5:
                want = copy.deepcopy(view["value"])
                want["zz"] = 1
                return {"expectReturn": want}
            return {"expectReturn": {"zz": 1}}
    return outcome_assertion(view, truthful, rng)


# ---------------------------------------------------------------------------
# running the real code, instrumented
# ---------------------------------------------------------------------------

class Recorder:
    """collects, per executed case, what the runner did"""

    def __init__(self):
        self.cases = []          # per _run_test_case call
        self.cur = None

    def begin(self, idx, base_inputs, current_resource):
        self.cur = {"idx": idx, "start_inputs": canon(base_inputs), "start_resource": canon(current_resource),
                    "api": None, "api_resource": None, "calls": [], "mat": None, "fut": None, "rov": None,
                    "ioverlay_err": False}
        self.cases.append(self.cur)


REC: Recorder | None = None
_PATCHED = {}


_MISSING = object()


class _snapshotting:
    """wraps MockApi.call_api's context manager: right after the mock has materialised the
    object (before anything else can touch it) a deep JSON copy is recorded — this is "the
    resource state produced by the case" that the next case has to start from"""

    def __init__(self, inner, api, cur):
        self.inner, self.api, self.cur = inner, api, cur

    async def __aenter__(self):
        resp = await self.inner.__aenter__()
        # the object the mock stored for this call (the raw attribute when there is one: the public
        # accessor is what assertions read and may be a view of it)
        raw = self.api.__dict__.get("_materialized", _MISSING)
        self.cur["mat"] = canon(self.api.materialized if raw is _MISSING else raw)
        return resp

    async def __aexit__(self, *exc):
        return await self.inner.__aexit__(*exc)


def install():
    """instrument koreo.function_test.run in-process (idempotent)"""
    from koreo.function_test import run
    import celpy
    if _PATCHED:
        return
    orig_api = run.MockApi
    orig_rrf = run.reconcile_resource_function
    orig_rvf = run.reconcile_value_function
    orig_eo = run.evaluate_overlay
    orig_case = run._run_test_case
    orig_ov = run._overlay
    _PATCHED.update(api=orig_api, rrf=orig_rrf, rvf=orig_rvf, eo=orig_eo, case=orig_case, ov=orig_ov)

    class RecApi(orig_api):
        def __init__(self, current_resource, *a, **k):
            super().__init__(current_resource, *a, **k)
            if REC is not None and REC.cur is not None:
                REC.cur["api"] = self
                REC.cur["api_resource"] = canon(current_resource)

        def call_api(self, *args, **kwargs):
            cur_res = self._current_resource
            if (isinstance(cur_res, dict) and isinstance(cur_res.get("metadata"), dict)
                    and CRASH_KEY in (cur_res["metadata"].get("annotations") or {})):
                # harness-only: lets a PATCH/DELETE escape reconcile_* as an exception, so that the
                # runner's behaviour on a crashing function is observed too
                raise RuntimeError("c18 injected API failure")
            cur = REC.cur if REC is not None else None
            if cur is not None:
                if args and "DELETE" in args:
                    cur["calls"].append(None)
                else:
                    cur["calls"].append(json.loads(kwargs.get("data", "{}")))
            inner = super().call_api(*args, **kwargs)
            if cur is None:
                return inner
            return _snapshotting(inner, self, cur)

    async def rrf(**kw):
        cur = REC.cur if REC is not None else None
        given = canon(kw["inputs"])          # what the function is run with (snapshot BEFORE the call)
        try:
            r = await orig_rrf(**kw)
        except BaseException:
            if cur is not None:
                cur["fut"] = {"inputs": given, "raised": True, "outcome": None}
            raise
        if cur is not None:
            cur["fut"] = {"inputs": given, "raised": False, "outcome": outcome_view(r.outcome)}
        return r

    async def rvf(**kw):
        cur = REC.cur if REC is not None else None
        given = canon(kw["inputs"])
        try:
            r = await orig_rvf(**kw)
        except BaseException:
            if cur is not None:
                cur["fut"] = {"inputs": given, "raised": True, "outcome": None}
            raise
        if cur is not None:
            cur["fut"] = {"inputs": given, "raised": False, "outcome": outcome_view(r)}
        return r

    def eo(**kw):
        from koreo import result
        given_inputs, given_base = canon(kw["inputs"]), canon(kw["base"])
        r = orig_eo(**kw)
        if REC is not None and REC.cur is not None:
            err = isinstance(r, result.PermFail)
            REC.cur["rov"] = {"inputs": given_inputs, "base": given_base,
                              "result": None if err else canon(r)}
        return r

    def ov(resource, overlay):
        # the real _overlay never fails; a marker key lets the harness exercise the
        # runner's "inputs overlay error" branch (only in runs that use the marker)
        if ERR_KEY in overlay:
            if REC is not None and REC.cur is not None:
                REC.cur["ioverlay_err"] = True
            return celpy.CELEvalError("c18 injected inputs overlay failure")
        return orig_ov(resource, overlay)

    async def case(**kw):
        if REC is None:
            return await orig_case(**kw)
        REC.begin(kw["idx"], kw["base_inputs"], kw["current_resource"])
        cur = REC.cur
        try:
            out = await orig_case(**kw)
        except BaseException:
            cur["crashed"] = True
            raise
        finally:
            REC.cur = None
        cur["next_inputs"] = canon(out.new_inputs)
        cur["next_resource"] = canon(out.new_resource)
        cur["fatal"] = bool(out.fatal_error)
        cur["pass"] = bool(out.result.test_pass)
        return out

    run.MockApi = RecApi
    run.reconcile_resource_function = rrf
    run.reconcile_value_function = rvf
    run.evaluate_overlay = eo
    run._run_test_case = case
    run._overlay = ov


def uninstall():
    from koreo.function_test import run
    if not _PATCHED:
        return
    run.MockApi = _PATCHED["api"]
    run.reconcile_resource_function = _PATCHED["rrf"]
    run.reconcile_value_function = _PATCHED["rvf"]
    run.evaluate_overlay = _PATCHED["eo"]
    run._run_test_case = _PATCHED["case"]
    run._overlay = _PATCHED["ov"]
    _PATCHED.clear()


def fingerprint(obj, depth=0):
    """address-free deep view of prepared koreo objects (NamedTuples, celpy Runners, kr8s classes)"""
    import celpy
    from koreo import result
    if depth > 12:
        return "<deep>"
    if obj is None or isinstance(obj, (bool, int, float, str)):
        return canon(obj)
    if isinstance(obj, celpy.Runner):
        return {"__runner__": str(obj.ast)}
    if isinstance(obj, (result.DepSkip, result.Skip, result.Retry, result.PermFail, result.Ok)):
        return {"__outcome__": type(obj).__name__, "fields": {k: fingerprint(v, depth + 1) for k, v in sorted(vars(obj).items())}}
    if isinstance(obj, tuple) and hasattr(obj, "_fields"):
        return {"__nt__": type(obj).__name__,
                "fields": {f: fingerprint(getattr(obj, f), depth + 1) for f in obj._fields}}
    if isinstance(obj, dict):
        return {"__dict__": [[fingerprint(k, depth + 1), fingerprint(v, depth + 1)] for k, v in obj.items()]}
    if isinstance(obj, (list, tuple)):
        return [fingerprint(x, depth + 1) for x in obj]
    if isinstance(obj, (set, frozenset)):
        return {"__set__": sorted(repr(x) for x in obj)}
    if isinstance(obj, type):
        from koreo.constants import PLURAL_LOOKUP_NEEDED
        out = {"__class__": obj.__name__}
        for attr in ("version", "kind", "namespaced", "singular", "scalable"):
            out[attr] = repr(getattr(obj, attr, None))
        # the plural/endpoint are filled in lazily on first use when apiConfig has no `plural`
        pl = getattr(obj, "plural", None)
        out["plural"] = "<lazy>" if pl == PLURAL_LOOKUP_NEEDED or getattr(obj, "_c18_lazy", False) else repr(pl)
        out["endpoint"] = "<lazy>" if out["plural"] == "<lazy>" else repr(getattr(obj, "endpoint", None))
        return out
    return {"__obj__": type(obj).__name__}


def fixture_fingerprint(ft):
    return {"inputs": fingerprint(ft.inputs), "initial_resource": fingerprint(ft.initial_resource),
            "cases": [fingerprint(tc) for tc in (ft.test_cases or [])]}


def result_view(r):
    """what the oracle compares of one TestCaseResult"""
    v = {"pass": bool(r.test_pass), "message": norm_text(r.message), "label": r.label,
         "differences": canon(r.differences) if r.differences is not None else None}
    if r.outcome is None:
        v["outcome"] = None
    else:
        v["outcome"] = outcome_view(r.outcome)
    return v


class Env:
    """prepared functions + event loop state for one check run"""

    def __init__(self):
        self.fns = zoo()

    async def setup(self):
        from koreo import cache, registry
        from koreo.resource_function.prepare import prepare_resource_function
        from koreo.resource_function.structure import ResourceFunction
        from koreo.value_function.prepare import prepare_value_function
        from koreo.value_function.structure import ValueFunction
        from koreo.constants import PLURAL_LOOKUP_NEEDED
        from koreo import result
        registry._reset_registries()
        cache._reset_cache()
        for fn in self.fns:
            cls, prep = ((ResourceFunction, prepare_resource_function) if fn["kind"] == "ResourceFunction"
                         else (ValueFunction, prepare_value_function))
            await cache.prepare_and_cache(resource_class=cls, preparer=prep,
                                          metadata={"name": fn["name"], "resourceVersion": "1"},
                                          spec=copy.deepcopy(fn["spec"]))
            got = cache.get_resource_from_cache(resource_class=cls, cache_key=fn["name"])
            if not result.is_unwrapped_ok(got) or got is None:
                raise RuntimeError(f"could not prepare function under test {fn['name']}: {got}")
            fn["cls"] = cls
            if fn["kind"] == "ResourceFunction" and got.crud_config.resource_api.plural == PLURAL_LOOKUP_NEEDED:
                got.crud_config.resource_api._c18_lazy = True

    async def teardown(self):
        from koreo import cache, registry
        from koreo.resource_function.reconcile import kind_lookup
        cache._reset_cache()
        registry._reset_registries()
        kind_lookup._reset()

    def function(self, fn):
        from koreo import cache
        return cache.get_resource_from_cache(resource_class=fn["cls"], cache_key=fn["name"])

    def spec_of(self, test):
        spec = {"functionRef": {"kind": test["fn_kind"], "name": test["fn"]},
                "testCases": copy.deepcopy(test["cases"])}
        if test.get("inputs") is not None:
            spec["inputs"] = copy.deepcopy(test["inputs"])
        if test.get("resource") is not None:
            spec["currentResource"] = copy.deepcopy(test["resource"])
        return spec

    async def prepare(self, test):
        from koreo.function_test import prepare
        from koreo import result
        pt = await prepare.prepare_function_test("c18-test", self.spec_of(test))
        if not result.is_unwrapped_ok(pt):
            raise PrepareError(str(pt))
        return pt[0]

    async def run(self, ft, record=True):
        """run a prepared FunctionTest; returns (observation dict)"""
        global REC
        from koreo.function_test import run
        REC = Recorder() if record else None
        raised = None
        res = None
        try:
            res = await run.run_function_test(location=LOC, function_test=ft)
        except Exception as e:       # the whole run raised
            raised = type(e).__name__
            injected = "c18 injected" in str(e)
            text = norm_text(str(e))[:200]
        rec, REC = REC, None
        ob = {"raised": raised, "results": [], "fatal": None, "trace": rec.cases if rec else []}
        if raised:
            ob["injected"] = injected            # the harness's own fault injection (mock API raising)
            ob["raise_text"] = text
            tr = ob["trace"]
            ob["crash_idx"] = tr[-1]["idx"] if tr and tr[-1].get("crashed") else None
        if res is not None:
            ob["results"] = [result_view(r) for r in res.test_results]
            ob["fatal"] = bool(res.fatal_error)
        return ob


class PrepareError(Exception):
    pass


def case_kind(test, k, tr):
    """0 skipped, 1 inputs overlay error, 2 setup error, 3 overlay error, 4 ran, 5 crashed"""
    c = test["cases"][k]
    if tr.get("crashed"):
        return 5
    if c.get("skip"):
        return 0
    if tr["api"] is not None:
        return 4
    if tr["rov"] is not None:
        return 3
    if tr["ioverlay_err"]:
        return 1
    return 2


# ---------------------------------------------------------------------------
# the metamorphic oracle
# ---------------------------------------------------------------------------

def carrying_prefix(cases, k):
    return tuple(c["label"] for c in cases[:k] if not c.get("variant") and not c.get("skip"))


def run_summary(test, ob):
    """per label: position, prefix, result (if executed), kind; and where a setup error cut the run"""
    out = {}
    setup_at = None
    for k, c in enumerate(test["cases"]):
        ent = {"pos": k, "prefix": carrying_prefix(test["cases"], k), "variant": bool(c.get("variant")),
               "executed": k < len(ob["results"]), "result": None, "kind": None}
        if ent["executed"]:
            ent["result"] = ob["results"][k]
            if k < len(ob["trace"]):
                ent["kind"] = case_kind(test, k, ob["trace"][k])
            if setup_at is None and is_setup_error(c, ent):
                setup_at = k
        out[c["label"]] = ent
    return out, setup_at


def is_setup_error(c, ent):
    if ent["kind"] is not None:
        return ent["kind"] == 2
    msg = (ent["result"] or {}).get("message") or ""
    return msg.startswith("Can not overlay until the full resource exists")


def compare_runs(base_test, base_ob, der_test, der_ob, order_preserved, exclude=()):
    """None, or (signature, description, label) for the first case whose result changed"""
    if base_ob.get("injected") or der_ob.get("injected"):
        return None          # the harness made the mock API raise: not the runner's doing
    if base_ob["raised"] and der_ob["raised"]:
        return None          # both runs raise: no case has a result in either
    a, sa = run_summary(base_test, base_ob)
    b, sb = run_summary(der_test, der_ob)
    if base_ob["raised"] or der_ob["raised"]:
        # one run raised (no case has a result), the other completed: every other case's result changed
        r_test, r_ob, o_sum, o_setup = ((base_test, base_ob, b, sb) if base_ob["raised"] else (der_test, der_ob, a, sa))
        j = r_ob.get("crash_idx")
        if j is None:
            return None
        c = r_test["cases"][j]
        eo = o_sum.get(c["label"])
        if eo is not None and o_setup is not None and eo["pos"] >= o_setup:
            return None      # in the other run that case lies behind a setup error (excluded)
        if c["label"] in exclude:
            return None
        if c.get("variant") or (eo is not None and eo["executed"] and eo["prefix"] == carrying_prefix(r_test["cases"], j)):
            who = "variant" if c.get("variant") else "non-variant"
            return ("run-raised", f"run_function_test raised {r_ob['raised']} ({r_ob.get('raise_text')}) in {who} case "
                    f"{c['label']} in one run, so no case has a result there; the other run completed", c["label"])
        return None
    for label, ea in a.items():
        eb = b.get(label)
        if eb is None or ea["prefix"] != eb["prefix"] or label in exclude:
            continue
        # excluded: at or after a setup error in either run
        if sa is not None and ea["pos"] >= sa:
            continue
        if sb is not None and eb["pos"] >= sb:
            continue
        strict_exec = (not ea["variant"]) or order_preserved
        if ea["executed"] != eb["executed"]:
            if strict_exec:
                who = "non-variant" if not ea["variant"] else "variant"
                return ("executed-set", f"{who} case {label} is executed in one run and not in the other "
                        f"({ea['executed']} vs {eb['executed']})", label)
            continue
        if not ea["executed"]:
            continue
        ra, rb = ea["result"], eb["result"]
        for field in ("pass", "outcome", "message", "differences"):
            if skey(jsonable(ra[field])) != skey(jsonable(rb[field])):
                return (f"result-{field}", f"case {label}: {field} {ra[field]!r} became {rb[field]!r}", label)
    return None


def crash_oracle(test, ob):
    """a VARIANT case must leave no trace; if an exception escapes from it, run_function_test raises and
    every other case loses its result.  (Exceptions injected by the harness's mock API are not counted.)"""
    if not ob["raised"] or ob.get("injected") or ob.get("crash_idx") is None:
        return None
    c = test["cases"][ob["crash_idx"]]
    if not c.get("variant"):
        return None
    return (f"variant case makes run_function_test raise: {ob['raised']}", ob["crash_idx"])


def chain_oracle(test, ob):
    """first sentence of the property, directly on one observed run: the first case starts
    from the base fixtures; after a variant or skipped case the next case starts from the
    same state; after a (passing) non-variant case the next case starts from exactly the
    inputs that case ran the function with and the resource the mock API materialised (the
    resource it ran against when the function made no API call)."""
    tr = ob["trace"]
    if not tr:
        return None
    base = (test.get("inputs") or None, test.get("resource"))
    first = (tr[0]["start_inputs"], tr[0]["start_resource"])
    if skey(list(first)) != skey(list(base)):
        return ("chain: first case does not start from the base fixtures", 0, first, base)
    for k in range(len(tr) - 1):
        c = test["cases"][tr[k]["idx"]]
        got = (tr[k + 1]["start_inputs"], tr[k + 1]["start_resource"])
        if c.get("skip") or c.get("variant"):
            want = (tr[k]["start_inputs"], tr[k]["start_resource"])
            who = "skipped" if c.get("skip") else "variant"
            if skey(list(got)) != skey(list(want)):
                part = "inputs" if skey(got[0]) != skey(want[0]) else "resource"
                return (f"chain: {who} case changed the {part} the next case starts from", k, got, want)
            continue
        if tr[k]["api"] is None or tr[k]["fut"] is None:
            continue            # a non-variant case that could not run: the runner stops (not judged here)
        api = tr[k]["api"]
        want = (tr[k]["fut"]["inputs"],
                tr[k]["mat"] if api._api_called else tr[k]["api_resource"])
        if skey(got[0]) != skey(want[0]):
            return ("chain: next case does not start from the inputs the previous non-variant case ran with", k, got, want)
        # what the Function wrote, independently of the mock's book-keeping: every top-level field of the
        # last body it sent (create or patch) is what the next case sees, metadata.annotations included
        sent = [c for c in tr[k]["calls"]]
        if sent and sent[-1] is not None and isinstance(sent[-1], dict):
            seen = got[1] if isinstance(got[1], dict) else {}
            for key, val in sent[-1].items():
                if key not in seen or skey(seen[key]) != skey(canon(val)):
                    return ("chain: next case does not see what the previous non-variant case sent to the API",
                            k, {key: seen.get(key)}, {key: val})
        if skey(got[1]) != skey(want[1]):
            return ("chain: next case does not start from the resource the previous non-variant case produced", k, got, want)
    return None


def derive(test, rng, fn):
    """derived tests: (name, derived test, order_preserved)"""
    cases = test["cases"]
    var_idx = [k for k, c in enumerate(cases) if c.get("variant")]
    skip_idx = [k for k, c in enumerate(cases) if c.get("skip")]
    out = []

    def sub(name, drop):
        if drop:
            out.append((name, dict(test, cases=[copy.deepcopy(c) for k, c in enumerate(cases) if k not in drop]), True))

    sub("variants-removed", set(var_idx))
    if len(var_idx) > 1:
        sub("some-variants-removed", set(rng.sample(var_idx, rng.randint(1, len(var_idx) - 1))))
    sub("skips-removed", set(skip_idx))
    if var_idx and skip_idx:
        sub("variants-and-skips-removed", set(var_idx) | set(skip_idx))
    if len(var_idx) > 0:
        # reorder: non-variant cases keep their order, variants are re-inserted anywhere
        fixed = [copy.deepcopy(c) for c in cases if not c.get("variant")]
        movers = [copy.deepcopy(cases[k]) for k in var_idx]
        rng.shuffle(movers)
        for m in movers:
            fixed.insert(rng.randint(0, len(fixed)), m)
        out.append(("variants-moved", dict(test, cases=fixed), False))
    room = 20 - len(cases)
    if room > 0:
        # add: duplicates of existing variants and fresh variant cases (with any assertion)
        added = [copy.deepcopy(c) for c in cases]
        n_new = rng.randint(1, min(room, 4))
        for j in range(n_new):
            if var_idx and rng.random() < 0.5:
                new = copy.deepcopy(cases[rng.choice(var_idx)])
            else:
                new = gen_case(rng, fn, test.get("inputs"), "x", allow_flags=False)
                if "overlayResource" in new and rng.random() < 0.7:
                    del new["overlayResource"]      # fresh overlays mostly hit setup errors
                set_assertion(new, rng.choice([placeholder(fn), {"expectOutcome": {"permFail": {"message": ""}}},
                                               {"expectOutcome": {"retry": {"message": "", "delay": 0}}}]))
            new["variant"] = True
            new["label"] = f"new{j}"
            added.insert(rng.randint(0, len(added)), new)
        out.append(("variants-added", dict(test, cases=added), True))
    return out


# ---------------------------------------------------------------------------
# Gallina printing (pooled documents)
# ---------------------------------------------------------------------------

class Pool:
    def __init__(self):
        self.items = [None]        # index 0 = None
        self.idx = {"<none>": 0}

    def add(self, v):
        if v is None:
            return 0
        k = skey(v)
        if k not in self.idx:
            self.idx[k] = len(self.items)
            self.items.append(v)
        return self.idx[k]

    def coq(self):
        return clist(self.items, lambda v: copt(v, cjson))


def to_coq(test, ob, healthy=True):
    """Gallina text of Corr_C18.case for one real run, and (conflicts) of the recorded tables"""
    p = Pool()
    conflicts = []
    fut_rows, fut_seen = [], {}
    verdict_rows, rov_rows, trace = [], [], []
    for tr in ob["trace"]:
        k = tr["idx"]
        kind = case_kind(test, k, tr)
        oc = 0
        if tr["fut"] is not None:
            f = tr["fut"]
            key = skey(f["inputs"]) + "|" + ("<none>" if tr["api_resource"] is None else skey(tr["api_resource"]))
            val = (f["raised"], skey(f["outcome"]) if f["outcome"] is not None else "-", skey(tr["calls"]))
            if key in fut_seen and fut_seen[key] != val:
                conflicts.append({"case": k, "inputs": f["inputs"], "resource": tr["api_resource"],
                                  "first": fut_seen[key], "then": val})
            if key not in fut_seen:
                fut_seen[key] = val
                fut_rows.append("{| f_inputs := %s; f_resource := %s; f_raised := %s; f_outcome := %s; f_calls := %s |}" % (
                    cnat(p.add(f["inputs"])), cnat(p.add(tr["api_resource"])), cbool(f["raised"]),
                    cnat(p.add(f["outcome"])), clist(tr["calls"], lambda c: copt(None if c is None else p.add(c), cnat))))
            if not f["raised"]:
                oc = p.add(f["outcome"])
                api = tr["api"]
                if not tr.get("crashed"):
                    verdict_rows.append("{| v_case := %s; v_outcome := %s; v_mat := %s; v_del := %s; v_pass := %s |}" % (
                        cnat(k), cnat(oc), cnat(p.add(tr["mat"])), cbool(bool(api._delete_called)),
                        copt(tr["pass"], cbool)))
        if tr["rov"] is not None:
            r = tr["rov"]
            rov_rows.append("{| ov_case := %s; ov_inputs := %s; ov_base := %s; ov_result := %s |}" % (
                cnat(k), cnat(p.add(r["inputs"])), cnat(p.add(r["base"])),
                copt(None if r["result"] is None else p.add(r["result"]), cnat)))
        crashed = bool(tr.get("crashed"))
        trace.append("{| ob_start_inputs := %s; ob_start_resource := %s; ob_pass := %s; ob_kind := %s; "
                     "ob_outcome := %s; ob_fatal := %s; ob_next_inputs := %s; ob_next_resource := %s |}" % (
                         cnat(p.add(tr["start_inputs"])), cnat(p.add(tr["start_resource"])),
                         cbool(False if crashed else tr["pass"]), cnat(kind), cnat(oc if kind == 4 else 0),
                         cbool(True if crashed else tr["fatal"]),
                         cnat(p.add(tr["start_inputs"] if crashed else tr["next_inputs"])),
                         cnat(p.add(tr["start_resource"] if crashed else tr["next_resource"]))))
    ccases = []
    for c in test["cases"]:
        ccases.append("{| cc_variant := %s; cc_skip := %s; cc_overrides := %s; cc_current := %s; cc_overlay := %s |}" % (
            cbool(bool(c.get("variant"))), cbool(bool(c.get("skip"))),
            cnat(p.add(c.get("inputOverrides") or None)), cnat(p.add(c.get("currentResource"))),
            cbool(bool(c.get("overlayResource")))))
    kinds = [case_kind(test, k, tr) for k, tr in enumerate(ob["trace"])]
    results = [cpair(cbool(r["pass"]), cnat(kinds[k] if k < len(kinds) else 4)) for k, r in enumerate(ob["results"])]
    base_inputs = test.get("inputs") or None          # prepare: falsy inputs -> None
    term = ("{| c_pool := %s; c_healthy := %s; c_base_inputs := %s; c_base_resource := %s; c_cases := %s; "
            "c_fut := %s; c_verdict := %s; c_rov := %s; c_trace := %s; c_raised := %s; c_results := %s; c_fatal := %s |}" % (
                "@POOL@", cbool(healthy), cnat(p.add(base_inputs)), cnat(p.add(test.get("resource"))),
                "[" + "; ".join(ccases) + "]", "[" + "; ".join(fut_rows) + "]", "[" + "; ".join(verdict_rows) + "]",
                "[" + "; ".join(rov_rows) + "]", "[" + "; ".join(trace) + "]", cbool(bool(ob["raised"])),
                "[" + "; ".join(results) + "]", cbool(bool(ob["fatal"]))))
    return term.replace("@POOL@", p.coq()), conflicts


# ---------------------------------------------------------------------------
# one generated test, end to end
# ---------------------------------------------------------------------------

SMALL_BODIES = [
    {},
    {"inputOverrides": {"a": 2}},
    {"overlayResource": {"status": {"ready": True}}},
    {"currentResource": {"apiVersion": "c18.koreo.dev/v1", "kind": "WidgetP", "metadata": {"name": "w1", "namespace": "ns"},
                         "spec": {"a": 1, "b": {"x": 1}}, "status": {"ready": True}}},
    {"inputOverrides": {"pre": "fail"}},
]
SMALL_FLAGS = [{}, {"variant": True}, {"skip": True}]


def small_scope(maxlen):
    """every sequence of up to maxlen cases over 5 bodies x {plain, variant, skip} against the patching function"""
    import itertools
    alpha = [dict(copy.deepcopy(b), **f) for b in SMALL_BODIES for f in SMALL_FLAGS]
    for n in range(1, maxlen + 1):
        for seq in itertools.product(alpha, repeat=n):
            cases = []
            for i, c in enumerate(seq):
                c = copy.deepcopy(c)
                c["label"] = f"c{i}"
                c["expectDelete"] = False
                cases.append(c)
            yield {"fn": "c18-patch", "fn_kind": "ResourceFunction", "inputs": {"name": "w1", "a": 1, "b": {"x": 1}},
                   "resource": None, "cases": cases}


def gen_test(rng, env, quick):
    fn = rng.choices(env.fns, weights=ZOO_WEIGHTS)[0]
    inputs = gen_inputs(rng)
    n = rng.choice([1, 2, 3, 4, 5, 6, 8, 10, 12, 15, 18, 20])
    test = {"fn": fn["name"], "fn_kind": fn["kind"], "inputs": inputs, "resource": None, "cases": []}
    if rng.random() < 0.25:
        kind = fn["spec"].get("apiConfig", {}).get("kind", "WidgetV")
        test["resource"] = gen_resource(rng, kind, inputs)
    kinds = ["resource", "return", "outcome", "delete"] if fn["kind"] == "ResourceFunction" else ["return", "outcome"]
    plan = []
    # at most a couple of failing non-variant cases; variants fail more often
    fail_nonvariant_at = rng.randrange(n) if rng.random() < 0.3 else None
    for k in range(n):
        c = gen_case(rng, fn, inputs, f"c{k}")
        set_assertion(c, placeholder(fn))
        test["cases"].append(c)
        if c.get("variant"):
            truthful = rng.random() < 0.6
        else:
            truthful = k != fail_nonvariant_at
        pref = rng.choice(kinds)
        if fn["name"].startswith("c18-annot") and rng.random() < 0.4:
            pref = "resource"
        plan.append({"pref": pref, "truthful": truthful, "fixed": False})
    if rng.random() < 0.12 and test["cases"] and inputs:
        # exercise the runner's inputs-overlay-error branch (shimmed _overlay), mostly in variants
        vs = [c for c in test["cases"][:-1] if c.get("variant") and not c.get("skip")]
        c = rng.choice(vs) if vs and rng.random() < 0.75 else rng.choice(test["cases"])
        c.setdefault("inputOverrides", {})[ERR_KEY] = 1
    return fn, test, plan


async def fix_assertions(env, fn, test, plan, rng, repair=True):
    """make the assertions true/false as planned, using what the instrumented run observes;
    repair most setup errors (overlayResource before any resource exists), which abort a run"""
    allow_setup_error = (not repair) or rng.random() < 0.12
    ob = None
    for _ in range(3 * len(test["cases"]) + 3):
        ft = await env.prepare(test)
        ob = await env.run(ft)
        changed = False
        for tr in ob["trace"]:
            k = tr["idx"]
            if plan[k]["fixed"] or tr["api"] is None or tr["fut"] is None or tr["fut"]["raised"] or tr.get("crashed"):
                continue
            seen = {"outcome": tr["fut"]["outcome"], "mat": tr["mat"],
                    "deleted": bool(tr["api"]._delete_called)}
            set_assertion(test["cases"][k], build_assertion(fn, plan[k]["pref"], plan[k]["truthful"], seen, rng))
            plan[k]["fixed"] = True
            changed = True
        if ob["trace"] and not allow_setup_error:
            last = ob["trace"][-1]
            if case_kind(test, last["idx"], last) == 2:
                c = test["cases"][last["idx"]]
                del c["overlayResource"]
                if rng.random() < 0.5:
                    kind = fn["spec"].get("apiConfig", {}).get("kind", "WidgetV")
                    c["currentResource"] = gen_resource(rng, kind, last["start_inputs"] or {})
                changed = True
        if not changed:
            break
    return ob


_SHRUNK: set = set()


async def monitor(env, fn, test, ft=None, fx_before=None, fut_before=None, ob=None):
    """snapshot monitor + run-twice on one FunctionTest: {signature: (what, observed, expected)}"""
    if ft is None:
        fut_before = fingerprint(env.function(fn))
        ft = await env.prepare(test)
        fx_before = fixture_fingerprint(ft)
        ob = await env.run(ft, record=False)
    out = {}
    fx_after = fixture_fingerprint(ft)
    if fx_after != fx_before:
        which = [k for k in fx_before if fx_before[k] != fx_after[k]]
        detail = None
        if "cases" in which:
            i = next(i for i, (a, b) in enumerate(zip(fx_before["cases"], fx_after["cases"])) if a != b)
            detail = {"case_index": i, "before": fx_before["cases"][i], "after": fx_after["cases"][i]}
        out["fixtures modified by the run: " + ",".join(which)] = (
            "running the FunctionTest changed its own fixtures (" + ", ".join(which) + ")", detail or fx_after, None if detail else fx_before)
    if fingerprint(env.function(fn)) != fut_before:
        out["function under test modified by the run"] = (
            "running the FunctionTest changed the prepared Function under test", fingerprint(env.function(fn)), fut_before)
    # same prepared object, second run: per-case verdicts and results of run 2 == run 1
    ob2 = await env.run(ft, record=False)
    if skey(jsonable(ob2["results"])) != skey(jsonable(ob["results"])) or ob2["fatal"] != ob["fatal"] or ob2["raised"] != ob["raised"]:
        out["second run of the same FunctionTest differs"] = (
            "running the same prepared FunctionTest twice gives different results", ob2["results"], ob["results"])
    return out


async def monitor_has(env, fn, test, sig):
    try:
        return sig in await monitor(env, fn, test)
    except PrepareError:
        return False


async def shrink_cases(env, test, still):
    """greedily drop cases (last first) while `await still(test)` holds"""
    cases = list(test["cases"])
    i = len(cases) - 1
    while i >= 0 and len(cases) > 1:
        cand = cases[:i] + cases[i + 1:]
        try:
            ok = await still(dict(test, cases=cand))
        except Exception:
            ok = False
        if ok:
            cases = cand
        i -= 1
    return dict(test, cases=cases)


async def report_crash(ctx, env, test, ob):
    bad = crash_oracle(test, ob)
    if not bad:
        return
    sig, k = bad
    small = dict(test, cases=test["cases"][:k + 1])
    if sig not in _SHRUNK:
        _SHRUNK.add(sig)

        async def still(t):
            b = crash_oracle(t, await env.run(await env.prepare(t)))
            return bool(b) and b[0] == sig
        small = await shrink_cases(env, small, still)
    ctx.fail(Failure(signature=sig,
                     what=f"an exception ({ob['raised']}: {ob.get('raise_text')}) escaped from variant case "
                          f"{test['cases'][k]['label']}: the whole run raises and every other case loses its result",
                     case={"test": small}, observed=ob["raised"], expected="a failed (or passed) variant case and a completed run"))


async def check_test(ctx: Ctx, env: Env, fn, test, rng, cases_out, terms_out, do_derive=True, derive_kinds=None):
    """run T and its derived tests; oracle + snapshot monitor; collect correspondence terms.
    Returns the base observation."""
    fut_before = fingerprint(env.function(fn))
    ft = await env.prepare(test)
    fx_before = fixture_fingerprint(ft)
    ob = await env.run(ft)
    if ob["raised"]:
        ctx.count("run:raised")
    found = await monitor(env, fn, test, ft=ft, fx_before=fx_before, fut_before=fut_before, ob=ob)
    for sig, (what, observed, expected) in found.items():
        small = test
        if sig not in _SHRUNK:          # shrink the first failure of each kind only (check.py reports one per signature)
            _SHRUNK.add(sig)
            small = await shrink_cases(env, test, lambda t, sig=sig: monitor_has(env, fn, t, sig))
        ctx.fail(Failure(signature=sig, what=what, case={"test": small}, observed=observed, expected=expected))
    await report_crash(ctx, env, test, ob)
    bad = chain_oracle(test, ob)
    if bad:
        sig, k, got, want = bad
        upto = [c["label"] for c in test["cases"][:k + 2]]

        async def still(labels):
            t = dict(test, cases=[c for c in test["cases"] if c["label"] in labels])
            if not t["cases"]:
                return False
            b = chain_oracle(t, await env.run(await env.prepare(t)))
            return bool(b) and b[0] == sig
        keep = upto
        i = 0
        while i < len(keep):
            cand = keep[:i] + keep[i + 1:]
            try:
                ok = await still(set(cand))
            except Exception:
                ok = False
            if ok:
                keep = cand
            else:
                i += 1
        ctx.fail(Failure(signature=sig, what=f"{sig} (after case index {k})",
                         case={"test": dict(test, cases=[c for c in test["cases"] if c["label"] in set(keep)])},
                         observed=got if isinstance(got, dict) else list(got),
                         expected=want if isinstance(want, dict) else list(want)))
    term, conflicts = to_coq(test, ob)
    cases_out.append({"test": test, "how": "base"})
    terms_out.append(term)
    if conflicts:
        ctx.fail(Failure(signature="function under test is not a function of (inputs, resource)",
                         what="the same (inputs, resource) gave two different outcomes / API calls within one run",
                         case=test, observed=conflicts[0]))
    if not do_derive:
        return ob
    for name, der, order_preserved in derive(test, rng, fn):
        if derive_kinds is not None and name not in derive_kinds:
            continue
        try:
            dft = await env.prepare(der)
        except PrepareError:
            ctx.count("derived:prepare-failed")
            continue
        dob = await env.run(dft)
        ctx.count(f"derived:{name}")
        await report_crash(ctx, env, der, dob)
        dterm, dconf = to_coq(der, dob)
        cases_out.append({"test": der, "how": name})
        terms_out.append(dterm)
        bad = compare_runs(test, ob, der, dob, order_preserved)
        if bad:
            sig, what, label = bad
            small_t, small_d = await shrink_pair(env, test, der, order_preserved, sig)
            ctx.fail(Failure(signature=f"{name}: {sig}", what=f"{name}: {what}",
                             case={"test": small_t, "derived": small_d, "how": name},
                             observed=None, expected="identical results for every case with the same non-variant predecessors"))
    # fold the prefix: case k alone, started from what the last non-variant case before it produced
    await fold_prefix_oracle(ctx, env, test, ob, rng)
    await assertion_swap_oracle(ctx, env, fn, test, ob, rng)
    await duplicate_variant_oracle(ctx, env, test, ob, rng)
    # freshly prepared, after everything else ran against the same function
    ft3 = await env.prepare(test)
    ob3 = await env.run(ft3, record=False)
    if skey(jsonable(ob3["results"])) != skey(jsonable(ob["results"])) or ob3["fatal"] != ob["fatal"]:
        ctx.fail(Failure(signature="re-run after other tests differs",
                         what="the same FunctionTest gives different results after other tests ran against the function",
                         case=test, observed=ob3["results"], expected=ob["results"]))
    if fingerprint(env.function(fn)) != fut_before:
        ctx.fail(Failure(signature="function under test modified by the run",
                         what="running derived FunctionTests changed the prepared Function under test",
                         case=test, observed=fingerprint(env.function(fn)), expected=fut_before))
    return ob


async def assertion_swap_oracle(ctx, env, fn, test, ob, rng):
    """the state a passing case hands on is what the function did, not how the case asserted it: the
    same FunctionTest with some passing cases' assertions replaced by TRUE assertions of another kind
    (expectResource <-> expectOutcome <-> expectDelete <-> expectReturn) must give every other case
    the same result.  Judged only if the swapped cases still pass."""
    if ob["raised"]:
        return
    res = ob["results"]
    cands = [k for k, tr in enumerate(ob["trace"])
             if k < len(res) and res[k]["pass"] and tr["api"] is not None and tr["fut"] is not None
             and not tr["fut"]["raised"] and not tr.get("crashed") and not test["cases"][k].get("skip")]
    if not cands:
        return
    chosen = [k for k in cands if rng.random() < 0.6] or [rng.choice(cands)]
    kinds = ["resource", "return", "outcome", "delete"] if fn["kind"] == "ResourceFunction" else ["return", "outcome"]
    keyname = {"expectResource": "resource", "expectReturn": "return", "expectOutcome": "outcome", "expectDelete": "delete"}
    swapped = dict(test, cases=copy.deepcopy(test["cases"]))
    for k in chosen:
        c = swapped["cases"][k]
        now = next((keyname[a] for a in ASSERT_KEYS if a in c), None)
        tr = ob["trace"][k]
        seen = {"outcome": tr["fut"]["outcome"], "mat": tr["mat"], "deleted": bool(tr["api"]._delete_called)}
        # a passing expectResource case is the interesting one to turn into something else, and vice versa
        pref = rng.choice([x for x in kinds if x != now] or kinds)
        if now != "resource" and "resource" in kinds and rng.random() < 0.5:
            pref = "resource"
        set_assertion(c, build_assertion(fn, pref, True, seen, rng))
    try:
        sob = await env.run(await env.prepare(swapped), record=False)
    except PrepareError:
        ctx.count("derived:assertion-swapped-prepare-failed")
        return
    if sob["raised"] or any(k >= len(sob["results"]) or not sob["results"][k]["pass"] for k in chosen):
        ctx.count("derived:assertion-swapped-not-judged")
        return
    ctx.count("derived:assertion-swapped")
    sob["trace"] = []
    bad = compare_runs(test, ob, swapped, sob, True, exclude={test["cases"][k]["label"] for k in chosen})
    if bad:
        sig, what, label = bad
        # smallest reproduction: swap one case at a time
        small = swapped
        for k in chosen:
            one = dict(test, cases=copy.deepcopy(test["cases"]))
            one["cases"][k] = copy.deepcopy(swapped["cases"][k])
            try:
                oob = await env.run(await env.prepare(one), record=False)
            except PrepareError:
                continue
            oob["trace"] = []
            if not oob["raised"] and k < len(oob["results"]) and oob["results"][k]["pass"]:
                b1 = compare_runs(test, ob, one, oob, True, exclude={test["cases"][k]["label"]})
                if b1:
                    upto = max(k, next(i for i, c in enumerate(test["cases"]) if c["label"] == b1[2])) + 1
                    small = dict(one, cases=one["cases"][:upto])
                    test = dict(test, cases=test["cases"][:upto])
                    sig, what = b1[0], b1[1]
                    break
        ctx.fail(Failure(signature=f"assertion-swapped: {sig}",
                         what="changing only HOW an earlier passing case asserts (both assertions true) changes a later case: " + what,
                         case={"test": test, "derived": small, "how": "assertion-swapped"},
                         expected="identical results for every other case"))


async def duplicate_variant_oracle(ctx, env, test, ob, rng):
    """a variant case repeated right after itself — the copy SHARING the expectation object, as a YAML
    alias would — starts from the same state and is the same case, so it must get the same result"""
    if ob["raised"] or len(test["cases"]) >= 20:
        return
    ks = [k for k, c in enumerate(test["cases"]) if c.get("variant") and not c.get("skip") and k < len(ob["results"])
          and (k >= len(ob["trace"]) or case_kind(test, k, ob["trace"][k]) == 4)]
    if not ks:
        return
    k = rng.choice(ks)
    cases = copy.deepcopy(test["cases"])
    dup = dict(cases[k])                 # shallow: the assertion / overrides objects are shared with case k
    dup["label"] = "dup"
    cases.insert(k + 1, dup)
    der = dict(test, cases=cases)
    try:
        dob = await env.run(await env.prepare(der), record=False)
    except PrepareError:
        return
    if dob["raised"] or len(dob["results"]) <= k + 1:
        return
    ctx.count("derived:variant-duplicated-in-place")
    ra, rb = dob["results"][k], dob["results"][k + 1]
    for field in ("pass", "outcome", "message", "differences"):
        if skey(jsonable(ra[field])) != skey(jsonable(rb[field])):
            small = dict(der, cases=cases[:k + 2])
            ctx.fail(Failure(signature=f"variant-duplicated-in-place: result-{field}",
                             what=f"a variant case repeated right after itself gets a different result: {field} {ra[field]!r} then {rb[field]!r}",
                             case={"test": small, "how": "variant-duplicated-in-place"}, observed=rb, expected=ra))
            return


async def fold_prefix_oracle(ctx, env, test, ob, rng):
    """sentence 1 through the public API: case k, run as the only case of a FunctionTest whose base
    fixtures are the inputs / resource that the last passing non-variant case before it produced
    (as seen at the mock API), must get the same result as in T"""
    tr = ob["trace"]
    ks = [k for k in range(1, len(tr)) if k < len(ob["results"]) and not tr[k].get("crashed")]
    if not ks or ob["raised"]:
        return
    k = rng.choice(ks)
    prod = (test.get("inputs") or None, test.get("resource"))
    for j in range(k):
        c = test["cases"][j]
        if c.get("variant") or c.get("skip"):
            continue
        if tr[j]["api"] is None or tr[j]["fut"] is None:
            return            # cannot happen before an executed case; be safe
        api = tr[j]["api"]
        prod = (tr[j]["fut"]["inputs"], tr[j]["mat"] if api._api_called else tr[j]["api_resource"])
    single = dict(test, inputs=copy.deepcopy(prod[0]), resource=copy.deepcopy(prod[1]),
                  cases=[copy.deepcopy(test["cases"][k])])
    try:
        sob = await env.run(await env.prepare(single), record=False)
    except PrepareError:
        ctx.count("derived:fold-prefix-prepare-failed")
        return
    ctx.count("derived:fold-prefix")
    if sob["raised"] or not sob["results"]:
        return
    ra, rb = ob["results"][k], sob["results"][0]
    for field in ("pass", "outcome", "message", "differences"):
        if skey(jsonable(ra[field])) != skey(jsonable(rb[field])):
            ctx.fail(Failure(signature=f"fold-prefix: result-{field}",
                             what=f"case {test['cases'][k]['label']} does not start from what the last non-variant case "
                                  f"before it produced: {field} {ra[field]!r} in the full test, {rb[field]!r} when run alone from that state",
                             case={"test": dict(test, cases=test["cases"][:k + 1]), "derived": single, "how": "fold-prefix"},
                             observed=ra, expected=rb))
            return


async def shrink_pair(env, test, der, order_preserved, sig):
    """drop cases (from both tests, by label) while the same kind of difference remains"""
    labels = [c["label"] for c in test["cases"]]
    extra = [c["label"] for c in der["cases"] if c["label"] not in labels]

    async def differs(keep):
        t = dict(test, cases=[c for c in test["cases"] if c["label"] in keep])
        d = dict(der, cases=[c for c in der["cases"] if c["label"] in keep])
        if not t["cases"] or not d["cases"]:
            return False
        try:
            tob = await env.run(await env.prepare(t))
            dob = await env.run(await env.prepare(d))
        except PrepareError:
            return False
        bad = compare_runs(t, tob, d, dob, order_preserved)
        return bool(bad) and bad[0] == sig

    keep = labels + extra
    i = 0
    while i < len(keep):
        cand = keep[:i] + keep[i + 1:]
        try:
            ok = await differs(set(cand))
        except Exception:
            ok = False
        if ok:
            keep = cand
        else:
            i += 1
    ks = set(keep)
    return (dict(test, cases=[c for c in test["cases"] if c["label"] in ks]),
            dict(der, cases=[c for c in der["cases"] if c["label"] in ks]))


# ---------------------------------------------------------------------------
# small direct correspondences: _overlay and MockApi
# ---------------------------------------------------------------------------

def gen_doc(rng, depth=0):
    r = rng.random()
    if depth >= 3 or r < 0.35:
        return rng.choice([0, 1, -3, True, False, None, "s", "", 2.5, [1, 2], []])
    if r < 0.5:
        return [gen_doc(rng, depth + 1) for _ in range(rng.randint(0, 2))]
    return {rng.choice("abcd"): gen_doc(rng, depth + 1) for _ in range(rng.randint(0, 3))}


def gen_map(rng):
    return {rng.choice("abcde"): gen_doc(rng, 1) for _ in range(rng.randint(0, 4))}


def overlay_cases(ctx, n):
    import celpy
    from koreo.cel.functions import _overlay
    cases, terms = [], []
    for _ in range(n):
        b, o = gen_map(ctx.rng), gen_map(ctx.rng)
        b0, o0 = copy.deepcopy(b), copy.deepcopy(o)
        cb, co = celpy.json_to_cel(b), celpy.json_to_cel(o)
        got = _overlay(cb, co)
        if isinstance(got, celpy.CELEvalError):
            ctx.fail(Failure(signature="_overlay returned an error", what="cel.functions._overlay returned CELEvalError",
                             case={"base": b0, "overlay": o0}))
            continue
        if skey(canon(cb)) != skey(b0) or skey(canon(co)) != skey(o0):
            ctx.fail(Failure(signature="_overlay mutated its arguments", what="cel.functions._overlay changed its inputs",
                             case={"base": b0, "overlay": o0}))
        cases.append({"base": b0, "overlay": o0})
        terms.append("{| oc_base := %s; oc_overlay := %s; oc_result := %s |}" % (cjson(b0), cjson(o0), cjson(canon(got))))
        ctx.cases += 1
    return cases, terms


async def api_cases(ctx, n):
    from koreo.function_test.run import MockApi
    cases, terms = [], []
    for _ in range(n):
        cur = ctx.rng.choice([None, {}, gen_map(ctx.rng), gen_map(ctx.rng)])
        calls = []
        for _ in range(ctx.rng.choice([0, 1, 1, 1, 2, 3])):
            calls.append(None if ctx.rng.random() < 0.25 else gen_map(ctx.rng))
        cur0 = copy.deepcopy(cur)
        api = MockApi(current_resource=cur)
        for c in calls:
            if c is None:
                async with api.call_api("DELETE", version="v1", url="x", namespace=None, data="{}"):
                    pass
            else:
                async with api.call_api(ctx.rng.choice(["POST", "PATCH"]), version="v1", url="x", namespace=None,
                                        data=json.dumps(c)) as resp:
                    resp.json()
        if cur0 is not None and skey(cur0) != skey(cur):
            ctx.fail(Failure(signature="MockApi mutated the current resource", what="MockApi.call_api changed the object it was given",
                             case={"current": cur0, "calls": calls}))
        case = {"current": cur0, "calls": calls}
        cases.append(case)
        terms.append("{| ac_current := %s; ac_calls := %s; ac_mat := %s; ac_called := %s; ac_deleted := %s |}" % (
            copt(cur0, cjson), clist(calls, lambda c: copt(c, lambda d: clist(d.items(), lambda kv: cpair(cstr(kv[0]), cjson(kv[1]))))),
            copt(api.materialized, cjson), cbool(api._api_called), cbool(api._delete_called)))
        ctx.cases += 1
    return cases, terms


# ---------------------------------------------------------------------------
# entry points
# ---------------------------------------------------------------------------

def nontrivial(test, ob):
    executed = len(ob["results"])
    flags = any(c.get("variant") or c.get("skip") for c in test["cases"][:executed])
    states = {skey([t["start_inputs"], t["start_resource"]]) for t in ob["trace"]}
    return executed >= 3 and flags and len(states) >= 2


async def amain(ctx: Ctx, tests_from_corpus, n_tests):
    env = Env()
    install()
    _SHRUNK.clear()
    cases, terms = [], []
    try:
        await env.setup()
        todo = []
        for t in tests_from_corpus:
            entry = t.get("case", t)
            t = entry.get("test", entry)
            fn = next((f for f in env.fns if f["name"] == t.get("fn")), None)
            if fn is not None:
                todo.append((fn, t, entry))
        for fn, t, entry in todo:
            try:
                ob = await check_test(ctx, env, fn, copy.deepcopy(t), ctx.rng, cases, terms)
                ctx.note_case(t, nontrivial(t, ob))
                ctx.count("corpus")
                await dup_entry_check(ctx, env, t, entry)
                if "derived" in entry and entry.get("how") != "fold-prefix":
                    der = entry["derived"]
                    dob = await env.run(await env.prepare(der))
                    bad = compare_runs(t, ob, der, dob, entry.get("how") != "variants-moved",
                                       exclude=pair_exclude(t, der, entry.get("how")))
                    if bad and pair_judgeable(t, ob, der, dob, entry.get("how")):
                        ctx.fail(Failure(signature=f"{entry.get('how')}: {bad[0]}", what=f"corpus pair: {bad[1]}", case=entry))
            except PrepareError:
                ctx.count("corpus:prepare-failed")
        for test in small_scope(2 if ctx.quick() else 3):
            fn = next(f for f in env.fns if f["name"] == test["fn"])
            plan = [{"pref": ["outcome", "return", "resource", "delete"][(i + len(test["cases"])) % 4], "truthful": True, "fixed": False}
                    for i in range(len(test["cases"]))]
            await fix_assertions(env, fn, test, plan, ctx.rng, repair=False)
            ob = await check_test(ctx, env, fn, test, ctx.rng, cases, terms, derive_kinds=("variants-removed", "skips-removed", "variants-moved"))
            ctx.note_case(test, nontrivial(test, ob))
            ctx.count("small-scope")
        # the function under test is missing: no case runs, fatal_error is set
        missing = {"fn": "c18-no-such-function", "fn_kind": "ResourceFunction", "inputs": {"name": "w1"}, "resource": None,
                   "cases": [{"label": "c0", "expectDelete": False}, {"label": "c1", "variant": True, "expectDelete": True}]}
        mob = await env.run(await env.prepare(missing))
        mterm, _ = to_coq(missing, mob, healthy=False)
        cases.append({"test": missing, "how": "missing-function"})
        terms.append(mterm)
        ctx.cases += 1
        for _ in range(n_tests):
            fn, test, plan = gen_test(ctx.rng, env, ctx.quick())
            try:
                await fix_assertions(env, fn, test, plan, ctx.rng)
                ob = await check_test(ctx, env, fn, test, ctx.rng, cases, terms)
            except PrepareError as e:
                ctx.count("prepare-failed")
                ctx.notes.append({"prepare_failed": str(e)[:300]}) if len(ctx.notes) < 3 else None
                continue
            ctx.note_case(test, nontrivial(test, ob))
            distribution(ctx, fn, test, ob)
        ocases, oterms = overlay_cases(ctx, 300 if ctx.quick() else 3000)
        acases, aterms = await api_cases(ctx, 300 if ctx.quick() else 3000)
    finally:
        try:
            await env.teardown()
        finally:
            uninstall()
    return cases, terms, ocases, oterms, acases, aterms


def distribution(ctx, fn, test, ob):
    ctx.count(f"fn:{fn['name']}")
    n = len(test["cases"])
    ctx.count("len:" + ("1-3" if n <= 3 else "4-8" if n <= 8 else "9-15" if n <= 15 else "16-20"))
    ctx.count("run-raised" if ob["raised"] else "executed-all" if len(ob["results"]) == n else "stopped-early")
    for k, tr in enumerate(ob["trace"]):
        c = test["cases"][k]
        ctx.count("kind:" + ["skipped", "inputs-err", "setup-err", "overlay-err", "ran", "crashed"][case_kind(test, k, tr)])
        ctx.count("flag:" + ("variant" if c.get("variant") else "plain") + ("+skip" if c.get("skip") else ""))
        if k < len(ob["results"]):
            ctx.count("pass" if ob["results"][k]["pass"] else "fail")
        for a in ASSERT_KEYS:
            if a in c:
                ctx.count("assert:" + a)
                if isinstance(c[a], dict) and "x-koreo-compare-as-" in json.dumps(c[a]):
                    ctx.count("assert:" + a + "+directive" + (":pass" if k < len(ob["results"]) and ob["results"][k]["pass"] else ":fail"))
        if tr["fut"] and tr["fut"]["outcome"]:
            ctx.count("outcome:" + tr["fut"]["outcome"]["class"])
        if tr["calls"]:
            ctx.count("api:" + ("delete" if tr["calls"][0] is None else "send"))
        elif tr["api"] is not None:
            ctx.count("api:none")
        for key in ("inputOverrides", "currentResource", "overlayResource"):
            if key in c:
                ctx.count("uses:" + key)


def run(ctx: Ctx):
    n_tests = 110 if ctx.quick() else 1000
    loop_result = asyncio.run(amain(ctx, corpus_cases("C18"), n_tests))
    cases, terms, ocases, oterms, acases, aterms = loop_result
    if ctx.model_ok:
        ctx.correspond("run_function_test vs FnTestRun.run_cases", "Corr_C18", cases, terms)
        ctx.correspond("cel.functions._overlay vs deep_overlay", "Corr_C18", ocases, oterms, check_fn="check_overlay")
        ctx.correspond("MockApi vs api_run", "Corr_C18", acases, aterms, check_fn="check_api")


async def dup_entry_check(ctx, env, test, entry):
    """stored `variant-duplicated-in-place` input: the last case is the previous one again, sharing its objects"""
    if entry.get("how") != "variant-duplicated-in-place" or len(test["cases"]) < 2:
        return
    cases_ = copy.deepcopy(test["cases"])
    cases_[-1] = dict(cases_[-2], label="dup")          # JSON lost the sharing: restore it
    dob = await env.run(await env.prepare(dict(test, cases=cases_)), record=False)
    if not dob["raised"] and len(dob["results"]) == len(cases_):
        ra, rb = dob["results"][-2], dob["results"][-1]
        for field in ("pass", "outcome", "message", "differences"):
            if skey(jsonable(ra[field])) != skey(jsonable(rb[field])):
                ctx.fail(Failure(signature=f"variant-duplicated-in-place: result-{field}",
                                 what=f"{field} {ra[field]!r} then {rb[field]!r}", case=entry))
                break


def pair_judgeable(test, ob, der, dob, how):
    """an assertion-swapped pair says something only if the swapped cases pass in both runs"""
    if how != "assertion-swapped":
        return True
    ex = pair_exclude(test, der, how)
    for t, o in ((test, ob), (der, dob)):
        for k, c in enumerate(t["cases"]):
            if c["label"] in ex and (k >= len(o["results"]) or not o["results"][k]["pass"]):
                return False
    return True


def pair_exclude(test, der, how):
    """labels not to compare in a stored (test, derived) pair"""
    if how != "assertion-swapped":
        return set()
    d = {c["label"]: c for c in der["cases"]}
    return {c["label"] for c in test["cases"]
            if c["label"] in d and any(c.get(a) != d[c["label"]].get(a) for a in ASSERT_KEYS)}


async def areplay(ctx: Ctx, case):
    env = Env()
    install()
    cases, terms = [], []
    try:
        await env.setup()
        test = case["test"] if "test" in case else case
        fn = next(f for f in env.fns if f["name"] == test["fn"])
        ob = await check_test(ctx, env, fn, copy.deepcopy(test), ctx.rng, cases, terms, do_derive="derived" not in case)
        ctx.note_case(test, True)
        await dup_entry_check(ctx, env, test, case)
        if "derived" in case:
            der = case["derived"]
            how = case.get("how", "derived")
            dob = await env.run(await env.prepare(der))
            dterm, _ = to_coq(der, dob)
            cases.append({"test": der, "how": how})
            terms.append(dterm)
            if how == "fold-prefix":
                # the last case of `test` against the single case of `derived`
                k = len(test["cases"]) - 1
                if k < len(ob["results"]) and dob["results"]:
                    ra, rb = ob["results"][k], dob["results"][0]
                    for field in ("pass", "outcome", "message", "differences"):
                        if skey(jsonable(ra[field])) != skey(jsonable(rb[field])):
                            ctx.fail(Failure(signature=f"fold-prefix: result-{field}",
                                             what=f"fold-prefix: {field} {ra[field]!r} vs {rb[field]!r}", case=case))
                            break
            else:
                bad = compare_runs(test, ob, der, dob, how != "variants-moved", exclude=pair_exclude(test, der, how))
                if bad and pair_judgeable(test, ob, der, dob, how):
                    ctx.fail(Failure(signature=f"{how}: {bad[0]}", what=f"{how}: {bad[1]}", case=case))
    finally:
        try:
            await env.teardown()
        finally:
            uninstall()
    return cases, terms


def replay(ctx: Ctx, data):
    case = data["case"] if "case" in data else data
    cases, terms = asyncio.run(areplay(ctx, case))
    if ctx.model_ok and terms:
        ctx.correspond("replay", "Corr_C18", cases, terms)
