"""C16 — hot reload is coherent (src/koreo/cache.py + src/koreo/registry.py) vs model/Loop.v.

A case is a *history*: operations of a driver coroutine (offer = prepare_and_cache,
delete = delete_from_cache, yield = `await asyncio.sleep(0)`) run from the empty system inside one
`asyncio.run`, with `time.monotonic` replaced by a strictly increasing counter.  After EVERY operation
the harness reads the whole state of the two modules and of the loop; the Coq model (Loop.step) must
predict all of it (Corr_C16.check_case).  Independently of the model, the oracle drives the real
system to idle and checks the property text on it.
"""
from __future__ import annotations

import asyncio
import copy
import itertools
import logging

from common import Ctx, Failure, cbool, clist, cnat, copt, corpus_cases, cpair, shrink_list

COQ_TARGETS = ["props/P_C16.vo", "corr/Corr_C16.vo"]
PROOF_FILES = ["proofs/Loop_proofs.v"]
RULE = ("histories of offer(key, version, declared dependencies) / delete(key) / yield (= one event-loop turn) "
        "over 3-4 resources of TWO kinds that share their names (key i = kind i mod 2, name r<i div 2>) "
        "with acyclic declarations (a resource depends only on later ones), versions drawn "
        "from a small pool so that offers are cache hits as well as replacements, and 0-3 yields after every "
        "operation: random histories, the delete-and-re-offer regression shapes, and (thorough tier) ALL "
        "placements of 0..3 yields between the operations of base histories of <= 5 operations; every prefix "
        "is compared with the model; a history is non-trivial when some dependent gets re-prepared by its "
        "monitor task or a watched resource is deleted; distinct by content")
ASSUMPTIONS = [
    "time.monotonic() is strictly increasing (the code compares event_time <= prepare time; two equal readings "
    "could drop a needed event - latent risk, hypothesis of every theorem)",
    "preparers are atomic (no await that suspends), do not raise, and the dependencies they declare are a function "
    "of the spec (a re-preparation from the cached spec declares what the offer declared)",
    "delete_from_cache is called without a version (the version-guarded no-op path is C15's)",
    "declared dependencies are acyclic (a resource only depends on resources with a larger index), so "
    "SubscriptionCycle is never raised",
    "asyncio (CPython 3.13): FIFO ready queue; create_task / future wake-up / cancel / done-callbacks each take "
    "effect through call_soon; sleep(0) re-queues the caller at the end of the ready queue; LifoQueue.get does "
    "not suspend when an item is available; put_nowait wakes one pending getter; shutdown() wakes all; "
    "cancel() of an unstarted task ends it cancelled without running its body, cancel() of a task suspended in "
    "queue.get() raises CancelledError there (validated on every run by the per-operation state comparison)",
    "the order in which notify_subscribers iterates over a set of subscribers is arbitrary (parameter `ord` of "
    "the model; the theorems hold for every order, the correspondence uses the observed one)",
]
TRUSTED = ["the harness's preparers consume (deeply mutate) the spec object they are handed, as koreo's real preparers "
           "do, after comparing it with the spec that was offered for the cached version; the spec kept in the cache "
           "entry is compared with it after every operation (oracle only: the model does not carry specs)",
           "the harness's bookkeeping of generations (a counter per resource, bumped by the test preparer and on "
           "delete) and the strictly increasing clock shim installed as koreo.cache.time / koreo.registry.time",
           "registry.notify_subscribers is wrapped (not altered) to record the iteration order of the subscriber set"]

IDLE_BOUND_SLACK = 6


# ---------------------------------------------------------------------------------------------
# deterministic identities: set iteration order must not depend on the process's hash seed
# ---------------------------------------------------------------------------------------------

class _Meta(type):
    def __hash__(cls):
        return 0x5EED


class KA(metaclass=_Meta):
    """first resource kind (Resource.resource_type)"""


class _MetaB(type):
    def __hash__(cls):
        return 0xB00B5


class KB(metaclass=_MetaB):
    """second resource kind: resources of different kinds may share a name"""


KINDS = (KA, KB)


def kind_of(i):
    """key i of the universe is the resource (kind i mod 2, name r<i div 2>)"""
    return KINDS[i % 2]


class Name(str):
    """a str whose hash is chosen by the harness (so that set iteration order is reproducible)"""
    h = 0

    def __hash__(self):
        return self.h


def mk_name(i, h):
    n = Name(f"r{i}")
    n.h = h
    return n


class Clock:
    def __init__(self):
        self.t = 0

    def monotonic(self):
        self.t += 1
        return self.t


# ---------------------------------------------------------------------------------------------
# running the real modules
# ---------------------------------------------------------------------------------------------

class Run:
    """result of one history on the real code"""
    def __init__(self):
        self.trace = []        # observation after every op
        self.ordtab = []       # (event_time, [subscriber indices in iteration order])
        self.problems = []     # (signature, detail) found by the oracle
        self.reprepares = 0    # preparer calls made from monitor tasks
        self.idle_after = None
        self.completed = 0     # ops completed


def make_spec(k, v, deps):
    """the definition offered for key k at version v: declared dependencies plus nested material for the
    preparer to chew on"""
    return {"k": k, "deps": list(deps),
            "nest": {"consumed": {"skipIf": f"=v{v}", "keep": [k, v]},
                     "items": [{"inputs": {"x": v}}, "tail"]}}


def jsonable_spec(spec):
    return None if spec is None else copy.deepcopy(spec)


def run_history(hist, observe_each=True) -> Run:
    from koreo import cache, registry
    n = hist["n"]
    hashes = hist.get("hashes") or list(range(n))
    # key i = (kind i mod 2, name r<i div 2>): the two kinds share their names; one Name object (one hash) per name
    name_objs = [mk_name(j, hashes[j]) for j in range((n + 1) // 2)]
    names = [name_objs[i // 2] for i in range(n)]
    res = [registry.Resource(resource_type=kind_of(i), name=names[i]) for i in range(n)]
    out = Run()
    clock = Clock()
    gens = [0] * n
    in_driver = [True]
    pristine = {}          # key -> deep copy of the spec that was offered for the cached version
    offering = [None]      # deep copy of the spec of the offer in progress

    def idx(r):
        return 2 * int(str.__str__(r.name)[1:]) + KINDS.index(r.resource_type)

    async def preparer(key, spec):
        k = spec["k"]
        # (1) what did we receive?  every (re-)preparation must get the spec that was offered for this version
        if in_driver[0]:
            pristine[k] = offering[0]
        if spec != pristine.get(k):
            out.problems.append(("a (re-)preparation received a spec that differs from the one offered for the "
                                 "cached version", [k, jsonable_spec(spec), jsonable_spec(pristine.get(k))]))
        deps = list(spec["deps"])
        seen = [[d, gens[d]] for d in deps]
        gens[k] += 1
        if not in_driver[0]:
            out.reprepares += 1
        # (2) behave like koreo's real preparers (resource_function/prepare.py pops keys out of nested
        # overlay specs): consume the copy we were given, deeply
        spec["nest"]["consumed"].pop("skipIf", None)
        spec["nest"]["items"].append("seen-by-preparer")
        spec["nest"]["items"][0]["inputs"] = None
        spec.pop("nest")
        return ({"k": k, "seen": seen}, [res[d] for d in deps] or None)

    def check_cached_spec(i, c):
        if c is not None and c.spec != pristine.get(i):
            out.problems.append(("the spec kept in the cache entry is no longer the one that was offered",
                                 [i, jsonable_spec(c.spec), jsonable_spec(pristine.get(i))]))

    orig_notify = registry.notify_subscribers

    def logged_notify(notifier, event_time):
        s = registry._RESOURCE_SUBSCRIBERS.get(notifier)
        if s:
            out.ordtab.append((int(event_time), [idx(r) for r in s]))
        return orig_notify(notifier=notifier, event_time=event_time)

    def ev(e):
        if isinstance(e, registry.Kill):
            return None
        return [idx(e.resource), int(e.event_time)]

    def observe(loop):
        keys = []
        for i in range(n):
            r = res[i]
            c = cache.get_resource_system_data_from_cache(kind_of(i), names[i])
            check_cached_spec(i, c)
            q = registry._SUBSCRIPTION_QUEUES.get(r)
            if q is not None and q._unfinished_tasks != len(q._queue):
                out.problems.append(("harness: _unfinished_tasks differs from the number of queued items",
                                     [i, q._unfinished_tasks, len(q._queue)]))
            t = cache._REPREPARE_TASKS.get(r)
            p = cache._PREPARE_TIMES.get(r)
            keys.append({
                "cache": None if c is None else [int(c.resource_version), [list(x) for x in c.resource["seen"]]],
                "subs": sorted(idx(x) for x in registry._SUBSCRIBER_RESOURCES.get(r, ())),
                "rsubs": sorted(idx(x) for x in registry._RESOURCE_SUBSCRIBERS.get(r, ())),
                "queue": None if q is None else [[ev(e) for e in q._queue], bool(q._is_shutdown)],
                "task": None if t is None else bool(t.done()),
                "ptime": None if p is None else int(p),
            })
        return {"keys": keys, "gens": list(gens), "clock": clock.t, "nready": len(loop._ready)}

    def idle(loop):
        # nothing is scheduled: without a further operation nothing will ever run again
        return len(loop._ready) == 0

    async def main():
        loop = asyncio.get_running_loop()
        loop.set_exception_handler(
            lambda lp, context: out.problems.append(("the event loop logged an exception",
                                                     repr(context.get("exception") or context.get("message")))))
        me = asyncio.current_task()
        try:
            for op in hist["ops"]:
                try:
                    if op[0] == "offer":
                        _, k, v, deps = op
                        spec = make_spec(k, v, deps)
                        offering[0] = copy.deepcopy(spec)
                        await cache.prepare_and_cache(kind_of(k), preparer,
                                                      {"name": names[k], "resourceVersion": str(v)}, spec)
                    elif op[0] == "delete":
                        k = op[1]
                        had = cache.get_resource_from_cache(kind_of(k), names[k]) is not None
                        if had:
                            gens[k] += 1
                        await cache.delete_from_cache(kind_of(k), names[k])
                    else:
                        in_driver[0] = False
                        await asyncio.sleep(0)
                        in_driver[0] = True
                except Exception as e:  # nothing may escape an operation
                    out.problems.append((f"{op[0]} raises {type(e).__name__}", repr(e)))
                    return
                out.completed += 1
                if observe_each:
                    out.trace.append(observe(loop))
            # ---- oracle: drive to idle, then look
            bound = 2 * n + IDLE_BOUND_SLACK
            turns = 0
            in_driver[0] = False
            while not idle(loop) and turns < bound:
                await asyncio.sleep(0)
                turns += 1
            if not idle(loop):
                out.problems.append(("the system is not idle after the bounded number of loop turns", turns))
                return
            out.idle_after = turns
            await asyncio.sleep(0)      # a turn on an idle system must do nothing
            await asyncio.sleep(0)
            final = observe(loop)
            for i in range(n):
                o = final["keys"][i]
                if o["cache"] is not None:
                    _, seen = o["cache"]
                    declared = [d for d, _ in seen]
                    for d, g in seen:
                        if g != gens[d]:
                            out.problems.append(("stale at idle: a cached entry was built from an old generation "
                                                 "of a declared dependency", [i, d, g, gens[d]]))
                    if o["subs"] != sorted(set(declared)):
                        out.problems.append(("a cached entry's subscriptions differ from its declared dependencies",
                                             [i, o["subs"], declared]))
                    if declared and (o["task"] is None or o["task"]):
                        out.problems.append(("a cached entry with dependencies has no live re-prepare task",
                                             [i, o["task"]]))
                    if declared and o["queue"] is None:
                        out.problems.append(("a cached entry with dependencies has no registered queue", [i]))
                else:
                    if o["task"] is not None:
                        out.problems.append(("a resource that is not cached still has a re-prepare task", [i]))
                    if o["queue"] is not None:
                        out.problems.append(("a resource that is not cached still has a registered queue", [i]))
                    if o["subs"]:
                        out.problems.append(("a resource that is not cached still has subscriptions", [i, o["subs"]]))
            live = {t for t in asyncio.all_tasks() if t is not me and not t.done()}
            current = set(cache._REPREPARE_TASKS.values())
            if live - current:
                out.problems.append(("a monitor task that is nobody's re-preparer is still pending at idle",
                                     sorted(t.get_name() for t in live - current)))
        finally:
            # cleaning up is not part of the history: whatever it provokes is ignored
            loop.set_exception_handler(lambda lp, context: None)
            for t in list(cache._REPREPARE_TASKS.values()):
                t.cancel()
            for t in asyncio.all_tasks():
                if t is not me:
                    t.cancel()
            cache._reset_cache()
            cache._REPREPARE_TASKS.clear()
            cache._PREPARE_TIMES.clear()
            for _ in range(3):
                await asyncio.sleep(0)

    saved = (cache.time, registry.time, registry.notify_subscribers)
    cache.time = clock
    registry.time = clock
    registry.notify_subscribers = logged_notify
    try:
        asyncio.run(main())
    finally:
        cache.time, registry.time, registry.notify_subscribers = saved
        try:
            cache._REPREPARE_TASKS.clear()
            cache._PREPARE_TIMES.clear()
            registry._reset_registries()
        except Exception:
            pass
    return out


# ---------------------------------------------------------------------------------------------
# Gallina
# ---------------------------------------------------------------------------------------------

def c_op(op):
    if op[0] == "offer":
        return f"(Offer {cnat(op[1])} {cnat(op[2])} {clist(op[3], cnat)})"
    if op[0] == "delete":
        return f"(Delete {cnat(op[1])})"
    return "Yield"


def c_event(e):
    return "EKill" if e is None else f"(ERes {cnat(e[0])} {cnat(e[1])})"


def c_key(o):
    cache = copt(o["cache"], lambda c: cpair(cnat(c[0]), clist(c[1], lambda p: cpair(cnat(p[0]), cnat(p[1])))))
    queue = copt(o["queue"], lambda q: cpair(clist(q[0], c_event), cbool(q[1])))
    return (f"(KO {cache} {clist(o['subs'], cnat)} {clist(o['rsubs'], cnat)} {queue} "
            f"{copt(o['task'], cbool)} {copt(o['ptime'], cnat)})")


def c_obs(o):
    return f"(SO {clist(o['keys'], c_key)} {clist(o['gens'], cnat)} {cnat(o['clock'])} {cnat(o['nready'])})"


def to_coq(hist, r: Run):
    steps = [f"Step {c_op(op)} {c_obs(o)}" for op, o in zip(hist["ops"], r.trace)]
    tab = clist(r.ordtab, lambda e: cpair(cnat(e[0]), clist(e[1], cnat)))
    return f"CHist {tab} {clist(steps, lambda s: '(' + s + ')')}"


# ---------------------------------------------------------------------------------------------
# generators
# ---------------------------------------------------------------------------------------------

def rand_hashes(rng, n):
    # small distinct-ish hashes: the slot order of a Python set of tuples depends on them
    return [rng.randrange(1, 1 << 20) for _ in range(n)]


def rand_deps(rng, k, n):
    later = list(range(k + 1, n))
    m = rng.choice([0, 1, 1, 2, 2, 3])
    return sorted(rng.sample(later, min(m, len(later))))


def rand_base(rng, n, length, versions=None):
    """a history without yields"""
    ops = []
    ver = {k: 0 for k in range(n)}
    for _ in range(length):
        k = rng.randrange(n)
        r = rng.random()
        if r < 0.68:
            if rng.random() < 0.8 or ver[k] == 0:
                ver[k] += 1                    # new version -> prepare
                v = ver[k]
            else:
                v = rng.randint(max(1, ver[k] - 1), ver[k])   # old / same version again
            ops.append(["offer", k, v, rand_deps(rng, k, n)])
        else:
            ops.append(["delete", k])
    return ops


def with_yields(ops, ys):
    out = []
    for op, y in zip(ops, ys):
        out.append(op)
        out += [["yield"]] * y
    return out


def regression_bases():
    # offer D; offer R(deps=[D]); delete R; offer R; offer D(new version)   (R = 0, D = 1)
    yield [["offer", 1, 1, []], ["offer", 0, 1, [1]], ["delete", 0], ["offer", 0, 2, [1]], ["offer", 1, 2, []]]
    # same with a same-version re-offer of R (still a prepare: the entry was deleted)
    yield [["offer", 1, 1, []], ["offer", 0, 1, [1]], ["delete", 0], ["offer", 0, 1, [1]], ["offer", 1, 2, []]]
    # dependency offered late, deleted, offered again
    yield [["offer", 0, 1, [1]], ["offer", 1, 1, []], ["delete", 1], ["offer", 1, 1, []], ["delete", 1]]
    # chain 0 -> 1 -> 2 and a diamond 0 -> {1,2}, 1 -> 2
    yield [["offer", 2, 1, []], ["offer", 1, 1, [2]], ["offer", 0, 1, [1]], ["offer", 2, 2, []], ["delete", 1]]
    yield [["offer", 0, 1, [1, 2]], ["offer", 1, 1, [2]], ["offer", 2, 1, []], ["delete", 2], ["offer", 2, 2, []]]
    # dependencies dropped and declared again by a new version
    yield [["offer", 0, 1, [1]], ["offer", 0, 2, []], ["offer", 0, 3, [2]], ["offer", 2, 1, []], ["offer", 1, 1, []]]
    # delete twice / delete then offer without dependencies then with
    yield [["offer", 0, 1, [2]], ["delete", 0], ["delete", 0], ["offer", 0, 2, []], ["offer", 0, 3, [2]]]
    # two KINDS sharing a name (keys 0 and 1 are kind A / kind B of name r0): a dependency of one changes and
    # the other one is offered right away; nothing of the first may be keyed by the bare name
    yield [["offer", 2, 1, []], ["offer", 0, 1, [2]], ["offer", 2, 2, []], ["offer", 1, 1, []], ["offer", 2, 3, []]]
    yield [["offer", 3, 1, []], ["offer", 1, 1, [3]], ["offer", 0, 1, [3]], ["offer", 3, 2, []], ["delete", 0]]


def gen_histories(ctx: Ctx):
    rng = ctx.rng
    for c in corpus_cases("C16"):
        yield c, "corpus"
    # regression shapes: every placement of 0..3 yields after each op but the last
    for base in regression_bases():
        n = 1 + max(max([op[1]] + (op[3] if op[0] == "offer" else [])) for op in base)
        top = 3 if not ctx.quick() else 2
        for ys in itertools.product(range(top + 1), repeat=len(base) - 1):
            yield {"n": max(n, 3), "hashes": [1, 2, 3, 4], "ops": with_yields(base, list(ys) + [0])}, "regression"
    # random histories, random yields
    nrand = 1200 if ctx.quick() else 8000
    for _ in range(nrand):
        n = rng.choice([3, 4, 4])
        base = rand_base(rng, n, rng.randint(3, 12))
        ys = [rng.choice([0, 0, 1, 1, 2, 3]) for _ in base]
        yield {"n": n, "hashes": rand_hashes(rng, n), "ops": with_yields(base, ys)}, "random"
    # exhaustive placements on random short bases
    nbase = 6 if ctx.quick() else 60
    for _ in range(nbase):
        n = rng.choice([3, 4])
        base = rand_base(rng, n, 5 if not ctx.quick() else 4)
        hashes = rand_hashes(rng, n)
        for ys in itertools.product(range(4), repeat=len(base) - 1):
            yield {"n": n, "hashes": hashes, "ops": with_yields(base, list(ys) + [0])}, "placements"


# ---------------------------------------------------------------------------------------------
# oracle + bookkeeping
# ---------------------------------------------------------------------------------------------

def signature_of(problem):
    return problem[0]


def check_history(ctx: Ctx, hist, kind, cases, terms):
    r = run_history(hist)
    nops = sum(1 for o in hist["ops"] if o[0] != "yield")
    ctx.count(f"kind:{kind}")
    ctx.count(f"ops:{min(nops, 12)}")
    ctx.count("reprepares_by_monitor", r.reprepares)
    deletes_watched = any(o[0] == "delete" for o in hist["ops"])
    ctx.note_case(hist, nontrivial=(r.reprepares > 0 or deletes_watched) and nops >= 3)
    if r.idle_after is not None:
        ctx.count(f"idle_after:{r.idle_after}")
        if r.idle_after > hist["n"] + 2:      # C16_yield_progress_N says n+2 turns suffice
            ctx.count("idle_after_exceeds_n_plus_2")
            ctx.mismatch("progress bound of C16_yield_progress_N (idle within n+2 turns)", hist, r.idle_after)
    if r.problems:
        seen = set()
        for sig, detail in r.problems:
            if sig in seen:
                continue
            seen.add(sig)

            def still(ops, sig=sig):
                rr = run_history({"n": hist["n"], "hashes": hist.get("hashes"), "ops": ops}, observe_each=False)
                return any(s == sig for s, _ in rr.problems)
            small_ops = shrink_list(hist["ops"], still)
            small = {"n": hist["n"], "hashes": hist.get("hashes"), "ops": small_ops}
            rr = run_history(small, observe_each=False)
            ctx.fail(Failure(signature=sig, what=sig, case=small,
                             observed=[list(p) for p in rr.problems][:6],
                             expected="coherent at idle; watchers exactly for cached entries with dependencies; "
                                      "nothing raised or logged"))
    if r.completed == len(hist["ops"]) and len(r.trace) == len(hist["ops"]):
        cases.append(hist)
        terms.append(to_coq(hist, r))
    return r


def run(ctx: Ctx):
    cases, terms = [], []
    logging.disable(logging.CRITICAL)
    for hist, kind in gen_histories(ctx):
        check_history(ctx, hist, kind, cases, terms)
    if ctx.model_ok:
        ctx.correspond("koreo.cache/registry + event loop vs Loop.step (state after every op)",
                       "Corr_C16", cases, terms)


def replay(ctx: Ctx, data):
    hist = data["case"] if "case" in data else data
    cases, terms = [], []
    check_history(ctx, hist, "replay", cases, terms)
    if ctx.model_ok and cases:
        ctx.correspond("replay", "Corr_C16", cases, terms)
