"""C16 — hot reload is coherent (src/koreo/cache.py + src/koreo/registry.py) vs model/Loop.v.

A case is a *history*: operations of a driver coroutine (offer = prepare_and_cache,
delete = delete_from_cache, yield = `await asyncio.sleep(0)`) run from the empty system inside one
`asyncio.run`, with `time.monotonic` replaced by a strictly increasing counter.  After EVERY operation
the harness reads the whole state of the two modules and of the loop; the Coq model (Loop.step) must
predict all of it (Corr_C16.check_case).  Independently of the model, the oracle drives the real
system to idle and checks the property text on it.
"""
from __future__ import annotations

import asyncio
import copy
import itertools
import logging

from common import Ctx, Failure, cbool, clist, cnat, copt, corpus_cases, cpair, shrink_list

COQ_TARGETS = ["props/P_C16.vo", "corr/Corr_C16.vo"]
PROOF_FILES = ["proofs/Loop_proofs.v"]
RULE = ("histories of offer(key, version, declared dependencies) / delete(key) / yield (= one event-loop turn) "
        "over 3-4 resources of TWO kinds that share their names (key i = kind i mod 2, name r<i div 2>) "
        "with acyclic declarations (a resource depends only on later ones), versions drawn "
        "from a small pool so that offers are cache hits as well as replacements, and 0-3 yields after every "
        "operation: random histories, the delete-and-re-offer regression shapes, and (thorough tier) ALL "
        "placements of 0..3 yields between the operations of base histories of <= 5 operations; every prefix "
        "is compared with the model; a history is non-trivial when some dependent gets re-prepared by its "
        "monitor task or a watched resource is deleted; distinct by content")
ASSUMPTIONS = [
    "time.monotonic() is strictly increasing (the code compares event_time <= prepare time; two equal readings "
    "could drop a needed event - latent risk, hypothesis of every theorem)",
    "(model and theorems) preparers are atomic (no await that suspends), do not raise, and the dependencies they declare are a function "
    "of the spec (a re-preparation from the cached spec declares what the offer declared)",
    "delete_from_cache is called without a version (the version-guarded no-op path is C15's)",
    "(oracle-only streams) a background re-preparation may take any number of loop turns before / after it looks "
    "its dependencies up; FOREGROUND preparations (inside prepare_and_cache) are atomic for the preparers koreo "
    "ships - checked by stream 'real' (real prepare_workflow / prepare_value_function under concurrently started "
    "offers and deletes) - and the generated streams do not suspend the harness's preparers there; what happens "
    "otherwise are the three KNOWN FINDINGS (latent races a, c, e: corpus/C16/*-latent-race-*.json, "
    "notes/C16_latent_races.py), reported on every run",
    "declared dependencies are acyclic (a resource only depends on resources with a larger index), so "
    "SubscriptionCycle is never raised",
    "asyncio (CPython 3.13): FIFO ready queue; create_task / future wake-up / cancel / done-callbacks each take "
    "effect through call_soon; sleep(0) re-queues the caller at the end of the ready queue; LifoQueue.get does "
    "not suspend when an item is available; put_nowait wakes one pending getter; shutdown() wakes all; "
    "cancel() of an unstarted task ends it cancelled without running its body, cancel() of a task suspended in "
    "queue.get() raises CancelledError there (validated on every run by the per-operation state comparison)",
    "the order in which notify_subscribers iterates over a set of subscribers is arbitrary (parameter `ord` of "
    "the model; the theorems hold for every order, the correspondence uses the observed one)",
]
TRUSTED = ["the harness's preparers consume (deeply mutate) the spec object they are handed, as koreo's real preparers "
           "do, after comparing it with the spec that was offered for the cached version; the spec kept in the cache "
           "entry is compared with it after every operation (oracle only: the model does not carry specs)",
           "the harness's bookkeeping of generations (a counter per resource, bumped by the test preparer and on "
           "delete) and the strictly increasing clock shim installed as koreo.cache.time / koreo.registry.time",
           "registry.notify_subscribers is wrapped (not altered) to record the iteration order of the subscriber set"]

IDLE_BOUND_SLACK = 6


# ---------------------------------------------------------------------------------------------
# deterministic identities: set iteration order must not depend on the process's hash seed
# ---------------------------------------------------------------------------------------------

class _Meta(type):
    def __hash__(cls):
        return 0x5EED


class KA(metaclass=_Meta):
    """first resource kind (Resource.resource_type)"""


class _MetaB(type):
    def __hash__(cls):
        return 0xB00B5


class KB(metaclass=_MetaB):
    """second resource kind: resources of different kinds may share a name"""


KINDS = (KA, KB)


def kind_of(i):
    """key i of the universe is the resource (kind i mod 2, name r<i div 2>)"""
    return KINDS[i % 2]


class Name(str):
    """a str whose hash is chosen by the harness (so that set iteration order is reproducible)"""
    h = 0

    def __hash__(self):
        return self.h


def mk_name(i, h):
    n = Name(f"r{i}")
    n.h = h
    return n


class Clock:
    def __init__(self):
        self.t = 0

    def monotonic(self):
        self.t += 1
        return self.t


# ---------------------------------------------------------------------------------------------
# running the real modules
# ---------------------------------------------------------------------------------------------

class Run:
    """result of one history on the real code"""
    def __init__(self):
        self.trace = []        # observation after every op
        self.ordtab = []       # (event_time, [subscriber indices in iteration order])
        self.problems = []     # (signature, detail) found by the oracle
        self.reprepares = 0    # preparer calls made from monitor tasks
        self.idle_after = None
        self.completed = 0     # ops completed


def make_spec(k, v, deps):
    """the definition offered for key k at version v: declared dependencies plus nested material for the
    preparer to chew on"""
    return {"k": k, "deps": list(deps),
            "nest": {"consumed": {"skipIf": f"=v{v}", "keep": [k, v]},
                     "items": [{"inputs": {"x": v}}, "tail"]}}


def jsonable_spec(spec):
    return None if spec is None else copy.deepcopy(spec)


def run_history(hist, observe_each=True) -> Run:
    from koreo import cache, registry
    n = hist["n"]
    hashes = hist.get("hashes") or list(range(n))
    # key i = (kind i mod 2, name r<i div 2>): the two kinds share their names; one Name object (one hash) per name
    name_objs = [mk_name(j, hashes[j]) for j in range((n + 1) // 2)]
    names = [name_objs[i // 2] for i in range(n)]
    res = [registry.Resource(resource_type=kind_of(i), name=names[i]) for i in range(n)]
    out = Run()
    clock = Clock()
    gens = [0] * n
    in_driver = [True]
    pristine = {}          # key -> deep copy of the spec that was offered for the cached version
    offering = [None]      # deep copy of the spec of the offer in progress

    def idx(r):
        return 2 * int(str.__str__(r.name)[1:]) + KINDS.index(r.resource_type)

    async def preparer(key, spec):
        k = spec["k"]
        # (1) what did we receive?  every (re-)preparation must get the spec that was offered for this version
        if in_driver[0]:
            pristine[k] = offering[0]
        if spec != pristine.get(k):
            out.problems.append(("a (re-)preparation received a spec that differs from the one offered for the "
                                 "cached version", [k, jsonable_spec(spec), jsonable_spec(pristine.get(k))]))
        deps = list(spec["deps"])
        seen = [[d, gens[d]] for d in deps]
        gens[k] += 1
        if not in_driver[0]:
            out.reprepares += 1
        # (2) behave like koreo's real preparers (resource_function/prepare.py pops keys out of nested
        # overlay specs): consume the copy we were given, deeply
        spec["nest"]["consumed"].pop("skipIf", None)
        spec["nest"]["items"].append("seen-by-preparer")
        spec["nest"]["items"][0]["inputs"] = None
        spec.pop("nest")
        return ({"k": k, "seen": seen}, [res[d] for d in deps] or None)

    def check_cached_spec(i, c):
        if c is not None and c.spec != pristine.get(i):
            out.problems.append(("the spec kept in the cache entry is no longer the one that was offered",
                                 [i, jsonable_spec(c.spec), jsonable_spec(pristine.get(i))]))

    orig_notify = registry.notify_subscribers

    def logged_notify(notifier, event_time):
        s = registry._RESOURCE_SUBSCRIBERS.get(notifier)
        if s:
            out.ordtab.append((int(event_time), [idx(r) for r in s]))
        return orig_notify(notifier=notifier, event_time=event_time)

    def ev(e):
        if isinstance(e, registry.Kill):
            return None
        return [idx(e.resource), int(e.event_time)]

    def observe(loop):
        keys = []
        for i in range(n):
            r = res[i]
            c = cache.get_resource_system_data_from_cache(kind_of(i), names[i])
            check_cached_spec(i, c)
            q = registry._SUBSCRIPTION_QUEUES.get(r)
            if q is not None and q._unfinished_tasks != len(q._queue):
                out.problems.append(("harness: _unfinished_tasks differs from the number of queued items",
                                     [i, q._unfinished_tasks, len(q._queue)]))
            t = cache._REPREPARE_TASKS.get(r)
            p = cache._PREPARE_TIMES.get(r)
            keys.append({
                "cache": None if c is None else [int(c.resource_version), [list(x) for x in c.resource["seen"]]],
                "subs": sorted(idx(x) for x in registry._SUBSCRIBER_RESOURCES.get(r, ())),
                "rsubs": sorted(idx(x) for x in registry._RESOURCE_SUBSCRIBERS.get(r, ())),
                "queue": None if q is None else [[ev(e) for e in q._queue], bool(q._is_shutdown)],
                "task": None if t is None else bool(t.done()),
                "ptime": None if p is None else int(p),
            })
        return {"keys": keys, "gens": list(gens), "clock": clock.t, "nready": len(loop._ready)}

    def idle(loop):
        # nothing is scheduled: without a further operation nothing will ever run again
        return len(loop._ready) == 0

    async def main():
        loop = asyncio.get_running_loop()
        loop.set_exception_handler(
            lambda lp, context: out.problems.append(("the event loop logged an exception",
                                                     repr(context.get("exception") or context.get("message")))))
        me = asyncio.current_task()
        try:
            for op in hist["ops"]:
                try:
                    if op[0] == "offer":
                        _, k, v, deps = op
                        spec = make_spec(k, v, deps)
                        offering[0] = copy.deepcopy(spec)
                        await cache.prepare_and_cache(kind_of(k), preparer,
                                                      {"name": names[k], "resourceVersion": str(v)}, spec)
                    elif op[0] == "delete":
                        k = op[1]
                        had = cache.get_resource_from_cache(kind_of(k), names[k]) is not None
                        if had:
                            gens[k] += 1
                        await cache.delete_from_cache(kind_of(k), names[k])
                    else:
                        in_driver[0] = False
                        await asyncio.sleep(0)
                        in_driver[0] = True
                except Exception as e:  # nothing may escape an operation
                    out.problems.append((f"{op[0]} raises {type(e).__name__}", repr(e)))
                    return
                out.completed += 1
                if observe_each:
                    out.trace.append(observe(loop))
            # ---- oracle: drive to idle, then look
            bound = 2 * n + IDLE_BOUND_SLACK
            turns = 0
            in_driver[0] = False
            while not idle(loop) and turns < bound:
                await asyncio.sleep(0)
                turns += 1
            if not idle(loop):
                out.problems.append(("the system is not idle after the bounded number of loop turns", turns))
                return
            out.idle_after = turns
            await asyncio.sleep(0)      # a turn on an idle system must do nothing
            await asyncio.sleep(0)
            final = observe(loop)
            for i in range(n):
                o = final["keys"][i]
                if o["cache"] is not None:
                    _, seen = o["cache"]
                    declared = [d for d, _ in seen]
                    for d, g in seen:
                        if g != gens[d]:
                            out.problems.append(("stale at idle: a cached entry was built from an old generation "
                                                 "of a declared dependency", [i, d, g, gens[d]]))
                    if o["subs"] != sorted(set(declared)):
                        out.problems.append(("a cached entry's subscriptions differ from its declared dependencies",
                                             [i, o["subs"], declared]))
                    if declared and (o["task"] is None or o["task"]):
                        out.problems.append(("a cached entry with dependencies has no live re-prepare task",
                                             [i, o["task"]]))
                    if declared and o["queue"] is None:
                        out.problems.append(("a cached entry with dependencies has no registered queue", [i]))
                else:
                    if o["task"] is not None:
                        out.problems.append(("a resource that is not cached still has a re-prepare task", [i]))
                    if o["queue"] is not None:
                        out.problems.append(("a resource that is not cached still has a registered queue", [i]))
                    if o["subs"]:
                        out.problems.append(("a resource that is not cached still has subscriptions", [i, o["subs"]]))
            live = {t for t in asyncio.all_tasks() if t is not me and not t.done()}
            current = set(cache._REPREPARE_TASKS.values())
            if live - current:
                out.problems.append(("a monitor task that is nobody's re-preparer is still pending at idle",
                                     sorted(t.get_name() for t in live - current)))
        finally:
            # cleaning up is not part of the history: whatever it provokes is ignored
            loop.set_exception_handler(lambda lp, context: None)
            for t in list(cache._REPREPARE_TASKS.values()):
                t.cancel()
            for t in asyncio.all_tasks():
                if t is not me:
                    t.cancel()
            cache._reset_cache()
            cache._REPREPARE_TASKS.clear()
            cache._PREPARE_TIMES.clear()
            for _ in range(3):
                await asyncio.sleep(0)

    saved = (cache.time, registry.time, registry.notify_subscribers)
    cache.time = clock
    registry.time = clock
    registry.notify_subscribers = logged_notify
    try:
        asyncio.run(main())
    finally:
        cache.time, registry.time, registry.notify_subscribers = saved
        try:
            cache._REPREPARE_TASKS.clear()
            cache._PREPARE_TIMES.clear()
            registry._reset_registries()
        except Exception:
            pass
    return out


# ---------------------------------------------------------------------------------------------
# Gallina
# ---------------------------------------------------------------------------------------------

def c_op(op):
    if op[0] == "offer":
        return f"(Offer {cnat(op[1])} {cnat(op[2])} {clist(op[3], cnat)})"
    if op[0] == "delete":
        return f"(Delete {cnat(op[1])})"
    return "Yield"


def c_event(e):
    return "EKill" if e is None else f"(ERes {cnat(e[0])} {cnat(e[1])})"


def c_key(o):
    cache = copt(o["cache"], lambda c: cpair(cnat(c[0]), clist(c[1], lambda p: cpair(cnat(p[0]), cnat(p[1])))))
    queue = copt(o["queue"], lambda q: cpair(clist(q[0], c_event), cbool(q[1])))
    return (f"(KO {cache} {clist(o['subs'], cnat)} {clist(o['rsubs'], cnat)} {queue} "
            f"{copt(o['task'], cbool)} {copt(o['ptime'], cnat)})")


def c_obs(o):
    return f"(SO {clist(o['keys'], c_key)} {clist(o['gens'], cnat)} {cnat(o['clock'])} {cnat(o['nready'])})"


def to_coq(hist, r: Run):
    steps = [f"Step {c_op(op)} {c_obs(o)}" for op, o in zip(hist["ops"], r.trace)]
    tab = clist(r.ordtab, lambda e: cpair(cnat(e[0]), clist(e[1], cnat)))
    return f"CHist {tab} {clist(steps, lambda s: '(' + s + ')')}"


# ---------------------------------------------------------------------------------------------
# generators
# ---------------------------------------------------------------------------------------------

def rand_hashes(rng, n):
    # small distinct-ish hashes: the slot order of a Python set of tuples depends on them
    return [rng.randrange(1, 1 << 20) for _ in range(n)]


def rand_deps(rng, k, n):
    later = list(range(k + 1, n))
    m = rng.choice([0, 1, 1, 2, 2, 3])
    return sorted(rng.sample(later, min(m, len(later))))


def rand_base(rng, n, length, versions=None):
    """a history without yields"""
    ops = []
    ver = {k: 0 for k in range(n)}
    for _ in range(length):
        k = rng.randrange(n)
        r = rng.random()
        if r < 0.68:
            if rng.random() < 0.8 or ver[k] == 0:
                ver[k] += 1                    # new version -> prepare
                v = ver[k]
            else:
                v = rng.randint(max(1, ver[k] - 1), ver[k])   # old / same version again
            ops.append(["offer", k, v, rand_deps(rng, k, n)])
        else:
            ops.append(["delete", k])
    return ops


def with_yields(ops, ys):
    out = []
    for op, y in zip(ops, ys):
        out.append(op)
        out += [["yield"]] * y
    return out


def regression_bases():
    # offer D; offer R(deps=[D]); delete R; offer R; offer D(new version)   (R = 0, D = 1)
    yield [["offer", 1, 1, []], ["offer", 0, 1, [1]], ["delete", 0], ["offer", 0, 2, [1]], ["offer", 1, 2, []]]
    # same with a same-version re-offer of R (still a prepare: the entry was deleted)
    yield [["offer", 1, 1, []], ["offer", 0, 1, [1]], ["delete", 0], ["offer", 0, 1, [1]], ["offer", 1, 2, []]]
    # dependency offered late, deleted, offered again
    yield [["offer", 0, 1, [1]], ["offer", 1, 1, []], ["delete", 1], ["offer", 1, 1, []], ["delete", 1]]
    # chain 0 -> 1 -> 2 and a diamond 0 -> {1,2}, 1 -> 2
    yield [["offer", 2, 1, []], ["offer", 1, 1, [2]], ["offer", 0, 1, [1]], ["offer", 2, 2, []], ["delete", 1]]
    yield [["offer", 0, 1, [1, 2]], ["offer", 1, 1, [2]], ["offer", 2, 1, []], ["delete", 2], ["offer", 2, 2, []]]
    # dependencies dropped and declared again by a new version
    yield [["offer", 0, 1, [1]], ["offer", 0, 2, []], ["offer", 0, 3, [2]], ["offer", 2, 1, []], ["offer", 1, 1, []]]
    # delete twice / delete then offer without dependencies then with
    yield [["offer", 0, 1, [2]], ["delete", 0], ["delete", 0], ["offer", 0, 2, []], ["offer", 0, 3, [2]]]
    # two KINDS sharing a name (keys 0 and 1 are kind A / kind B of name r0): a dependency of one changes and
    # the other one is offered right away; nothing of the first may be keyed by the bare name
    yield [["offer", 2, 1, []], ["offer", 0, 1, [2]], ["offer", 2, 2, []], ["offer", 1, 1, []], ["offer", 2, 3, []]]
    yield [["offer", 3, 1, []], ["offer", 1, 1, [3]], ["offer", 0, 1, [3]], ["offer", 3, 2, []], ["delete", 0]]


def gen_histories(ctx: Ctx):
    rng = ctx.rng
    for c in corpus_cases("C16"):
        yield c, "corpus"
    # regression shapes: every placement of 0..3 yields after each op but the last
    for base in regression_bases():
        n = 1 + max(max([op[1]] + (op[3] if op[0] == "offer" else [])) for op in base)
        top = 3 if not ctx.quick() else 2
        for ys in itertools.product(range(top + 1), repeat=len(base) - 1):
            yield {"n": max(n, 3), "hashes": [1, 2, 3, 4], "ops": with_yields(base, list(ys) + [0])}, "regression"
    # random histories, random yields
    nrand = 1200 if ctx.quick() else 8000
    for _ in range(nrand):
        n = rng.choice([3, 4, 4])
        base = rand_base(rng, n, rng.randint(3, 12))
        ys = [rng.choice([0, 0, 1, 1, 2, 3]) for _ in base]
        yield {"n": n, "hashes": rand_hashes(rng, n), "ops": with_yields(base, ys)}, "random"
    # exhaustive placements on random short bases
    nbase = 6 if ctx.quick() else 60
    for _ in range(nbase):
        n = rng.choice([3, 4])
        base = rand_base(rng, n, 5 if not ctx.quick() else 4)
        hashes = rand_hashes(rng, n)
        for ys in itertools.product(range(4), repeat=len(base) - 1):
            yield {"n": n, "hashes": hashes, "ops": with_yields(base, list(ys) + [0])}, "placements"


# ---------------------------------------------------------------------------------------------
# oracle + bookkeeping
# ---------------------------------------------------------------------------------------------

def signature_of(problem):
    return problem[0]


def check_history(ctx: Ctx, hist, kind, cases, terms):
    r = run_history(hist)
    nops = sum(1 for o in hist["ops"] if o[0] != "yield")
    ctx.count(f"kind:{kind}")
    ctx.count(f"ops:{min(nops, 12)}")
    ctx.count("reprepares_by_monitor", r.reprepares)
    deletes_watched = any(o[0] == "delete" for o in hist["ops"])
    ctx.note_case(hist, nontrivial=(r.reprepares > 0 or deletes_watched) and nops >= 3)
    if r.idle_after is not None:
        ctx.count(f"idle_after:{r.idle_after}")
        if r.idle_after > hist["n"] + 2:      # C16_yield_progress_N says n+2 turns suffice
            ctx.count("idle_after_exceeds_n_plus_2")
            ctx.mismatch("progress bound of C16_yield_progress_N (idle within n+2 turns)", hist, r.idle_after)
    if r.problems:
        seen = set()
        for sig, detail in r.problems:
            if sig in seen:
                continue
            seen.add(sig)

            def still(ops, sig=sig):
                rr = run_history({"n": hist["n"], "hashes": hist.get("hashes"), "ops": ops}, observe_each=False)
                return any(s == sig for s, _ in rr.problems)
            small_ops = shrink_list(hist["ops"], still)
            small = {"n": hist["n"], "hashes": hist.get("hashes"), "ops": small_ops}
            rr = run_history(small, observe_each=False)
            ctx.fail(Failure(signature=sig, what=sig, case=small,
                             observed=[list(p) for p in rr.problems][:6],
                             expected="coherent at idle; watchers exactly for cached entries with dependencies; "
                                      "nothing raised or logged"))
    if r.completed == len(hist["ops"]) and len(r.trace) == len(hist["ops"]):
        cases.append(hist)
        terms.append(to_coq(hist, r))
    return r


# ---------------------------------------------------------------------------------------------
# oracle-only streams: preparation that is NOT instantaneous (the Coq model keeps its atomicity hypothesis;
# these streams are a direct oracle on the real code, there is no correspondence for them)
# ---------------------------------------------------------------------------------------------
#
# stream "slow": the sequential histories again, but a background RE-preparation takes time: the harness's
#   preparer, when it runs inside a re-prepare task, suspends spec["sb"] loop turns before and spec["sa"] turns
#   after looking its dependencies up in the real cache.  Offers and deletes arrive meanwhile.  "Built from" is
#   read from the cache itself: every prepared value carries a unique stamp and the stamps of the cached values
#   it looked up (None = not cached).
# stream "real": koreo's REAL prepare_workflow / prepare_value_function; Workflows, sub-Workflows and
#   ValueFunctions are offered / changed / deleted from concurrently started tasks with sleep(0) interleavings.
#   The real preparers are atomic today; a preparer that starts yielding in the middle is noticed here.
# Oracle of both: once nothing is scheduled any more, every cached definition holds exactly the objects that are
# in the cache now for everything it names, and what it names but is missing is reported by it (error step).

IDLE_TURNS = 400

# the three KNOWN FINDINGS (known_findings.d/C16.json): what happens when a FOREGROUND preparation (inside
# prepare_and_cache) suspends.  Emitted only by the three fixed corpus cases corpus/C16/NN-latent-race-*.json
# (hist["fg"] = the harness's preparer suspends on the offer path too, hist["latent"] = which race), and only
# for the staleness they are known for; anything else they do is an ordinary failure.
LATENT_SIG = {
    "a": "foreground-suspended first offer: the dependency is offered again before the dependent has subscribed; "
         "nobody is notified, the dependent stays stale (latent race a)",
    "c": "foreground-suspended re-offer of a subscribed dependent: the running monitor consumes the change event "
         "for the old entry, the offer completes with what it looked up before (latent race c)",
    "e": "dependent deleted while its re-offer is suspended: the offer caches and subscribes without a registered "
         "queue, a change of the dependency in the same turn is dropped (latent race e)",
}


def _install_clock():
    from koreo import cache, registry
    clock = Clock()
    saved = (cache.time, registry.time)
    cache.time = clock
    registry.time = clock
    return saved


def _restore_clock(saved):
    from koreo import cache, registry
    cache.time, registry.time = saved
    try:
        cache._REPREPARE_TASKS.clear()
        cache._PREPARE_TIMES.clear()
        registry._reset_registries()
    except Exception:
        pass


async def _cleanup(loop, me):
    from koreo import cache
    loop.set_exception_handler(lambda lp, context: None)
    for t in asyncio.all_tasks():
        if t is not me:
            t.cancel()
    cache._reset_cache()
    cache._REPREPARE_TASKS.clear()
    cache._PREPARE_TIMES.clear()
    for _ in range(4):
        await asyncio.sleep(0)


async def _drive_to_idle(loop, problems, spawned):
    turns = 0
    while (len(loop._ready) or any(not t.done() for t in spawned)) and turns < IDLE_TURNS:
        await asyncio.sleep(0)
        turns += 1
    if len(loop._ready) or any(not t.done() for t in spawned):
        problems.append(("the system is not idle after the bounded number of loop turns", turns))
        return False
    for t in spawned:
        if t.cancelled() or t.exception() is not None:
            problems.append((f"a concurrently started operation raises "
                             f"{'CancelledError' if t.cancelled() else type(t.exception()).__name__}", t.get_name()))
    await asyncio.sleep(0)
    await asyncio.sleep(0)
    return not len(loop._ready)


def run_slow(hist):
    """stream "slow": ops ["offer", k, v, deps, sb, sa] / ["delete", k] / ["yield"] / ["spawn", op] (create_task) /
    ["seq", [op, ...]] (several ops in one go); returns the problems.  hist["fg"] (corpus only): the preparer
    suspends on the offer path too."""
    from koreo import cache, registry
    n = hist["n"]
    hashes = hist.get("hashes") or list(range(n))
    name_objs = [mk_name(j, hashes[j]) for j in range((n + 1) // 2)]
    names = [name_objs[i // 2] for i in range(n)]
    res = [registry.Resource(resource_type=kind_of(i), name=names[i]) for i in range(n)]
    problems = []
    serial = itertools.count(1)
    pristine, offering = {}, [None]
    stats = {"slow_reprepares": 0}

    def cached_value(i):
        return cache.get_resource_from_cache(kind_of(i), names[i])

    def stamp_of(i):
        v = cached_value(i)
        return None if v is None else v["stamp"]

    async def preparer(key, spec):
        k = spec["k"]
        on_monitor = not asyncio.current_task().get_name().startswith("drv")
        if not on_monitor and not hist.get("fg"):
            pristine[k] = offering[0]
        if spec != pristine.get(k) and not hist.get("fg"):
            problems.append(("a (re-)preparation received a spec that differs from the one offered for the "
                             "cached version", [k]))
        sb, sa = (spec["sb"], spec["sa"]) if (on_monitor or hist.get("fg")) else (0, 0)
        if sb or sa:
            stats["slow_reprepares"] += 1
        for _ in range(sb):
            await asyncio.sleep(0)
        deps = list(spec["deps"])
        seen = [[d, stamp_of(d)] for d in deps]              # looked up in the real cache, now
        for _ in range(sa):
            await asyncio.sleep(0)
        spec["nest"]["consumed"].pop("skipIf", None)
        spec["nest"]["items"].append("seen-by-preparer")
        spec.pop("nest")
        return ({"k": k, "stamp": next(serial), "seen": seen}, [res[d] for d in deps] or None)

    async def main():
        loop = asyncio.get_running_loop()
        me = asyncio.current_task()
        me.set_name("drv-main")
        loop.set_exception_handler(
            lambda lp, context: problems.append(("the event loop logged an exception",
                                                 repr(context.get("exception") or context.get("message")))))
        try:
            async def do(op):
                if op[0] == "offer":
                    _, k, v, deps, sb, sa = op
                    spec = make_spec(k, v, deps)
                    spec["sb"], spec["sa"] = sb, sa
                    offering[0] = copy.deepcopy(spec)
                    if hist.get("fg"):
                        pristine[k] = offering[0]      # several offers may be in flight: do not judge specs here
                    await cache.prepare_and_cache(kind_of(k), preparer,
                                                  {"name": names[k], "resourceVersion": str(v)}, spec)
                elif op[0] == "delete":
                    await cache.delete_from_cache(kind_of(op[1]), names[op[1]])
                elif op[0] == "seq":
                    for o in op[1]:
                        await do(o)
                else:
                    await asyncio.sleep(0)

            spawned = []
            for i, op in enumerate(hist["ops"]):
                try:
                    if op[0] == "spawn":
                        spawned.append(asyncio.create_task(do(op[1]), name=f"drv-{i}"))
                    else:
                        await do(op)
                except Exception as e:
                    problems.append((f"{op[0]} raises {type(e).__name__}", repr(e)))
                    return
            if not await _drive_to_idle(loop, problems, spawned):
                return
            for i in range(n):
                r = res[i]
                c = cache.get_resource_system_data_from_cache(kind_of(i), names[i])
                t = cache._REPREPARE_TASKS.get(r)
                q = registry._SUBSCRIPTION_QUEUES.get(r)
                subs = sorted(2 * int(str.__str__(x.name)[1:]) + KINDS.index(x.resource_type)
                              for x in registry._SUBSCRIBER_RESOURCES.get(r, ()))
                if c is not None:
                    if c.spec != pristine.get(i) and not hist.get("fg"):
                        problems.append(("the spec kept in the cache entry is no longer the one that was offered", [i]))
                    declared = [d for d, _ in c.resource["seen"]]
                    for d, st in c.resource["seen"]:
                        if st != stamp_of(d):
                            problems.append((LATENT_SIG[hist["latent"]] if hist.get("latent") else
                                             "stale at idle (slow re-preparation): a cached entry was built from a "
                                             "value of a declared dependency that is not the cached one",
                                             [i, d, st, stamp_of(d)]))
                    if subs != sorted(set(declared)):
                        problems.append(("a cached entry's subscriptions differ from its declared dependencies",
                                         [i, subs, declared]))
                    if declared and (t is None or t.done()):
                        problems.append(("a cached entry with dependencies has no live re-prepare task", [i]))
                else:
                    if t is not None:
                        problems.append(("a resource that is not cached still has a re-prepare task", [i]))
                    if q is not None:
                        problems.append(("a resource that is not cached still has a registered queue", [i]))
                    if subs:
                        problems.append(("a resource that is not cached still has subscriptions", [i, subs]))
            live = {t for t in asyncio.all_tasks() if t is not me and not t.done()}
            if live - set(cache._REPREPARE_TASKS.values()):
                problems.append(("a monitor task that is nobody's re-preparer is still pending at idle", None))
        finally:
            await _cleanup(loop, me)

    saved = _install_clock()
    try:
        asyncio.run(main())
    finally:
        _restore_clock(saved)
    return problems, stats


# ---- stream "real" ---------------------------------------------------------------------------

FN_NAMES = ["fn-a", "fn-b", "fn-c"]
WF_NAMES = ["wf-x", "wf-y"]            # wf-y may use wf-x as a sub-workflow, never the other way round


def run_real(case):
    """ops: ["fn", name, version] | ["delfn", name] | ["wf", name, version, [[label, kind, ref], ...]] |
    ["delwf", name]; script steps: ["do", op] (awaited by the driver) | ["spawn", op] (create_task) | ["yield"]"""
    from koreo import cache
    from koreo.result import is_ok, is_unwrapped_ok
    from koreo.value_function.prepare import prepare_value_function
    from koreo.value_function.structure import ValueFunction
    from koreo.workflow.prepare import prepare_workflow
    from koreo.workflow.structure import Step, Workflow
    klass = {"ValueFunction": ValueFunction, "Workflow": Workflow}
    problems = []
    wf_steps = {}       # workflow name -> steps of the offer that is cached (by version)
    offered = {}        # (name, version) -> steps

    async def do(op):
        if op[0] == "fn":
            await cache.prepare_and_cache(ValueFunction, prepare_value_function,
                                          {"name": op[1], "resourceVersion": str(op[2])},
                                          {"return": {"value": op[2]}})
        elif op[0] == "delfn":
            await cache.delete_from_cache(ValueFunction, op[1])
        elif op[0] == "wf":
            offered[(op[1], str(op[2]))] = op[3]
            spec = {"steps": [{"label": lab, "ref": {"kind": kind, "name": ref}} for lab, kind, ref in op[3]]}
            await cache.prepare_and_cache(Workflow, prepare_workflow,
                                          {"name": op[1], "resourceVersion": str(op[2])}, spec)
        elif op[0] == "delwf":
            await cache.delete_from_cache(Workflow, op[1])

    async def main():
        loop = asyncio.get_running_loop()
        me = asyncio.current_task()
        me.set_name("drv-main")
        loop.set_exception_handler(
            lambda lp, context: problems.append(("the event loop logged an exception",
                                                 repr(context.get("exception") or context.get("message")))))
        spawned = []
        try:
            for i, st in enumerate(case["script"]):
                try:
                    if st[0] == "do":
                        await do(st[1])
                    elif st[0] == "spawn":
                        spawned.append(asyncio.create_task(do(st[1]), name=f"drv-{i}"))
                    else:
                        await asyncio.sleep(0)
                except Exception as e:
                    problems.append((f"{st[1][0]} raises {type(e).__name__}", repr(e)))
                    return
            if not await _drive_to_idle(loop, problems, spawned):
                return
            for name in WF_NAMES:
                entry = cache.get_resource_system_data_from_cache(Workflow, name)
                if entry is None:
                    continue
                wf = entry.resource
                steps = offered.get((name, entry.resource_version))
                if not is_unwrapped_ok(wf) or steps is None or len(wf.steps) != len(steps):
                    problems.append(("real preparers: a cached Workflow is not the prepared form of its offer",
                                     [name, repr(wf)[:200]]))
                    continue
                for step, (lab, kind, ref) in zip(wf.steps, steps):
                    current = cache.get_resource_from_cache(klass[kind], ref)
                    if current is None:
                        if isinstance(step, Step) or is_ok(wf.steps_ready):
                            problems.append(("real preparers, stale at idle: a cached Workflow still holds (or reports "
                                             "ready with) a definition that is no longer cached", [name, lab, kind, ref]))
                    elif not isinstance(step, Step):
                        problems.append(("real preparers, stale at idle: a cached Workflow has an error step for a "
                                         "definition that is cached", [name, lab, kind, ref]))
                    elif step.logic is not current:
                        problems.append(("real preparers, stale at idle: a cached Workflow holds a definition that is "
                                         "not the cached one", [name, lab, kind, ref]))
            live = {t for t in asyncio.all_tasks() if t is not me and not t.done()}
            if live - set(cache._REPREPARE_TASKS.values()):
                problems.append(("a monitor task that is nobody's re-preparer is still pending at idle", None))
        finally:
            await _cleanup(loop, me)

    saved = _install_clock()
    try:
        asyncio.run(main())
    finally:
        _restore_clock(saved)
    return problems


# ---- generators of the two streams -------------------------------------------------------------

def slow_bases():
    # the dependent's re-preparation is in flight (after it looked the dependency up) when the dependency
    # changes again / is deleted / the dependent itself is offered again or deleted
    for sb, sa in ((0, 2), (1, 1), (0, 3), (2, 0)):
        yield 3, [["offer", 2, 1, [], 0, 0], ["offer", 0, 1, [2], sb, sa], ["offer", 2, 2, [], 0, 0],
                  ["offer", 2, 3, [], 0, 0]]
        yield 3, [["offer", 2, 1, [], 0, 0], ["offer", 0, 1, [2], sb, sa], ["offer", 2, 2, [], 0, 0], ["delete", 2]]
        yield 3, [["offer", 2, 1, [], 0, 0], ["offer", 0, 1, [2], sb, sa], ["offer", 2, 2, [], 0, 0],
                  ["offer", 0, 2, [2], 0, 1]]
        yield 3, [["offer", 2, 1, [], 0, 0], ["offer", 0, 1, [2], sb, sa], ["offer", 2, 2, [], 0, 0], ["delete", 0],
                  ["offer", 0, 2, [2], 0, 0]]
        # a chain: both levels slow
        yield 4, [["offer", 3, 1, [], 0, 0], ["offer", 2, 1, [3], sb, sa], ["offer", 0, 1, [2], sa, sb],
                  ["offer", 3, 2, [], 0, 0], ["offer", 3, 3, [], 0, 0]]


def gen_slow(ctx: Ctx):
    rng = ctx.rng
    top = 3 if ctx.quick() else 4
    for n, base in slow_bases():
        for ys in itertools.product(range(top + 1), repeat=len(base) - 1):
            yield {"stream": "slow", "n": n, "hashes": [1, 2, 3, 4], "ops": with_yields(base, list(ys) + [0])}
    for _ in range(400 if ctx.quick() else 5000):
        n = rng.choice([3, 4, 4])
        base = rand_base(rng, n, rng.randint(3, 10))
        for op in base:
            if op[0] == "offer":
                op += [rng.choice([0, 0, 1, 2]), rng.choice([0, 1, 2, 3])]
        ys = [rng.choice([0, 1, 1, 2, 3, 5]) for _ in base]
        yield {"stream": "slow", "n": n, "hashes": rand_hashes(rng, n), "ops": with_yields(base, ys)}


def rand_wf_steps(rng, name):
    pool = [("ValueFunction", f) for f in FN_NAMES] + ([("Workflow", "wf-x")] if name == "wf-y" else [])
    k = rng.randint(1, 4)
    return [[f"step{i}", *rng.choice(pool)] for i in range(k)]


def real_bases():
    three = [["first", "ValueFunction", "fn-a"], ["second", "ValueFunction", "fn-b"], ["third", "ValueFunction", "fn-a"]]
    for change in (["fn", "fn-a", 2], ["delfn", "fn-a"], ["fn", "fn-b", 2], ["delfn", "fn-b"]):
        yield [["fn", "fn-a", 1], ["fn", "fn-b", 1], ["wf", "wf-x", 1, three], change]
        yield [["fn", "fn-a", 1], ["fn", "fn-b", 1], ["wf", "wf-x", 1, three], ["wf", "wf-x", 2, three[::-1]], change]
    yield [["fn", "fn-a", 1], ["wf", "wf-x", 1, three[:2]], ["wf", "wf-y", 1, [["sub", "Workflow", "wf-x"], ["own", "ValueFunction", "fn-a"]]],
           ["fn", "fn-b", 1], ["fn", "fn-a", 2]]


def gen_real(ctx: Ctx):
    rng = ctx.rng
    # every way of starting the last two operations (awaited / as a task) with 0..5 turns in between
    for base in real_bases():
        head, tail = base[:-2], base[-2:]
        for m1, m2 in itertools.product(("do", "spawn"), repeat=2):
            for gap in range(0, 6):
                script = [["do", op] for op in head] + [["yield"]] * 2
                script += [[m1, tail[0]]] + [["yield"]] * gap + [[m2, tail[1]]]
                yield {"stream": "real", "script": script}
    for _ in range(150 if ctx.quick() else 2500):
        ver = {}
        script = []
        for _ in range(rng.randint(3, 9)):
            r = rng.random()
            if r < 0.4:
                f = rng.choice(FN_NAMES)
                ver[f] = ver.get(f, 0) + 1
                op = ["fn", f, ver[f]]
            elif r < 0.55:
                op = ["delfn", rng.choice(FN_NAMES)]
            elif r < 0.9:
                w = rng.choice(WF_NAMES)
                ver[w] = ver.get(w, 0) + 1
                op = ["wf", w, ver[w], rand_wf_steps(rng, w)]
            else:
                op = ["delwf", rng.choice(WF_NAMES)]
            script.append([rng.choice(["do", "spawn", "spawn"]), op])
            script += [["yield"]] * rng.choice([0, 0, 1, 1, 2, 3])
        yield {"stream": "real", "script": script}


def run_stream(case):
    if case.get("stream") == "slow":
        return run_slow(case)[0]
    return run_real(case)


def check_stream(ctx: Ctx, case):
    stream = case["stream"]
    if stream == "slow":
        problems, stats = run_slow(case)
        ctx.count("slow:reprepares_that_suspend", stats["slow_reprepares"])
        ctx.note_case(case, nontrivial=stats["slow_reprepares"] > 0)
    else:
        problems = run_real(case)
        ctx.note_case(case, nontrivial=True)
    ctx.count(f"stream:{stream}")
    seen = set()
    for sig, detail in problems:
        if sig in seen:
            continue
        seen.add(sig)
        key = "ops" if stream == "slow" else "script"

        def still(xs, sig=sig):
            return any(s == sig for s, _ in run_stream(dict(case, **{key: xs})))
        small = case if case.get("latent") else dict(case, **{key: shrink_list(case[key], still)})
        ctx.fail(Failure(signature=sig, what=sig, case=small,
                         observed=[list(p) for p in run_stream(small)][:6],
                         expected="once nothing is scheduled, every cached definition holds the cached objects of "
                                  "everything it names; nothing raised or logged"))


def run(ctx: Ctx):
    cases, terms = [], []
    logging.disable(logging.CRITICAL)
    for hist, kind in gen_histories(ctx):
        if hist.get("stream"):
            check_stream(ctx, hist)
            continue
        check_history(ctx, hist, kind, cases, terms)
    for case in gen_slow(ctx):
        check_stream(ctx, case)
    for case in gen_real(ctx):
        check_stream(ctx, case)
    if ctx.model_ok:
        ctx.correspond("koreo.cache/registry + event loop vs Loop.step (state after every op)",
                       "Corr_C16", cases, terms)


def replay(ctx: Ctx, data):
    hist = data["case"] if "case" in data else data
    cases, terms = [], []
    if hist.get("stream"):
        check_stream(ctx, hist)
        return
    check_history(ctx, hist, "replay", cases, terms)
    if ctx.model_ok and cases:
        ctx.correspond("replay", "Corr_C16", cases, terms)
