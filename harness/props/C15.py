"""C15 — the version-keyed prepare cache (src/koreo/cache.py) vs model/Cache.v.

A case is a history of prepare_and_cache / delete_from_cache / delete_resource_from_cache /
get_resource_from_cache / get_resource_system_data_from_cache calls from the empty cache with a
scripted preparer.  After EVERY operation the harness reads the result, the whole __CACHE, the
clock and the preparer invocation log; the Coq model must predict all of it
(Corr_C15.check_case) and the property oracle (a plain dict, independent of the model) must hold.

C15/C16 boundary: the scripted preparer never declares dependencies (it returns `(value, None)`,
`(value, [])` or a non-Ok outcome), so no re-prepare task is ever started.
"""
from __future__ import annotations

import asyncio
import contextlib
import copy
import io
import itertools

from common import Ctx, Failure, cjson, cnat, copt, cstr, corpus_cases, shrink_list

COQ_TARGETS = ["props/P_C15.vo", "corr/Corr_C15.vo"]
PROOF_FILES = ["proofs/Cache_proofs.v"]
RULE = ("histories of offer(kind, metadata, spec) / delete(kind, name[, version]) / delete-by-metadata / lookup / "
        "system-data lookup over 4 kinds (two of them distinct classes sharing one class name) x 3 names x a pool of 3 versions (so versions go back and forth), with "
        "preparers that succeed, return PermFail/Retry/Skip/DepSkip outcomes or raise, malformed metadata, and "
        "version-guarded deletes naming current, stale and unknown versions: exhaustive short histories over a "
        "13-letter alphabet plus random histories of <= 30 ops; every prefix is compared; a history is non-trivial "
        "when some key is offered under >= 2 versions and something is deleted; distinct by content")
ASSUMPTIONS = [
    "model and correspondence: offers declare no dependencies (preparer returns (value, None), (value, []) or a non-Ok "
    "outcome): no re-prepare task exists, so cache entries change only through prepare_and_cache / delete_from_cache "
    "(C16 covers the rest); offers WITH dependencies and background re-prepares are judged by an oracle-only stream",
    "the preparer honours its contract: it returns a 2-tuple when its outcome is Ok (a bare Ok value cannot be unpacked)",
    "resource names and versions are non-empty strings (anything falsy is rejected with TypeError by _extract_meta)",
    "operations of one history run sequentially (each call is awaited before the next starts)",
]
TRUSTED = ["the cache contents are read through get_resource_system_data_from_cache for every (kind, name) of the "
           "universe and cross-checked against the key set of the module-private __CACHE; time.monotonic is replaced "
           "by a call counter"]

KINDS = 4
# names and versions are related by prefix / suffix / substring (numeric strings of different lengths, as real
# resourceVersions are), so that an implementation comparing them by containment or prefix is told apart from equality
NAMES = ["ab", "abc", "bc"]
ALL_VERSIONS = ["7", "17", "170", "99", "990", "1", "10"]
VERSIONS = ["17", "170", "7"]          # default pool; random histories draw their own 3-element pool


def fresh(s):
    """an equal but DISTINCT str object (for len >= 2; CPython shares 0/1-character strings)"""
    return (s + "\0")[:-1] if isinstance(s, str) else s


def fresh_json(v):
    """a structurally equal value sharing no str/list/dict object with `v`: the controller parses the metadata and
    spec of every event from its own JSON document"""
    import json
    return json.loads(json.dumps(v))


def universe(ops):
    """every (kind-independent) name a history mentions, plus the default names"""
    names = list(NAMES)
    for op in ops:
        n = None
        if op[0] in ("offer", "delres"):
            n = op[2].get("name")
        elif op[0] in ("delete", "lookup", "lookupsys"):
            n = op[2]
        if isinstance(n, str) and n and n not in names:
            names.append(n)
    return names
ERR_MODES = ["permfail", "retry", "skip", "depskip"]


class KA: ...


class KB: ...


def _same_name_kind():
    return type("Kind", (), {})


# kinds 0/1 have different class names; kinds 2/3 are DISTINCT classes that share __name__/__qualname__/__module__
# (the same class name defined twice, as happens across modules): a kind is the class object, not its name
KCLS = [KA, KB, _same_name_kind(), _same_name_kind()]
assert KCLS[2] is not KCLS[3] and KCLS[2].__qualname__ == KCLS[3].__qualname__


class Prepared:
    def __init__(self, n):
        self.n = n


class PrepBoom(Exception):
    pass


class _Clock:
    def __init__(self):
        self.calls = 0

    def monotonic(self):
        v = float(self.calls)
        self.calls += 1
        return v


def labels_ok(meta) -> bool:
    """does _extract_meta's label handling succeed on this metadata?"""
    from koreo.constants import ACTIVE_LABEL
    if "labels" not in meta:
        return True
    lab = meta["labels"]
    if not isinstance(lab, dict):
        return False
    return isinstance(lab.get(ACTIVE_LABEL, "true"), str)


class _RegClock:
    """koreo.registry's clock: the same time line as the cache's, without consuming ticks"""
    def __init__(self, clock):
        self.clock = clock

    def monotonic(self):
        return float(self.clock.calls)


class Runner:
    def __init__(self, names=None):
        self.names = list(names or NAMES)
        from koreo import cache, registry, result
        self.cache, self.result, self.registry = cache, result, registry
        cache._reset_cache()
        self.clock = _Clock()
        self._saved_time = cache.time
        self._saved_reg_time = registry.time
        cache.time = self.clock
        registry.time = _RegClock(self.clock)
        self.spec_given = []     # spec_given[n]: the spec the preparer's n-th invocation received
        self.background = []     # background[n]: the n-th invocation was made by a background re-preparer task
        self.log = []            # preparer invocations: [cls, name], oldest first
        self.made = {}           # id(object the preparer produced) -> ("ok"|"err", n)
        self.keep = []           # keep those objects alive so ids stay unique
        self.contract = None     # first violation of "preparer gets (name, equal but distinct copy of spec)"
        self.current_offer = None
        self.preparers = [self._mk_preparer(i) for i in range(KINDS)]

    def close(self):
        self.cache.time = self._saved_time
        self.registry.time = self._saved_reg_time
        self.cache._reset_cache()

    def _mk_preparer(self, cls):
        async def preparer(cache_key, spec):
            n = len(self.log)
            self.log.append([cls, cache_key])
            off = self.current_offer
            if off is not None:
                if spec != off["spec"] or spec is off["spec"]:
                    self.contract = self.contract or "preparer did not get an equal, distinct copy of the offered spec"
                if cache_key != off["name"]:
                    self.contract = self.contract or "preparer got a different name than the one offered"
            mode = spec.get("mode") if isinstance(spec, dict) else None
            self.spec_given.append(copy.deepcopy(spec))
            try:       # koreo.cache names its re-prepare monitor tasks "<Kind qualname>:<name>"
                tname = asyncio.current_task().get_name()
            except Exception:  # noqa: BLE001
                tname = ""
            self.background.append(tname == f"{KCLS[cls].__qualname__}:{cache_key}")
            deps = spec.get("deps") if isinstance(spec, dict) else None
            if isinstance(spec, dict) and spec.get("sleep"):
                for _ in range(spec["sleep"]):       # (concurrent streams) a preparer that suspends: other
                    await asyncio.sleep(0)           # operations and background tasks run meanwhile
            if isinstance(spec, dict):
                spec["scribble"] = n            # a preparer may mutate ITS copy (the tests' preparers do)
            R = self.result
            if mode == "raise":
                raise PrepBoom(str(n))
            if mode in ("ok", "ok_list"):
                obj = Prepared(n)
                self.made[id(obj)] = ("ok", n)
                self.keep.append(obj)
                if deps is not None:       # (dependency streams only) declare watched resources
                    return obj, [self.registry.Resource(resource_type=KCLS[c], name=fresh(nm)) for c, nm in deps]
                return obj, (None if mode == "ok" else [])
            obj = {"permfail": R.PermFail(message=str(n)), "retry": R.Retry(delay=5, message=str(n)),
                   "skip": R.Skip(message=str(n)), "depskip": R.DepSkip(message=str(n))}.get(mode) \
                or R.PermFail(message=str(n))
            self.made[id(obj)] = ("err", n)
            self.keep.append(obj)
            return obj
        return preparer

    def ident(self, obj):
        if obj is None:
            return ["none"]
        got = self.made.get(id(obj))
        return [got[0], got[1]] if got else ["other", repr(obj)[:40]]

    def entry(self, e):
        ver = e.resource_version
        if not isinstance(ver, str):          # the cache must be keyed by the resourceVersion STRING it was given
            ver = f"<{type(ver).__name__} {ver!r}>"
        return {"spec": e.spec, "value": self.ident(e.resource), "version": ver,
                "at": int(e.prepared_at), "sys": e.system_data}

    def observe(self):
        """The cache as the PUBLIC lookups show it for every (kind, name) of the universe, cross-checked against
        the module-private dict; anything unreadable or inconsistent there becomes an item the model cannot
        match (a correspondence mismatch), never a crash."""
        items = []
        for cls in range(KINDS):
            for name in self.names:
                try:
                    e = self.cache.get_resource_system_data_from_cache(KCLS[cls], fresh(name))
                    if e is None:
                        continue
                    d = self.entry(e)
                except Exception as ex:  # noqa: BLE001
                    d = {"spec": {"unreadable": type(ex).__name__}, "value": ["other", "?"], "version": "?",
                         "at": 0, "sys": None}
                d["cls"], d["name"] = cls, name
                items.append(d)
        problem = None
        try:
            raw = getattr(self.cache, "__CACHE")
            seen = set()
            for k in raw:
                kk = (KCLS.index(k.resource_type), k.name)       # registry.Resource(resource_type, name)
                seen.add(kk)
            if seen != {(d["cls"], d["name"]) for d in items}:
                problem = "keys of __CACHE differ from what the public lookups show"
        except Exception as ex:  # noqa: BLE001
            problem = f"__CACHE not readable as Resource(kind, name) -> entry: {type(ex).__name__}"
        if problem:
            items.append({"cls": 99, "name": "<internal>", "spec": {"problem": problem}, "value": ["other", "?"],
                          "version": "?", "at": 0, "sys": None})
        return {"items": copy.deepcopy(items), "clock": self.clock.calls, "log": [list(x) for x in self.log]}

    async def apply(self, op):
        c = self.cache
        k = op[0]
        try:
            if k == "offer":
                _, cls, meta, spec, sys = op
                self.current_offer = {"spec": copy.deepcopy(spec), "name": meta.get("name")}
                spec_arg = fresh_json(spec)
                try:
                    r = await c.prepare_and_cache(resource_class=KCLS[cls], preparer=self.preparers[cls],
                                                  metadata=fresh_json(meta), spec=spec_arg,
                                                  _system_data=fresh_json(sys))
                finally:
                    self.current_offer = None
                res = ["value"] + self.ident(r) if r is not None else ["none"]
            elif k == "delete":
                _, cls, name, ver = op
                r = await (c.delete_from_cache(KCLS[cls], fresh(name)) if ver is None
                           else c.delete_from_cache(KCLS[cls], fresh(name), version=fresh(ver)))
                res = ["none"] if r is None else ["other"]
            elif k == "delres":
                _, cls, meta = op
                r = await c.delete_resource_from_cache(KCLS[cls], fresh_json(meta))
                res = ["none"] if r is None else ["other"]
            elif k == "lookup":
                r = c.get_resource_from_cache(KCLS[op[1]], fresh(op[2]))
                res = ["value"] + self.ident(r) if r is not None else ["none"]
            elif k == "lookupsys":
                r = c.get_resource_system_data_from_cache(KCLS[op[1]], fresh(op[2]))
                res = ["entry", self.entry(r)] if r is not None else ["none"]
            elif k == "yield":               # (dependency streams only) let background re-preparers run
                for _ in range(op[1]):
                    await asyncio.sleep(0)
                res = ["none"]
            else:
                raise AssertionError(op)
        except AssertionError:
            raise
        except PrepBoom:
            res = ["raised", "PreparerError"]
        except Exception as e:  # noqa: BLE001 - the exception class is the observation
            res = ["raised", type(e).__name__]
        return res, self.observe()


def run_ops(ops, deps=False):
    """-> (trace [(op, result, obs)], runner-level contract violation or None, extra lookups per step, number of
    re-prepare tasks at the end, the specs the preparer invocations were given)"""
    async def go():
        r = Runner(universe(ops))
        try:
            out, looks = [], []
            for op in ops:
                res, obs = await r.apply(op)
                out.append((op, res, obs))
                # what the public lookups say about every key of the universe, after this op
                lk = {}
                for cls in range(KINDS):
                    for name in r.names:
                        v = r.cache.get_resource_from_cache(KCLS[cls], fresh(name))
                        sd = r.cache.get_resource_system_data_from_cache(KCLS[cls], fresh(name))
                        lk[(cls, name)] = (r.ident(v), None if sd is None else sd.resource_version)
                looks.append(lk)
            from koreo import cache as _c
            try:
                tasks = len(_c._REPREPARE_TASKS)
            except Exception:  # noqa: BLE001
                tasks = 0
            return out, r.contract, looks, tasks, list(r.spec_given)
        finally:
            r.close()
    if deps:     # a failing background re-preparer makes koreo.cache log an error and print(); keep the output clean
        import logging
        lg = logging.getLogger("koreo.cache")
        was = lg.disabled
        lg.disabled = True
        try:
            with contextlib.redirect_stdout(io.StringIO()):
                return asyncio.run(go())
        finally:
            lg.disabled = was
    return asyncio.run(go())


# ---- the property, directly (a plain dict) -----------------------------------------

def meta_valid(meta):
    return bool(meta.get("name")) and bool(meta.get("resourceVersion")) and labels_ok(meta)


def oracle(trace, contract, looks, tasks, spec_given=(), deps=False):
    """(signature, description, index) if the property fails somewhere in this history, else None.
    deps=True: preparers declare watched resources, so (a) an offer may raise SubscriptionCycle AFTER having
    prepared — only the cache contents afterwards are judged — and (b) background re-preparers may replace a
    result while the loop runs (`yield` ops): the replacement must have been prepared from the spec of the most
    recently offered version."""
    exp = {}            # key -> (version, value identity, offered spec)
    offered = {}        # key -> versions this key has been cached under so far
    ncalls = 0
    for i, ((op, res, obs), lk) in enumerate(zip(trace, looks)):
        k = op[0]
        new_calls = obs["log"][ncalls:]
        resync = None
        if k == "offer" and meta_valid(op[2]):
            key = (op[1], op[2]["name"])
            ver = op[2]["resourceVersion"]
            if key in exp and exp[key][0] == ver:
                if new_calls:
                    return ("offer same version: prepared again",
                            "an offer of the cached name+version called the preparer", i)
                if res != ["value"] + exp[key][1]:
                    return ("offer same version: not the cached result",
                            f"an offer of the cached name+version returned {res}, cached was {exp[key][1]}", i)
            else:
                if new_calls != [[key[0], key[1]]]:
                    return ("offer new version: not prepared exactly once",
                            f"an offer of a new version made preparer calls {new_calls}", i)
                mode = op[3].get("mode")
                if mode == "raise":
                    resync = key                 # outside the property: adopt whatever the cache now holds
                else:
                    made = ["ok" if mode in ("ok", "ok_list") else "err", ncalls]
                    if res[0] == "raised" and deps:
                        pass         # e.g. SubscriptionCycle while wiring the declared dependencies: acceptable;
                        #              the offered version was prepared, so it is what lookups must now show
                    elif res != ["value"] + made:
                        return ("offer new version: result is not what the preparer returned",
                                f"offer returned {res}, the preparer produced {made}", i)
                    exp[key] = (ver, made, op[3])
                    offered.setdefault(key, set()).add(ver)
        elif k == "offer":
            if new_calls and not (op[2].get("name") and op[2].get("resourceVersion")):
                return ("offer without name/version prepared", "the preparer ran for metadata without name/version", i)
        elif k == "delete":
            key = (op[1], op[2])
            ver = op[3]
            if new_calls:
                return ("delete prepared", "a delete called the preparer", i)
            if key in exp:
                if ver is None or ver == exp[key][0]:
                    del exp[key]
                elif ver == "" or ver not in offered.get(key, ()):
                    resync = key                 # "" names no version, and a version this key never had is not
                    #                              a *stale* one: either behaviour accepted
                # else: a stale version (one this key had before): the entry must stay (checked below)
        elif k == "delres":
            if new_calls:
                return ("delete prepared", "a delete called the preparer", i)
            meta = op[2]
            if meta.get("name"):
                key = (op[1], meta["name"])
                if key in exp:
                    if meta_valid(meta) and meta.get("resourceVersion") == exp[key][0]:
                        del exp[key]
                    else:
                        resync = key             # by-name vs version-aware vs rejected: all accepted
        elif k == "yield":
            pass                                 # background re-preparers may run here (judged through the lookups)
        elif new_calls:
            return ("lookup prepared", "a lookup called the preparer", i)
        ncalls = len(obs["log"])
        if resync is not None:
            got = lk[resync]
            if got[1] is None:
                exp.pop(resync, None)
            else:
                exp[resync] = (got[1], got[0], exp[resync][2] if resync in exp else None)
        # lookups return the result for the most recently offered version; deleted keys are gone
        for key, (ident, version) in lk.items():
            if key in exp:
                if (deps and version == exp[key][0] and ident != exp[key][1] and ident[0] in ("ok", "err")
                        and ident[1] < len(obs["log"]) and tuple(obs["log"][ident[1]]) == key):
                    # re-prepared in the background: fine if it was built from the latest offered spec
                    if exp[key][2] is not None and spec_given[ident[1]] != exp[key][2]:
                        return ("re-prepared result is not for the most recently offered version",
                                f"key {key} (version {version}) now holds a result prepared from spec "
                                f"{spec_given[ident[1]]}, the most recently offered version's spec is {exp[key][2]}", i)
                    exp[key] = (exp[key][0], ident, exp[key][2])
                    continue
                if version != exp[key][0] or ident != exp[key][1]:
                    what = "stale-version delete removed or changed" if k == "delete" and op[3] else "lookup differs from"
                    return (f"after {k}: {what} the latest offered version's result",
                            f"key {key}: cache says version {version} value {ident}, the history says {exp[key]}", i)
            elif version is not None or ident != ["none"]:
                return (f"after {k}: entry present that the history does not have",
                        f"key {key}: cache says version {version} value {ident}, the history says absent", i)
        # the lookup operations themselves
        if k == "lookup":
            key = (op[1], op[2])
            want = ["value"] + exp[key][1] if key in exp else ["none"]
            if res != want:
                return ("lookup result", f"get_resource_from_cache returned {res}, expected {want}", i)
        if k == "lookupsys":
            key = (op[1], op[2])
            if (res[0] == "none") != (key not in exp) or (key in exp and (
                    res[1]["version"] != exp[key][0] or res[1]["value"] != exp[key][1])):
                return ("system-data lookup result", f"get_resource_system_data_from_cache returned {res}", i)
    # (`contract`: whether the preparer got the offered name and an equal, distinct copy of the spec is
    #  not part of the property; a difference shows up in the correspondence through the cached spec)
    return None


# ---- Gallina ----------------------------------------------------------------

def c_meta(meta):
    name, ver = meta.get("name"), meta.get("resourceVersion")
    return f"(Meta {copt(name, cstr)} {copt(ver, cstr)} {'true' if labels_ok(meta) else 'false'})"


def c_value(v):
    if v[0] == "ok":
        return f"(VOk {v[1]})"
    if v[0] == "err":
        return f"(VErr {v[1]})"
    return "(VErr 99)"          # an object the preparer never made: matches nothing


def c_op(op):
    k = op[0]
    if k == "offer":
        return f"(Offer {op[1]} {c_meta(op[2])} {cjson(op[3])} {copt(op[4], cjson)})"
    if k == "delete":
        return f"(Delete {op[1]} {cstr(op[2])} {copt(op[3], cstr)})"
    if k == "delres":
        return f"(DeleteRes {op[1]} {c_meta(op[2])})"
    if k == "lookup":
        return f"(Lookup {op[1]} {cstr(op[2])})"
    if k == "lookupsys":
        return f"(LookupSys {op[1]} {cstr(op[2])})"
    raise ValueError(op)


def c_res(res):
    k = res[0]
    if k == "none":
        return "RNone"
    if k == "value":
        return f"(RValue {c_value(res[1:])})"
    if k == "entry":
        e = res[1]
        return (f"(REntry (Entry {cjson(e['spec'])} {c_value(e['value'])} {cstr(e['version'])} "
                f"{e['at']} {copt(e['sys'], cjson)}))")
    if k == "raised":
        x = res[1] if res[1] in ("TypeError", "AttributeError", "PreparerError") else "OtherExn"
        return f"(Raised {x})"
    return "(Raised OtherExn)"


def c_obs(o, prev):
    """the observation as a delta against the previous one (see Corr_C15.so)"""
    before = {(d["cls"], d["name"]): d for d in prev["items"]}
    changed = [d for d in o["items"] if before.get((d["cls"], d["name"])) != d]
    items = "[" + "; ".join(
        f"EO {d['cls']} {cstr(d['name'])} {cjson(d['spec'])} {c_value(d['value'])} {cstr(d['version'])} "
        f"{d['at']} {copt(d['sys'], cjson)}" for d in changed) + "]"
    keys = "[" + "; ".join(f"({cnat(d['cls'])}, {cstr(d['name'])})" for d in o["items"]) + "]"
    new = o["log"][len(prev["log"]):]
    log = "[" + "; ".join(f"({cnat(c)}, {cstr(n)})" for c, n in new) + "]"
    return f"(SO {items} {keys} {o['clock']} {len(o['log'])} {log})"


EMPTY_OBS = {"items": [], "clock": 0, "log": []}


def to_coq(trace):
    out, prev = [], EMPTY_OBS
    for op, res, obs in trace:
        out.append(f"Step {c_op(op)} {c_res(res)} {c_obs(obs, prev)}")
        prev = obs
    return "(CHist [" + ";\n ".join(out) + "])"


# ---- generators --------------------------------------------------------------

def meta(name, ver, **extra):
    m = {"name": name, "resourceVersion": ver}
    m.update(extra)
    return m


def kmeta(name, ver):
    """full Kubernetes-style metadata; the generation stays 1 while the resourceVersion moves (as after a label edit)"""
    return meta(name, ver, namespace="default", uid="0b5f3c1e-8a45-4d0b-9c57-1f1f4a1f9a10", generation=1,
                creationTimestamp="2025-01-17T08:30:12Z", labels={"app.kubernetes.io/name": "x"}, annotations={})


def alphabet():
    return [
        ["offer", 0, kmeta("ab", "17"), {"mode": "ok"}, None],
        ["offer", 0, kmeta("ab", "170"), {"mode": "permfail"}, {"owner": "x"}],
        ["offer", 0, meta("ab", "17"), {"mode": "retry", "n": 1}, None],
        ["offer", 0, meta("abc", "17"), {"mode": "ok_list"}, None],
        ["offer", 1, meta("ab", "170"), {"mode": "raise"}, None],
        ["delete", 0, "ab", None],
        ["delete", 0, "ab", "17"],
        ["delete", 0, "ab", "170"],
        ["delres", 0, kmeta("ab", "17")],
        ["lookupsys", 0, "ab"],
        ["offer", 2, meta("ab", "17"), {"mode": "ok"}, None],         # kinds 2 and 3: distinct classes, same class name
        ["offer", 3, meta("ab", "17"), {"mode": "ok"}, None],
        ["delete", 3, "ab", None],
    ]


def k8s_extras(rng, m, gen=None):
    """Dress `m` up as real Kubernetes object metadata.  None of these fields may influence the cache: only
    name and resourceVersion do.  `gen`: the generation to use (None = leave it out)."""
    if rng.random() < 0.6:
        m["namespace"] = rng.choice(["default", "ns", "koreo-system"])
    if rng.random() < 0.6:
        m["uid"] = rng.choice(["0b5f3c1e-8a45-4d0b-9c57-1f1f4a1f9a10", "7d9c2a60-21aa-4c3e-b1a2-5e0d7a9e1c33"])
    if gen is not None:
        m["generation"] = gen
    if rng.random() < 0.5:
        m["creationTimestamp"] = rng.choice(["2024-05-01T10:00:00Z", "2025-01-17T08:30:12Z"])
    if rng.random() < 0.4:
        m["annotations"] = rng.choice([{}, {"kubectl.kubernetes.io/last-applied-configuration": "{}"},
                                       {"koreo.dev/note": "17"}])
    if rng.random() < 0.3:
        m["managedFields"] = [{"manager": "kubectl", "operation": "Apply", "apiVersion": "koreo.dev/v1beta1",
                               "time": "2025-01-17T08:30:12Z", "fieldsType": "FieldsV1",
                               "fieldsV1": {"f:spec": {}}}]
    if rng.random() < 0.2:
        m["finalizers"] = ["koreo.dev/cleanup"]
    if rng.random() < 0.2:
        m["ownerReferences"] = [{"apiVersion": "v1", "kind": "ConfigMap", "name": "owner", "uid": "u-1"}]
    return m


class Generations:
    """how an object's metadata.generation evolves from event to event, per (kind, name): absent, constant
    (label / annotation / status updates bump only resourceVersion), increasing, or restarting at 1 (delete and
    re-create)"""

    def __init__(self, rng):
        self.rng, self.mode, self.last = rng, {}, {}

    def next(self, key):
        mode = self.mode.setdefault(key, self.rng.choice(["absent", "const", "const", "inc", "restart", "mixed"]))
        if mode == "absent":
            return None
        last = self.last.get(key, 0)
        if mode == "const":
            g = last or self.rng.choice([1, 1, 3])
        elif mode == "inc":
            g = last + 1
        elif mode == "restart":
            g = 1
        else:
            g = self.rng.choice([None, max(last, 1), last + 1, 1])
        if g is not None:
            self.last[key] = g
        return g


def rand_meta(rng, name, ver, gen=None):
    x = rng.random()
    from koreo.constants import ACTIVE_LABEL
    if x < 0.80:
        m = meta(name, ver)
        if rng.random() < 0.3:
            m["labels"] = rng.choice([{}, {ACTIVE_LABEL: "false"}, {"other": "x"}, {ACTIVE_LABEL: "TRUE"},
                                      {"app.kubernetes.io/name": "x", ACTIVE_LABEL: "true"}])
        return k8s_extras(rng, m, gen)
    if x < 0.84:
        return {"resourceVersion": ver}
    if x < 0.88:
        return {"name": name}
    if x < 0.91:
        return meta("", ver)
    if x < 0.94:
        return meta(name, "")
    if x < 0.96:
        return meta(name, None)
    return meta(name, ver, labels=rng.choice([None, [], "x", {ACTIVE_LABEL: 5}, {ACTIVE_LABEL: None}]))


def rand_spec(rng):
    mode = rng.choice(["ok"] * 6 + ["ok_list"] + ERR_MODES + ["raise"])
    spec = {"mode": mode}
    if rng.random() < 0.5:
        spec["n"] = rng.randrange(3)
    if rng.random() < 0.2:
        spec["nested"] = {"l": [1, {"x": None}], "s": "v"}
    return spec


def rand_history(rng, length, nkeys):
    names = NAMES[:nkeys]
    vers = rng.sample(ALL_VERSIONS, 3)      # a small pool, so versions repeat and go back and forth
    gens = Generations(rng)
    ops = []
    offered = {}                       # key -> versions offered so far (generator-side, for targeted deletes)
    for _ in range(length):
        cls = rng.choice([0, 0, 0, 0, 1, 1, 2, 2, 3, 3])
        name = rng.choice(names)
        x = rng.random()
        if ops and rng.random() < 0.1:
            ops.append(copy.deepcopy(rng.choice(ops[-3:])))      # repeat a recent operation verbatim
            continue
        if x < 0.55:
            ver = rng.choice(vers)
            sys = rng.choice([None, None, {"owner": name}, {}])
            ops.append(["offer", cls, rand_meta(rng, name, ver, gens.next((cls, name))), rand_spec(rng), sys])
            offered.setdefault((cls, name), []).append(ver)
        elif x < 0.72:
            seen = offered.get((cls, name), [])
            y = rng.random()
            if y < 0.35:
                ver = None
            elif y < 0.60 and seen:
                ver = seen[-1]                                   # most likely the current version
            elif y < 0.85 and len(seen) > 1:
                ver = rng.choice(seen[:-1])                      # most likely a stale version
            elif y < 0.95:
                ver = rng.choice(vers + ["9", "70"])
            else:
                ver = ""
            ops.append(["delete", cls, name, ver])
        elif x < 0.80:
            ops.append(["delres", cls, rand_meta(rng, name, rng.choice(vers), gens.next((cls, name)))])
        elif x < 0.92:
            ops.append(["lookup", cls, name])
        else:
            ops.append(["lookupsys", cls, name])
    return ops


# ---- one case ------------------------------------------------------------------

def nontrivial(trace):
    vers = {}
    for op, res, _ in trace:
        if op[0] == "offer" and res[0] == "value":
            vers.setdefault((op[1], op[2].get("name")), set()).add(op[2].get("resourceVersion"))
    return any(len(v) >= 2 for v in vers.values()) and any(op[0] in ("delete", "delres") for op, _, _ in trace)


def handle(ctx: Ctx, ops, cases, terms, bucket):
    trace, contract, looks, tasks, given = run_ops(ops)
    bad = oracle(trace, contract, looks, tasks, given)
    if tasks:
        ctx.fail(Failure(signature="harness: re-prepare task started", what="a re-prepare task exists although no "
                         "dependencies were declared (outside the C15 scope)", case={"ops": ops}))
    if bad:
        sig = bad[0]
        seen = ctx.__dict__.setdefault("_c15_sigs", {})
        seen[sig] = seen.get(sig, 0) + 1
        if seen[sig] == 1:
            def still(xs):
                b = oracle(*run_ops(xs))
                return bool(b) and b[0] == sig
            small = shrink_list(ops[:bad[2] + 1], still)
            tr = run_ops(small)[0]
            ctx.fail(Failure(signature=sig, what=bad[1], case={"ops": small},
                             observed=[[op, res] for op, res, _ in tr][-6:]))
        else:
            ctx.fail(Failure(signature=sig, what=bad[1], case={"ops": ops}))
    ctx.note_case({"ops": ops}, nontrivial=nontrivial(trace))
    ctx.count(f"hist:{bucket}")
    ctx.count("ops", len(trace))
    for op, res, _ in trace:
        ctx.count("op:" + op[0])
        if op[0] == "offer":
            ctx.count("offer:" + res[0] + (":" + res[1] if res[0] in ("value", "raised") else ""))
    cases.append({"ops": ops})
    terms.append(to_coq(trace))


# ---- concurrent operations (oracle only) ----------------------------------------------

def run_concurrent(case):
    """`setup` ops run one after the other; then every `[delay, op]` of `round` is started as its own task after
    `delay` loop turns, so that operations (and the background re-preparers, whose preparers suspend for
    spec["sleep"] turns) overlap.  Returns the invocation order of starts/finishes, the final public lookups and
    the specs the preparer invocations were given."""
    import vloop

    async def go():
        ops_all = list(case["setup"]) + [op for _, op in case["round"]]
        r = Runner(universe(ops_all))
        try:
            for op in case["setup"]:
                await r.apply(op)
            seq = [0]
            events = [None] * len(case["round"])

            async def launch(i, delay, op):
                for _ in range(delay):
                    await asyncio.sleep(0)
                seq[0] += 1
                start = seq[0]
                res, _ = await r.apply(op)
                seq[0] += 1
                events[i] = (start, seq[0], res)

            try:
                await asyncio.gather(*[launch(i, d, op) for i, (d, op) in enumerate(case["round"])])
                for _ in range(60):                     # let every background re-preparer finish
                    await asyncio.sleep(0)
                final = {}
                for cls in range(KINDS):
                    for name in r.names:
                        sd = r.cache.get_resource_system_data_from_cache(KCLS[cls], fresh(name))
                        if sd is not None:
                            final[(cls, name)] = (sd.resource_version, r.ident(sd.resource))
            finally:
                pass
            return events, final, list(r.spec_given), [list(x) for x in r.log], list(r.background)
        finally:
            r.close()

    import logging
    lg = logging.getLogger("koreo.cache")
    was, lg.disabled = lg.disabled, True
    try:
        with contextlib.redirect_stdout(io.StringIO()):
            return vloop.run(go())[0]
    finally:
        lg.disabled = was


def ref_apply(state, op):
    """the plain-map specification (key -> (version, offered spec)) for one operation of a concurrent stream"""
    k = op[0]
    if k == "offer":
        key, ver = (op[1], op[2]["name"]), op[2]["resourceVersion"]
        if not (key in state and state[key][0] == ver):
            state[key] = (ver, op[3])
    elif k == "delete":
        key = (op[1], op[2])
        if key in state and (op[3] is None or op[3] == state[key][0]):
            del state[key]


def strip_spec(spec):
    return {k: v for k, v in spec.items() if k != "scribble"} if isinstance(spec, dict) else spec


def oracle_concurrent(case, events, final, spec_given, log, background=()):
    """The final cache contents must be what SOME sequential order of the round's operations gives, among the
    orders that respect real time (an operation that finished before another started comes first).  Compared per
    key: present?, version, and the spec the cached result was prepared from."""
    base = {}
    for op in case["setup"]:
        ref_apply(base, op)
    n = len(case["round"])
    allowed = []
    for perm in itertools.permutations(range(n)):
        pos = {i: p for p, i in enumerate(perm)}
        if any(events[i][1] < events[j][0] and pos[i] > pos[j] for i in range(n) for j in range(n) if i != j):
            continue
        st = dict(base)
        for i in perm:
            ref_apply(st, case["round"][i][1])
        if st not in allowed:
            allowed.append(st)
    seen = {}
    for key, (ver, ident) in final.items():
        spec = None
        if ident[0] in ("ok", "err") and ident[1] < len(spec_given) and tuple(log[ident[1]]) == key:
            spec = strip_spec(spec_given[ident[1]])
        seen[key] = (ver, spec)
    if seen in allowed:
        return None
    # which clause is hurt?  (only to name the failure; any difference is a failure)
    what = "final cache contents are not the outcome of any sequential order of the overlapping operations"
    sig = "concurrent: final state not sequentially explainable"
    for key in set(seen) | {k for st in allowed for k in st}:
        vers = {st[key][0] if key in st else None for st in allowed}
        got = seen[key][0] if key in seen else None
        if got not in vers:
            if got is None:
                sig = "concurrent: newer entry removed"
            elif None in vers and len(vers) == 1:
                sig = "concurrent: deleted entry came back"
            else:
                sig = "concurrent: entry holds a version no order explains"
            what = (f"key {key}: the cache ends with version {got}; every sequential order of the overlapping "
                    f"operations ends with {sorted(map(str, vers))}")
            break
    else:
        sig = "concurrent: result not prepared from the cached version's spec"
    # diagnostics only (no effect on the verdict): was the offending result stored by a background re-preparer?
    for key, (ver, ident) in final.items():
        if (key in seen and all(st.get(key) != seen[key] for st in allowed) and ident[0] in ("ok", "err")
                and ident[1] < len(background) and background[ident[1]]):
            what += f" [the result now cached for {key} was made by a background re-prepare]"
            break
    return (sig, what, {"final": {str(k): v for k, v in seen.items()},
                        "allowed": [{str(k): v for k, v in st.items()} for st in allowed]})


def handle_concurrent(ctx: Ctx, case, bucket):
    out = run_concurrent(case)
    bad = oracle_concurrent(case, *out)
    if bad:
        sig = bad[0]
        seen = ctx.__dict__.setdefault("_c15_sigs", {})
        seen[sig] = seen.get(sig, 0) + 1
        small = case
        if seen[sig] == 1:
            def still_round(xs):
                c = dict(case, round=xs)
                b = oracle_concurrent(c, *run_concurrent(c))
                return bool(b) and b[0] == sig
            small = dict(case, round=shrink_list(case["round"], still_round))

            def still_setup(xs):
                c = dict(small, setup=xs)
                b = oracle_concurrent(c, *run_concurrent(c))
                return bool(b) and b[0] == sig
            small = dict(small, setup=shrink_list(small["setup"], still_setup))
            bad = oracle_concurrent(small, *run_concurrent(small)) or bad
        ctx.fail(Failure(signature=sig, what=bad[1], case=small, observed=bad[2]))
    ctx.note_case(case, nontrivial=len(case["round"]) >= 2)
    ctx.count(f"hist:{bucket}")


def conc_case(delays, sleeps, dep_first=True, guarded=True, vers=("17", "170"), reoffer=True, delete=True):
    """a resource x that watches d; then, overlapping: d changes (x's re-preparer starts a suspending prepare),
    x is deleted naming its old version, and x is offered at a new version"""
    x, d = NAMES[0], NAMES[2]
    v1, v2 = vers
    setup = [["offer", 0, meta(d, v1), {"mode": "ok", "tag": 1}, None],
             ["offer", 0, meta(x, v1), {"mode": "ok", "tag": 2, "deps": [[0, d]], "sleep": sleeps[0]}, None],
             ["yield", 12]]
    rnd = [[delays[0], ["offer", 0, meta(d, v2), {"mode": "ok", "tag": 3}, None]]]
    if delete:       # (without re-offer: a delete during the suspended re-prepare must not be undone by it)
        rnd.append([delays[1], ["delete", 0, x, v1 if guarded else None]])
    if reoffer:      # (without delete: the re-prepare must not overwrite the newer offer)
        rnd.append([delays[2], ["offer", 0, meta(x, v2),
                                {"mode": "ok", "tag": 4, "deps": [[0, d]], "sleep": sleeps[1]}, None]])
    return {"conc": True, "setup": setup, "round": rnd}


def rand_conc_case(rng):
    names = NAMES
    vers = rng.sample(ALL_VERSIONS, 3)
    gens = Generations(rng)
    tag = [0]

    def offer(name, deps_ok=True):
        tag[0] += 1
        spec = {"mode": rng.choice(["ok", "ok", "ok", "permfail"]), "tag": tag[0], "sleep": rng.choice([0, 0, 1, 2, 4])}
        if deps_ok and name != names[2] and rng.random() < 0.7:
            spec["deps"] = [[0, names[2]]]            # only the last name is watched: no cycles in this stream
        return ["offer", 0, k8s_extras(rng, meta(name, rng.choice(vers)), gens.next((0, name))), spec, None]

    def anyop():
        name = rng.choice(names)
        x = rng.random()
        if x < 0.6:
            return offer(name)
        return ["delete", 0, name, rng.choice([None] + vers)]

    setup = [offer(n) for n in rng.sample(names, rng.choice([1, 2, 3]))] + [["yield", rng.choice([0, 3, 12])]]
    rnd = [[rng.choice([0, 0, 1, 2, 3, 5, 8]), anyop()] for _ in range(rng.choice([2, 3, 3, 4]))]
    return {"conc": True, "setup": setup, "round": rnd}


def handle_deps(ctx: Ctx, ops, bucket):
    """a history whose preparers declare watched resources: judged by the oracle only (the background
    re-prepare machinery is modelled by C16, not by Cache.v)"""
    bad = oracle(*run_ops(ops, deps=True), deps=True)
    if bad:
        sig = "deps: " + bad[0]
        seen = ctx.__dict__.setdefault("_c15_sigs", {})
        seen[sig] = seen.get(sig, 0) + 1
        small = ops
        if seen[sig] == 1:
            def still(xs):
                b = oracle(*run_ops(xs, deps=True), deps=True)
                return bool(b) and b[0] == bad[0]
            small = shrink_list(ops[:bad[2] + 1], still)
        tr = run_ops(small, deps=True)[0]
        ctx.fail(Failure(signature=sig, what=bad[1], case={"ops": small, "deps": True},
                         observed=[[op, res] for op, res, _ in tr][-6:]))
    ctx.note_case({"ops": ops, "deps": True}, nontrivial=any(o[0] == "offer" and o[3].get("deps") for o in ops))
    ctx.count(f"hist:{bucket}")
    for op in ops:
        ctx.count("deps-op:" + op[0])


def rand_deps_history(rng, length):
    """offers that declare dependencies (incl. ones closing a cycle between two cached resources), deletes,
    lookups, and `yield`s that let the background re-preparers run; every offered spec is unique (tag)"""
    names = NAMES[:rng.choice([2, 3])]
    vers = rng.sample(ALL_VERSIONS, 3)
    gens = Generations(rng)
    ops, tag = [], 0
    for _ in range(length):
        name = rng.choice(names)
        x = rng.random()
        if x < 0.55:
            tag += 1
            spec = {"mode": rng.choice(["ok", "ok", "ok", "ok", "permfail"]), "tag": tag}
            y = rng.random()
            if y < 0.75:
                others = [n for n in names if n != name]
                k = rng.choice([1, 1, 2])
                deps = rng.sample(others, min(k, len(others)))
                if rng.random() < 0.08:
                    deps.append(name)                        # self-subscription: a cycle of length 1
                spec["deps"] = [[0, d] for d in deps]
            elif y < 0.85:
                spec["deps"] = []
            ops.append(["offer", 0, k8s_extras(rng, meta(name, rng.choice(vers)), gens.next((0, name))), spec, None])
        elif x < 0.68:
            ops.append(["delete", 0, name, rng.choice([None, None] + vers)])
        elif x < 0.80:
            ops.append(["lookup", 0, name])
        else:
            ops.append(["yield", rng.choice([1, 2, 4, 6])])
    ops.append(["yield", 6])
    return ops


def run(ctx: Ctx):
    cases, terms = [], []
    for c in corpus_cases("C15"):
        if c.get("conc"):
            handle_concurrent(ctx, c, "corpus-concurrent")
        elif c.get("deps"):
            handle_deps(ctx, c["ops"], "corpus-deps")
        else:
            handle(ctx, c["ops"], cases, terms, "corpus")
    # concurrent operations (oracle only): overlapping offer / delete / dependency change
    grid = [0, 1, 2, 3, 5] if ctx.quick() else [0, 1, 2, 3, 4, 5, 7]
    for delays in itertools.product(grid, repeat=3):
        for sleeps in ([2, 1], [4, 0]) if ctx.quick() else ([2, 1], [4, 0], [1, 3], [6, 2]):
            handle_concurrent(ctx, conc_case(delays, sleeps, guarded=(sum(delays) % 4 != 3)), "concurrent-grid")
    for d0, d1 in itertools.product(grid + [8, 10], repeat=2):
        for sl in (2, 4, 6):
            handle_concurrent(ctx, conc_case([d0, d1, d1], [sl, 0], reoffer=False, guarded=(d1 % 2 == 0)),
                              "concurrent-delete-during-reprepare")
            handle_concurrent(ctx, conc_case([d0, d1, d1], [sl, 0], delete=False), "concurrent-offer-during-reprepare")
    for _ in range(400 if ctx.quick() else 6000):
        handle_concurrent(ctx, rand_conc_case(ctx.rng), "concurrent-random")
    # dependency streams (oracle only)
    for _ in range(600 if ctx.quick() else 8000):
        handle_deps(ctx, rand_deps_history(ctx.rng, ctx.rng.choice([4, 6, 9, 12])), "random-deps")
    alpha = alphabet()
    depth = 3 if ctx.quick() else 4
    for seq in itertools.product(alpha, repeat=depth):
        handle(ctx, [copy.deepcopy(o) for o in seq], cases, terms, f"exhaustive:len{depth}")
    nrand = 1200 if ctx.quick() else 25000
    for _ in range(nrand):
        length = ctx.rng.choice([4, 8, 15, 30, 30])
        ops = rand_history(ctx.rng, length, ctx.rng.choice([1, 2, 3]))
        handle(ctx, ops, cases, terms, "random")
    if ctx.model_ok:
        ctx.correspond("koreo.cache vs Cache.step, every prefix", "Corr_C15", cases, terms)


def replay(ctx: Ctx, data):
    case = data["case"] if "case" in data else data
    if case.get("conc"):
        bad = oracle_concurrent(case, *run_concurrent(case))
        if bad:
            ctx.fail(Failure(signature=bad[0], what=bad[1], case=case, observed=bad[2]))
        ctx.note_case(case, True)
        return
    deps = bool(case.get("deps"))
    trace, contract, looks, tasks, given = run_ops(case["ops"], deps=deps)
    bad = oracle(trace, contract, looks, tasks, given, deps=deps)
    if bad:
        ctx.fail(Failure(signature=("deps: " if deps else "") + bad[0], what=bad[1], case=case,
                         observed=[[op, res] for op, res, _ in trace][-6:]))
    ctx.note_case(case, True)
    if ctx.model_ok and not deps:
        ctx.correspond("replay", "Corr_C15", [case], [to_coq(trace)])
