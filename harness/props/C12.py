"""C12 — targets and returns are ordered deep merges; evaluation is pure.

Real code: koreo.cel.prepare (prepare_overlay_expression/_overlay_indexer),
koreo.cel.evaluation (evaluate_overlay/_overlay_applier), koreo.cel.functions._overlay,
koreo.value_function.reconcile.reconcile_value_function and the ResourceFunction helpers
_construct_resource_template/_materialize_from_overlays/_create_api_resource,
plus (level 3) the whole reconcile_resource_function against a 30-line in-memory API stub.
Model: coq/model/Overlay.v.
"""
from __future__ import annotations

import asyncio
import contextlib
import copy
import itertools
import json
import re
import logging

from common import Ctx, Failure, cjson, clist, copt, cpair, cstr, cnat, corpus_cases

COQ_TARGETS = ["props/P_C12.vo", "corr/Corr_C12.vo"]
PROOF_FILES = ["proofs/Overlay_proofs.v", "proofs/CrossModel_proofs.v", "proofs/DeepOverlay_sync.v"]


def pre_build():
    """regenerate coq/gen/DeepOverlay_gen.v from /repo's current cel/functions.py::_deep_overlay (fail-closed translator)"""
    import translate_overlay
    translate_overlay.main()


RULE = ("(base, overlay document, inputs) triples: overlay documents are generated RELATIVE to the base so that "
        "every key-overlap pattern occurs (new key, same key scalar/list/empty-map/computed-map over map, map over "
        "scalar/list/null, map over map to depth 5, keys with dots); all ordered overlay tree shapes up to a node bound "
        "are enumerated exhaustively with pairwise distinct leaf values (index arithmetic); leaves are static scalars or "
        "real Koreo expressions (=inputs.. / =locals.. / =resource..) whose value the harness controls; value-level "
        "overlay pairs; ValueFunctions with value_base None/empty/map; ResourceFunction pipelines (inline or cached "
        "template, <=4 inline/overlayRef overlays with skipIf absent/true/false/computed/non-bool, create.overlay) run "
        "through the real cache (prepare_and_cache), the real helpers and reconcile_resource_function with an in-memory API; "
        "flow stream: referenced ValueFunctions are offered again, koreo re-prepares the function from its cached spec, "
        "the target is materialised again with equal inputs; function streams: leaves that call every koreo CEL extension "
        "function (flatten, overlay, *_ref, split*, strip, to_json, ...) on nested lists/maps/strings TAKEN FROM "
        "inputs/locals/resource, at every level; sharing: in half of the cases equal sub-maps/lists of base and inputs are the "
        "same Python object, sub-maps are duplicated to other paths, and (alias stream) one map-valued expression fills 2-3 "
        "paths of a template/overlay/ValueFunction return before overlays reach into one of them; identity stream: cached "
        "templates that already carry apiConfig's identity, owned, 0-2 overlays; every ResourceFunction case ends with two "
        "monitored whole reconciles (create path) for two owners. "
        "non-trivial = the overlay shares at least one key with the base or has >=2 leaves; distinct by content")
ASSUMPTIONS = [
    "Python dicts have unique keys: bases, inputs and overlay documents are well-formed (wf / wf_doc) in every theorem",
    "leaf expressions are the mini language EConst | EPath root path; celpy evaluates '=root.a.b' to the member value and "
    "fails (-> PermFail) on an unbound root, a missing member or a member of a non-map (exercised by every case)",
    "a call of a koreo CEL extension function is an opaque computed value for the model: its value is what the real code "
    "gives the same expression evaluated on its own on private copies of the activation (deterministic); whether it "
    "modifies its arguments is NOT assumed but checked by the purity monitor",
    "static scalars reach the result unchanged (that is property C11; generators only use scalars on which the encoder is faithful)",
    "ValueFunctions have no preconditions (C13) ; a cached ResourceTemplate is ready (otherwise Retry, modelled)",
    "purity (no mutation of inputs/base/template/function, re-evaluation equal) is NOT a theorem: the Gallina model has no heap; "
    "it is checked on every case by a snapshot monitor and reported as a test",
]
TRUSTED = [
    "the purity clause of C12 is checked by testing only (deep-copy snapshots before/after each evaluation, evaluation repeated)",
    "in-memory API double (harness/cluster.py, or the plugin-local MiniApi stub as fallback) used for the reconcile_resource_function level",
    "harness/translate_overlay.py (Python-ast -> Gallina transcription of cel/functions._deep_overlay; conventions in its docstring: deepcopy = identity, no error objects among the values, explicit fuel)",
    "the re-prepare flow relies on koreo.cache's monitor tasks running on the harness event loop (asyncio.sleep(0) yields until the cached function object changes)",
]

# level 3 (whole reconcile_resource_function -> POST body): uses the shared harness/cluster.py when it can be
# imported (set by new_api()), the local MiniApi stub otherwise
RF_AVAILABLE = False

LAST_APPLIED = "koreo.dev/last-applied-configuration"   # documented constant, written by hand on purpose

logging.getLogger("koreo").setLevel(logging.CRITICAL)
for _n in ("Environment", "NameContainer", "Evaluator", "evaluation", "celtypes", "koreo.cel.evaluation"):
    logging.getLogger(_n).setLevel(logging.CRITICAL)


# ---------------------------------------------------------------------------
# documents: tagged form  ["c", scalar] | ["p", root, [seg..]] | ["l", [doc..]] | ["m", [[k, doc]..]]
# ---------------------------------------------------------------------------

# The documented exception of property C11, restated by hand exactly as harness/props/C11.py does (NOT imported from
# koreo): a value written STATICALLY into a definition that is a string in this grammar is delivered as that number.
NUMERAL = re.compile(r"-?[0-9]+(\.[0-9]+)?([eE][+-]?[0-9]+)?")
INT_NUMERAL = re.compile(r"-?[0-9]+")


def is_numeral(x) -> bool:
    return isinstance(x, str) and NUMERAL.fullmatch(x) is not None


def static_delivered(v):
    """what a value written statically into a spec (spec.locals, a constant leaf) is when koreo hands it on:
    itself, except that numeral strings are numbers.  The harness never means to test that conversion here (it is
    C11's subject): generators avoid such strings in everything they write statically, and every consumer of a
    statically written value (activation of the helper level, reference, Coq term) goes through this function so
    that a case from any source (corpus, replay) is still judged on the value koreo really delivers."""
    if is_numeral(v):
        return int(v) if INT_NUMERAL.fullmatch(v) else float(v)
    if isinstance(v, dict):
        return {k: static_delivered(x) for k, x in v.items()}
    if isinstance(v, list):
        return [static_delivered(x) for x in v]
    return v


def has_numeral_string(v) -> bool:
    if isinstance(v, dict):
        return any(has_numeral_string(x) for x in v.values())
    if isinstance(v, list):
        return any(has_numeral_string(x) for x in v)
    return is_numeral(v)


def is_ident(s: str) -> bool:
    return s.isascii() and s.isidentifier() and s not in RESERVED


RESERVED = {"true", "false", "null", "in", "as", "break", "const", "continue", "else", "for", "function", "if",
            "import", "let", "loop", "package", "namespace", "return", "var", "void", "while"}


def path_text(root, segs):
    out = root
    for s in segs:
        out += "." + s if is_ident(s) else '["' + s + '"]'
    return "=" + out


def fn_text(d):
    """["f", name, target_doc, [arg_doc..]]  ->  '=<target>.name(args)' : a call of one of koreo's CEL extension
    functions on a value TAKEN FROM the activation (target and args are path or constant leaves)"""
    def operand(x):
        return path_text(x[1], x[2])[1:] if x[0] == "p" else json.dumps(x[1])
    return "=" + operand(d[2]) + "." + d[1] + "(" + ", ".join(operand(a) for a in d[3]) + ")"


def to_spec(d):
    t = d[0]
    if t == "c":
        return d[1]
    if t == "p":
        return path_text(d[1], d[2])
    if t == "f":
        return fn_text(d)
    if t == "l":
        return [to_spec(x) for x in d[1]]
    return {k: to_spec(v) for k, v in d[1]}


def spec_of_pairs(pairs):
    return {k: to_spec(v) for k, v in pairs}


def c_expr(d):
    if d[0] == "c":
        return f"(EConst {cjson(static_delivered(d[1]))})"
    if d[0] == "f":
        # a function-call leaf is a COMPUTED value for the model: its value is the one koreo gives the same
        # expression when it is evaluated on its own, on private copies of the activation (resolve_fn)
        if len(d) > 4 and "v" in d[4]:
            return f"(EConst {cjson(d[4]['v'])})"
        return '(EPath "c12-undefined" [])'
    return f"(EPath {cstr(d[1])} {clist(d[2], cstr)})"


def c_doc(d):
    t = d[0]
    if t in ("c", "p", "f"):
        return f"(DLeaf {c_expr(d)})"
    if t == "l":
        return f"(DList {clist(d[1], c_doc)})"
    return f"(DMap {c_dkvs(d[1])})"


def c_dkvs(pairs):
    return clist(pairs, lambda kv: cpair(cstr(kv[0]), c_doc(kv[1])))


def c_kvs(m: dict):
    return clist(m.items(), lambda kv: cpair(cstr(kv[0]), cjson(kv[1])))


def c_index(i):
    if isinstance(i, int) and not isinstance(i, bool):
        return f"(IPos {cnat(i)})"
    return "(INode " + clist(i.items(), lambda kv: cpair(cstr(kv[0]), c_index(kv[1]))) + ")"


def c_obs(o):
    if o is None:
        return "ONone"
    if o[0] == "Done":
        return f"(ODone {cjson(o[1])})"
    if o[0] == "Raised":
        return f"(ORaised {cstr(o[1])})"
    return {"PermFail": "OPermFail", "Retry": "ORetry"}[o[0]]


# ---------------------------------------------------------------------------
# independent reference (oracle side): plain Python on plain JSON
# ---------------------------------------------------------------------------

class RefUndefined(Exception):
    """the reference cannot evaluate a leaf: the property makes no claim"""


def ref_path(env, root, segs):
    if root not in env:
        raise RefUndefined(root)
    v = env[root]
    for s in segs:
        if not isinstance(v, dict) or s not in v:
            raise RefUndefined(s)
        v = v[s]
    return v


def ref_eval(d, env):
    t = d[0]
    if t == "c":
        return static_delivered(d[1])
    if t == "f":
        if len(d) > 4 and "v" in d[4]:
            return copy.deepcopy(d[4]["v"])
        raise RefUndefined("function leaf")
    if t == "p":
        return copy.deepcopy(ref_path(env, d[1], d[2]))
    if t == "l":
        return [ref_eval(x, env) for x in d[1]]
    return {k: ref_eval(v, env) for k, v in d[1]}


def ref_merge(base, d, env):
    """deep merge of overlay document d over base: maps written in the overlay merge key by key,
    every other value (scalar, list, empty map, computed value) replaces."""
    if d[0] == "m" and d[1]:
        out = dict(base) if isinstance(base, dict) else {}
        for k, sub in d[1]:
            out[k] = ref_merge(base.get(k) if isinstance(base, dict) else None, sub, env)
        return out
    return ref_eval(d, env)


def ref_merge_val(base, ov, empty_replaces=False):
    """deep merge of two VALUES: two maps merge key by key, anything else replaces."""
    if isinstance(base, dict) and isinstance(ov, dict) and (ov or not empty_replaces):
        out = dict(base)
        for k, v in ov.items():
            out[k] = ref_merge_val(base[k], v, empty_replaces) if k in base else v
        return out
    return ov


def same(a, b) -> bool:
    """value equality as the property means it: containers structurally (dicts by key), numbers by
    value, but a bool is never equal to a number."""
    if isinstance(a, dict) or isinstance(b, dict):
        return (isinstance(a, dict) and isinstance(b, dict) and a.keys() == b.keys()
                and all(same(a[k], b[k]) for k in a))
    if isinstance(a, list) or isinstance(b, list):
        return (isinstance(a, list) and isinstance(b, list) and len(a) == len(b)
                and all(same(x, y) for x, y in zip(a, b)))
    if isinstance(a, bool) or isinstance(b, bool):
        return isinstance(a, bool) and isinstance(b, bool) and a == b
    if a is None or b is None:
        return a is None and b is None
    return type(a) in (int, float, str) and type(b) in (int, float, str) and a == b


# ---------------------------------------------------------------------------
# running the real code
# ---------------------------------------------------------------------------

class Real:
    """lazy imports + one event loop + one CEL environment"""

    def __init__(self):
        import celpy
        from celpy import celtypes
        from koreo import cache, registry, result
        from koreo.cel import evaluation, functions, prepare
        from koreo.cel.functions import koreo_function_annotations
        from koreo.resource_function import reconcile as rfr
        from koreo.resource_function.prepare import prepare_resource_function
        from koreo.resource_function.structure import ResourceFunction
        from koreo.resource_template.prepare import prepare_resource_template
        from koreo.resource_template.structure import ResourceTemplate
        from koreo.value_function.prepare import prepare_value_function
        from koreo.value_function.reconcile import reconcile_value_function
        from koreo.value_function.structure import ValueFunction
        self.__dict__.update(locals())
        self.env = celpy.Environment(annotations=koreo_function_annotations)
        self.loop = asyncio.new_event_loop()

    def run(self, coro):
        return self.loop.run_until_complete(coro)

    def cel(self, v, memo=None):
        """plain JSON -> CEL value.  With a `memo` (one per case), structurally equal non-empty maps / lists become
        the SAME Python object wherever they occur (in the base, in inputs, across both): value semantics cannot
        tell, code that updates a document in place can."""
        if memo is None:
            return self.celpy.json_to_cel(copy.deepcopy(v))
        ct = self.celtypes

        def conv(x):
            if isinstance(x, (dict, list)) and x:
                key = json.dumps(x, sort_keys=True)
                if key not in memo:
                    memo[key] = (ct.MapType({ct.StringType(k): conv(y) for k, y in x.items()}) if isinstance(x, dict)
                                 else ct.ListType([conv(y) for y in x]))
                return memo[key]
            return self.celpy.json_to_cel(copy.deepcopy(x))
        return conv(v)

    def reset(self):
        self.cache._reset_cache()
        self.registry._reset_registries()
        self.run(self._settle())          # let cancelled re-prepare monitors finish

    @staticmethod
    async def _settle():
        for _ in range(3):
            await asyncio.sleep(0)

    def close(self):
        try:
            self.reset()
        finally:
            self.loop.close()


_REAL = None


def real() -> Real:
    global _REAL
    if _REAL is None:
        _REAL = Real()
    return _REAL


def plain(v):
    """celtypes / python value -> plain JSON value (own converter, not koreo's convert_bools)."""
    from celpy import celtypes
    if v is None:
        return None
    if isinstance(v, celtypes.BoolType):
        return bool(v)
    if isinstance(v, bool):
        return v
    if isinstance(v, dict):
        return {str(k): plain(x) for k, x in v.items()}
    if isinstance(v, (list, tuple)):
        return [plain(x) for x in v]
    if isinstance(v, str):
        return str(v)
    if isinstance(v, int):
        return int(v)
    if isinstance(v, float):
        return float(v)
    if isinstance(v, celtypes.NullType if hasattr(celtypes, "NullType") else ()):
        return None
    raise TypeError(f"unexpected value in a result: {type(v)}")


def outcome(r):
    """canonical view of an UnwrappedOutcome / value"""
    R = real()
    if isinstance(r, R.result.PermFail):
        return ["PermFail"]
    if isinstance(r, R.result.Retry):
        return ["Retry"]
    if isinstance(r, (R.result.Skip, R.result.DepSkip)):
        return [type(r).__name__]
    return ["Done", plain(r)]


def guarded(fn):
    """run fn; an exception leaving the real code is an observation, not a harness crash"""
    try:
        return outcome(fn())
    except Exception as e:  # noqa: BLE001
        return ["Raised", type(e).__name__]


class Monitor:
    """purity monitor: deep snapshots of the objects evaluation must not modify."""

    def __init__(self):
        self.items = []

    def watch(self, name, obj, view=None):
        view = view or (lambda o: o)
        self.items.append((name, obj, view, copy.deepcopy(view(obj))))

    def changed(self):
        return [name for name, obj, view, snap in self.items if not _snap_eq(view(obj), snap)]


def _snap_eq(a, b):
    try:
        return type(a) is type(b) and a == b and repr(a) == repr(b)
    except Exception:  # noqa: BLE001
        return False


def overlay_view(ov):
    """what a prepared Overlay is made of, in a form deepcopy/== can handle"""
    if ov is None:
        return None
    return (ov.value_index, ov.values.ast)


def runner_view(r):
    return None if r is None else r.ast


def vf_view(vf):
    return (runner_view(vf.preconditions), runner_view(vf.local_values), overlay_view(vf.return_value),
            sorted(vf.dynamic_input_keys))


def has_fn(d) -> bool:
    if d[0] == "f":
        return True
    if d[0] == "l":
        return any(has_fn(x) for x in d[1])
    if d[0] == "m":
        return any(has_fn(v) for _, v in d[1])
    return False


def resolve_fn(d, env):
    """give every function-call leaf its value: the same expression prepared and evaluated ON ITS OWN through
    koreo's prepare_expression/evaluate, on a private copy of the activation.  (What the extension functions
    compute is not C12's subject; that the value reaches the merge unchanged, that nothing is modified and that a
    second evaluation agrees, is.)"""
    t = d[0]
    if t == "l":
        return ["l", [resolve_fn(x, env) for x in d[1]]]
    if t == "m":
        return ["m", [[k, resolve_fn(v, env)] for k, v in d[1]]]
    if t != "f":
        return d
    R = real()
    info = {}
    try:
        runner = R.prepare.prepare_expression(cel_env=R.env, spec=fn_text(d), location="c12-fn")
        if runner is not None and not isinstance(runner, R.result.PermFail):
            v = R.evaluation.evaluate(runner, act(R, env), "c12-fn")
            if not isinstance(v, R.result.PermFail):
                info = {"v": plain(v)}
    except Exception:  # noqa: BLE001
        info = {}
    return d[:4] + [info]


def resolve_pairs(pairs, env):
    return [[k, resolve_fn(v, env)] for k, v in pairs]


def act(R, env, memo=None):
    """activation as koreo builds it: plain-str root names, CEL values"""
    return {k: R.cel(v, memo) for k, v in env.items()}


def memo_of(case):
    """a fresh sharing table when the case asks for shared objects, else None (all objects distinct)"""
    return {} if case.get("share") else None


# ---- level 1: prepare_overlay_expression + evaluate_overlay ------------------

def run_ov(case):
    R = real()
    if any(has_fn(v) for _, v in case["spec"]):
        case = {**case, "spec": resolve_pairs(case["spec"], {**case["env"], "resource": case["base"]})}
    got = _run_ov(R, case)
    got["_resolved"] = case
    return got


def _run_ov(R, case):
    spec = spec_of_pairs(case["spec"])
    ov = R.prepare.prepare_overlay_expression(cel_env=R.env, spec=copy.deepcopy(spec), location="c12")
    if ov is None:
        return {"prepared": None}
    if isinstance(ov, R.result.PermFail):
        return {"prepared": "PermFail"}
    idx, vals = R.prepare._overlay_indexer(spec=copy.deepcopy(spec), base=0)
    memo = memo_of(case)
    inputs = act(R, case["env"], memo)
    base = R.cel(case["base"], memo)
    mon = Monitor()
    mon.watch("inputs", inputs)
    mon.watch("base", base)
    mon.watch("prepared overlay", ov, overlay_view)
    o1 = guarded(lambda: R.evaluation.evaluate_overlay(overlay=ov, inputs=inputs, base=base, location="c12"))
    changed = mon.changed()
    o2 = guarded(lambda: R.evaluation.evaluate_overlay(overlay=ov, inputs=inputs, base=base, location="c12"))
    return {"prepared": "Overlay", "index": plain(ov.value_index), "index2": plain(idx), "n": len(vals),
            "obs": o1, "again": o2, "changed": changed}


def oracle_ov(case, got):
    """-> (signature, what, expected) or None"""
    if got["prepared"] is None:
        return None if not case["spec"] else ("ov: non-empty overlay prepared to None", "prepare_overlay_expression returned None", None)
    if got["prepared"] == "PermFail":
        return None      # preparation is not C12's subject (C20); counted as ov:unprepared
    if got["changed"]:
        return ("purity: evaluate_overlay modified " + "/".join(got["changed"]),
                "evaluate_overlay modified " + ", ".join(got["changed"]), None)
    if got["obs"] != got["again"] and not (got["obs"][0] == got["again"][0] == "Done" and same(got["obs"][1], got["again"][1])):
        return ("purity: evaluate_overlay twice gives different results", "second evaluation differs", got["obs"])
    env = dict(case["env"])
    env["resource"] = case["base"]
    try:
        want = ref_merge(case["base"], ["m", case["spec"]], env)
    except RefUndefined:
        return None
    if got["obs"][0] != "Done":
        return (f"ov: evaluable overlay gives {got['obs'][0]}", f"every leaf evaluates but the outcome is {got['obs']}", want)
    if not same(got["obs"][1], want):
        return ("ov: result is not the deep merge of the overlay over the base", "evaluate_overlay result differs from the reference deep merge", want)
    return None


def coq_ov(case, got):
    if got["prepared"] is None:
        return f"CNoOverlay {c_dkvs(case['spec'])}"
    return (f"COverlay {c_kvs(case['base'])} {c_dkvs(case['spec'])} {c_kvs(case['env'])} "
            f"{c_index(got['index'])} {cnat(got['n'])} {c_obs(got['obs'])}")


# ---- value-level overlay ------------------------------------------------------

def run_deep(case):
    R = real()
    memo = memo_of(case)
    res, ov = R.cel(case["resource"], memo), R.cel(case["overlay"], memo)
    mon = Monitor()
    mon.watch("resource", res)
    mon.watch("overlay", ov)
    o1 = guarded(lambda: R.functions._overlay(resource=res, overlay=ov))
    changed = mon.changed()
    o2 = guarded(lambda: R.functions._overlay(resource=res, overlay=ov))
    return {"obs": o1, "again": o2, "changed": changed}


def oracle_deep(case, got):
    if got["changed"]:
        return ("purity: _overlay modified " + "/".join(got["changed"]), "functions._overlay modified its arguments", None)
    if got["obs"] != got["again"]:
        return ("purity: _overlay twice gives different results", "second evaluation differs", got["obs"])
    wants = [ref_merge_val(case["resource"], case["overlay"], er) for er in (False, True)]
    if got["obs"][0] != "Done":
        return (f"deep: _overlay gives {got['obs'][0]}", f"_overlay of two maps gives {got['obs']}", wants[0])
    if not any(same(got["obs"][1], w) for w in wants):
        return ("deep: _overlay is not the deep merge of the two maps", "functions._overlay differs from the reference merge", wants[0])
    return None


def coq_deep(case, got):
    return f"CDeep {c_kvs(case['resource'])} {c_kvs(case['overlay'])} {cjson(got['obs'][1])}"


# ---- ValueFunction --------------------------------------------------------------

def vf_spec(f):
    s = {}
    if f["locals"]:
        s["locals"] = spec_of_pairs(f["locals"])
    if f["return"]:
        s["return"] = spec_of_pairs(f["return"])
    return s


def prepare_vf(R, name, f):
    out = R.run(R.prepare_value_function(name, copy.deepcopy(vf_spec(f))))
    if isinstance(out, tuple):
        return out[0]
    return out


def resolve_svf(f, inputs, base):
    """function leaves of a ValueFunction see `inputs` (and `resource` when value_base is non-empty)"""
    env = {} if inputs is None else {"inputs": inputs}
    if base:
        env["resource"] = base
    return {"locals": resolve_pairs(f["locals"], env), "return": resolve_pairs(f["return"], env)}


def svf_has_fn(f):
    return any(has_fn(v) for _, v in f["locals"] + f["return"])


def run_vf(case):
    R = real()
    if svf_has_fn(case["f"]):
        case = {**case, "f": resolve_svf(case["f"], case["inputs"], case["value_base"])}
    got = _run_vf(R, case)
    got["_resolved"] = case
    return got


def _run_vf(R, case):
    vf = prepare_vf(R, "c12-vf", case["f"])
    if not isinstance(vf, R.ValueFunction):
        return {"prepared": outcome(vf)}
    memo = memo_of(case)
    inputs = R.cel(case["inputs"], memo) if case["inputs"] is not None else None
    vb = R.cel(case["value_base"], memo) if case["value_base"] is not None else None
    mon = Monitor()
    mon.watch("inputs", inputs)
    mon.watch("value_base", vb)
    mon.watch("prepared function", vf, vf_view)
    call = lambda: R.run(R.reconcile_value_function(location="c12", function=vf, inputs=inputs, value_base=vb))
    o1 = guarded(call)
    changed = mon.changed()
    o2 = guarded(call)
    return {"prepared": "ValueFunction", "obs": o1, "again": o2, "changed": changed}


def ref_vf(f, inputs, base):
    """reference for a ValueFunction's return over `base` (a dict, possibly empty)"""
    env = {}
    if inputs is not None:
        env["inputs"] = inputs
    if base:
        env["resource"] = base
    env["locals"] = ref_eval(["m", f["locals"]], env) if f["locals"] else {}
    env["resource"] = base
    return ref_merge(base, ["m", f["return"]], env)


def oracle_vf(case, got):
    if got["prepared"] != "ValueFunction":
        return None      # counted as vf:unprepared
    if got["changed"]:
        return ("purity: reconcile_value_function modified " + "/".join(got["changed"]),
                "reconcile_value_function modified " + ", ".join(got["changed"]), None)
    if got["obs"] != got["again"]:
        return ("purity: reconcile_value_function twice gives different results", "second evaluation differs", got["obs"])
    try:
        want = ref_vf(case["f"], case["inputs"], case["value_base"] or {})
    except RefUndefined:
        return None
    if got["obs"][0] != "Done":
        return (f"vf: evaluable return gives {got['obs'][0]}", f"every leaf evaluates but the outcome is {got['obs']}", want)
    if not same(got["obs"][1], want):
        return ("vf: return is not the deep merge of the return document over value_base",
                "reconcile_value_function result differs from the reference deep merge", want)
    return None


def c_svf(f):
    return f"{{| sv_locals := {c_dkvs(f['locals'])}; sv_return := {c_dkvs(f['return'])} |}}"


def coq_vf(case, got):
    vb = case["value_base"]
    return (f"CVf {c_svf(case['f'])} {copt(case['inputs'], cjson)} "
            f"{'None' if vb is None else '(Some ' + c_kvs(vb) + ')'} {c_obs(got['obs'])}")


# ---- ResourceFunction pipeline -----------------------------------------------------

API_VERSION, KIND = "c12.example.dev/v1", "Gadget"


def kind_of(case):
    # kr8s registers one class per (apiVersion, kind) for the life of the process, so the
    # cluster-scoped variant needs its own kind
    return KIND if case["namespace"] is not None else "ClusterGadget"


def skip_text(sk):
    if sk is None:
        return None
    if sk[0] == "c":
        return "=" + json.dumps(sk[1])
    return path_text(sk[1], sk[2])


def rf_spec(case):
    spec = {"apiConfig": {"apiVersion": API_VERSION, "kind": kind_of(case), "plural": kind_of(case).lower() + "s",
                          "name": case["name"], "owned": case.get("owned", False)}}
    if case["namespace"] is not None:
        spec["apiConfig"]["namespace"] = case["namespace"]
    else:
        spec["apiConfig"]["namespaced"] = False
    if case["env"].get("locals"):
        spec["locals"] = copy.deepcopy(case["env"]["locals"])     # static: evaluates to itself
    t = case["template"]
    if t[0] == "inline":
        spec["resource"] = spec_of_pairs(t[1])
    else:
        spec["resourceTemplateRef"] = {"name": to_spec(t[1]) if t[1][0] == "p" else t[1][1]}
    steps = []
    for i, s in enumerate(case["steps"]):
        st = {}
        if s["skip"] is not None:
            st["skipIf"] = skip_text(s["skip"])
        if s["kind"] == "inline":
            st["overlay"] = spec_of_pairs(s["spec"])
        else:
            st["overlayRef"] = {"kind": "ValueFunction", "name": f"c12-vf-{i}"}
            if s["inputs"]:
                st["inputs"] = spec_of_pairs(s["inputs"])
        steps.append(st)
    if steps:
        spec["overlays"] = steps
    if case["create"]:
        spec["create"] = {"overlay": spec_of_pairs(case["create"])}
    return spec


def forced_of(case):
    md = {"name": case["name"]}
    if case["namespace"] is not None:
        md["namespace"] = case["namespace"]
    return {"apiVersion": API_VERSION, "kind": kind_of(case), "metadata": md}


def last_applied(body):
    """the Target Resource Specification koreo recorded in the POST body"""
    try:
        return json.loads(body["metadata"]["annotations"][LAST_APPLIED])
    except Exception:  # noqa: BLE001
        return None


class MiniApi:
    """the smallest kr8s.Api look-alike reconcile_resource_function needs for a create"""
    namespace = "default"

    def __init__(self):
        self.calls = []

    async def async_get(self, *args, **kwargs):
        import kr8s
        raise kr8s.NotFoundError("not found")
        yield  # pragma: no cover  (makes this an async generator)

    @contextlib.asynccontextmanager
    async def call_api(self, method, **kwargs):
        body = json.loads(kwargs.get("data") or "null")
        self.calls.append((method, body))

        class Resp:
            status_code = 201

            def json(self_inner):
                return body
        yield Resp()


def resolve_rf(case):
    """function leaves in a ResourceFunction case use inputs/locals only (the generator never roots them in
    `resource`, whose value depends on the overlays before)"""
    env = dict(case["env"])
    c = dict(case)
    t = case["template"]
    if t[0] == "inline":
        c["template"] = ["inline", resolve_pairs(t[1], env)]
    steps = []
    for s in case["steps"]:
        s = dict(s)
        if s["kind"] == "inline":
            s["spec"] = resolve_pairs(s["spec"], env)
        else:
            s["inputs"] = resolve_pairs(s["inputs"], env)
            try:
                vin = ref_eval(["m", s["inputs"]], env) if s["inputs"] else None
            except RefUndefined:
                vin = None
            s["f"] = resolve_svf(s["f"], vin, None)
        steps.append(s)
    c["steps"] = steps
    c["create"] = resolve_pairs(case["create"], env)
    return c


def rf_has_fn(case):
    docs = list(case["create"]) + (list(case["template"][1]) if case["template"][0] == "inline" else [])
    for s in case["steps"]:
        docs += s["spec"] if s["kind"] == "inline" else s["inputs"] + s["f"]["locals"] + s["f"]["return"]
    return any(has_fn(v) for _, v in docs)


def run_rf(case):
    R = real()
    R.reset()
    try:
        # `locals` are realised as STATIC values of spec.locals (cache / reconcile level): every level, the
        # reference and the model must see them as koreo delivers static values
        if has_numeral_string(case["env"].get("locals")):
            case = {**case, "env": {**case["env"], "locals": static_delivered(case["env"]["locals"])}}
        if rf_has_fn(case):
            case = resolve_rf(case)
        got = _run_rf(R, case)
        got["_resolved"] = case
        return got
    finally:
        R.reset()


def _pipeline(R, case, rf, inputs):
    """template -> overlays -> create through the real module-level helpers, for the prepared function rf"""
    rfr, cfg = R.rfr, rf.crud_config
    forced = rfr._forced_overlay(resource_api=cfg.resource_api, name=case["name"], namespace=case["namespace"])
    tmpl_arg = None if case["template"][0] == "inline" and case.get("template_none") else cfg.resource_template
    res = {"template": None, "target": None, "create": None, "body": None}
    try:
        t = R.run(rfr._construct_resource_template(inputs=inputs, resource_template=tmpl_arg,
                                                   forced_overlay=forced, full_resource_name="c12"))
    except Exception as e:  # noqa: BLE001
        res["template"] = res["target"] = res["create"] = ["Raised", type(e).__name__]
        return res
    res["template"] = outcome(t)
    if res["template"][0] != "Done":
        res["target"] = res["create"] = res["template"]
        return res
    tgt = t
    if cfg.overlays:
        try:
            tgt = R.run(rfr._materialize_from_overlays(resource=t, overlay_steps=cfg.overlays, inputs=inputs,
                                                       forced_overlay=forced, full_resource_name="c12"))
        except Exception as e:  # noqa: BLE001
            res["target"] = res["create"] = ["Raised", type(e).__name__]
            return res
    res["target"] = outcome(tgt)
    if res["target"][0] != "Done":
        res["create"] = res["target"]
        return res
    created = []

    class FakeObject:
        version, kind, namespaced = API_VERSION, kind_of(case), case["namespace"] is not None

        def __init__(self, api, resource, namespace):
            created.append(resource)

        async def create(self):
            return None
    owner = (case["namespace"], {"apiVersion": "v1", "kind": "Owner", "name": "o", "uid": "uid-1",
                                 "blockOwnerDeletion": True, "controller": False})
    # observe the materialised view exactly where koreo hands it to the API layer
    views, orig = [], rfr._prepare_for_api

    def spy(obj):
        views.append(copy.deepcopy(obj))
        return orig(obj)
    rfr._prepare_for_api = spy
    try:
        r = R.run(rfr._create_api_resource(api=None, resource_api=FakeObject, namespace=case["namespace"],
                                           create=cfg.create, owned_resource=case.get("owned", False), owner=owner,
                                           inputs=inputs, resource_view=tgt, forced_overlay=forced,
                                           full_resource_name="c12"))
        res["create"] = outcome(r)
    except Exception as e:  # noqa: BLE001
        res["create"] = ["Raised", type(e).__name__]
    finally:
        rfr._prepare_for_api = orig
    if views:
        view = plain(views[0])
        if case.get("owned", False) and isinstance(view.get("metadata"), dict):
            view["metadata"].pop("ownerReferences", None)      # C08's subject, not part of the merge
        res["create"] = ["Done", view]
    if created:
        res["body"] = plain(created[0])
        la = last_applied(res["body"])
        if case.get("owned", False) and isinstance(la, dict) and isinstance(la.get("metadata"), dict):
            la["metadata"].pop("ownerReferences", None)
        res["recorded"] = la
    return res


def _function_view(f):
    cfg = f.crud_config
    return ([(type(o).__name__, runner_view(o.skip_if),
              overlay_view(o.overlay) if hasattr(o.overlay, "value_index") else vf_view(o.overlay),
              runner_view(getattr(o, "inputs", None))) for o in (cfg.overlays or [])],
            overlay_view(cfg.create.overlay),
            runner_view(getattr(cfg.resource_template, "template", None)),
            runner_view(getattr(cfg.resource_template, "name", None)))


RF_NAME = "c12-rf"


def _run_rf(R, case):
    """Everything goes through the real cache: ValueFunctions, ResourceTemplates and the ResourceFunction
    are prepared with cache.prepare_and_cache, so that the flow part can have koreo re-prepare the function."""
    vfs = {}
    for i, s in enumerate(case["steps"]):
        if s["kind"] == "fn":
            vf = R.run(R.cache.prepare_and_cache(R.ValueFunction, R.prepare_value_function,
                                                 {"name": f"c12-vf-{i}", "resourceVersion": "1"}, vf_spec(s["f"])))
            if not isinstance(vf, R.ValueFunction):
                return {"prepared": ["vf", outcome(vf)]}
            vfs[i] = vf
    templates = {}
    for name, body in case["templates"].items():
        t = R.run(R.cache.prepare_and_cache(R.ResourceTemplate, R.prepare_resource_template,
                                            {"name": name, "resourceVersion": "1"}, {"template": body}))
        if not isinstance(t, R.ResourceTemplate):
            return {"prepared": ["template", outcome(t)]}
        templates[name] = t
    spec_passed = rf_spec(case)
    rf = R.run(R.cache.prepare_and_cache(R.ResourceFunction, R.prepare_resource_function,
                                         {"name": RF_NAME, "resourceVersion": "1"}, spec_passed))
    if not isinstance(rf, R.ResourceFunction):
        return {"prepared": ["rf", outcome(rf)]}
    # snapshots are taken AFTER preparation: what prepare does to a spec (schema defaults are filled in, skipIf is
    # popped) is not evaluation; from here on nothing may change the function's definition
    spec_snap = copy.deepcopy(spec_passed)
    entry0 = R.cache.get_resource_system_data_from_cache(resource_class=R.ResourceFunction, cache_key=RF_NAME)
    cached_snap = copy.deepcopy(entry0.spec) if entry0 is not None else None
    cfg = rf.crud_config
    if case["steps"] and not isinstance(cfg.overlays, list):
        return {"prepared": ["overlays", outcome(cfg.overlays)]}

    def fresh_inputs():
        return act(R, case["env"], memo_of(case))

    def spec_changes():
        out = []
        if spec_passed != spec_snap:
            out.append("the spec dict handed to prepare_and_cache")
        entry = R.cache.get_resource_system_data_from_cache(resource_class=R.ResourceFunction, cache_key=RF_NAME)
        if entry is None or entry.spec != cached_snap:
            out.append("the function spec held by the cache")
        return out

    inputs = fresh_inputs()
    mon = Monitor()
    mon.watch("inputs", inputs)
    mon.watch("prepared function", rf, _function_view)
    for name, t in templates.items():
        mon.watch(f"cached ResourceTemplate {name}", t, lambda x: x.template)
    for i, vf in vfs.items():
        mon.watch(f"cached ValueFunction {i}", vf, vf_view)
    first = _pipeline(R, case, rf, inputs)
    changed = mon.changed()
    second = _pipeline(R, case, rf, fresh_inputs())
    got = {"prepared": "ok", "obs": first, "again": second, "changed": changed + spec_changes()}

    # flow: a referenced ValueFunction is offered again (new resourceVersion, same content); koreo re-prepares
    # the ResourceFunction from the spec in its cache; evaluating again with equal inputs must give an equal result
    if vfs:
        async def reoffer():
            before = R.cache.get_resource_from_cache(resource_class=R.ResourceFunction, cache_key=RF_NAME)
            for i, s in enumerate(case["steps"]):
                if s["kind"] == "fn":
                    await R.cache.prepare_and_cache(R.ValueFunction, R.prepare_value_function,
                                                    {"name": f"c12-vf-{i}", "resourceVersion": "2"}, vf_spec(s["f"]))
            for _ in range(60):
                await asyncio.sleep(0)
                after = R.cache.get_resource_from_cache(resource_class=R.ResourceFunction, cache_key=RF_NAME)
                if after is not before:
                    for _ in range(12):          # let further queued re-prepares settle
                        await asyncio.sleep(0)
                    return True
            return False
        try:
            reprepared = R.run(reoffer())
        except Exception as e:  # noqa: BLE001
            reprepared = "Raised:" + type(e).__name__
        flow = {"reprepared": reprepared, "spec_changed": spec_changes()}
        rf2 = R.cache.get_resource_from_cache(resource_class=R.ResourceFunction, cache_key=RF_NAME)
        if reprepared is True and isinstance(rf2, R.ResourceFunction):
            flow["after"] = _pipeline(R, case, rf2, fresh_inputs())
        elif reprepared is True:
            flow["after"] = {"function": outcome(rf2)}
        got["flow"] = flow

    # level 3: the whole reconcile_resource_function against an in-memory API -> POST body
    if case.get("template_none"):
        return got          # the helper was driven with resource_template=None; reconcile would use the real one
    # Two whole reconciles (absent object -> create path, with ownership when `owned`) for two different owners,
    # each against an empty cluster, with the cached template / functions under the snapshot monitor.
    mon3 = Monitor()
    mon3.watch("prepared function", rf, _function_view)
    for name, t in templates.items():
        mon3.watch(f"cached ResourceTemplate {name}", t, lambda x: x.template)
    for i, vf in vfs.items():
        mon3.watch(f"cached ValueFunction {i}", vf, vf_view)
    runs = []
    for uid in ("uid-1", "uid-2"):
        api = new_api()
        owner = (case["namespace"], {"apiVersion": "v1", "kind": "Owner", "name": "o-" + uid, "uid": uid,
                                     "blockOwnerDeletion": True, "controller": False})
        inp = R.cel(case["env"]["inputs"], memo_of(case))
        mon3.watch(f"inputs of reconcile {uid}", inp)
        try:
            r = R.run(R.rfr.reconcile_resource_function(api=api, location="c12", function=rf, owner=owner, inputs=inp))
            posts = api_posts(api)
            runs.append({"outcome": outcome(r.outcome)[0], "posts": len(posts),
                         "target": last_applied(posts[0]) if posts else None,
                         "body": posts[0] if posts else None})
        except Exception as e:  # noqa: BLE001
            runs.append({"outcome": "Raised:" + type(e).__name__, "posts": 0, "target": None, "body": None})
    got["reconcile"] = runs[0]
    got["reconcile2"] = runs[1]
    got["reconcile_changed"] = mon3.changed() + spec_changes()
    return got


def new_api():
    """harness/cluster.py (shared in-memory API double) when available, else the local stub"""
    global RF_AVAILABLE
    try:
        from cluster import Cluster
        RF_AVAILABLE = True
        return Cluster()
    except Exception:  # noqa: BLE001
        RF_AVAILABLE = False
        return MiniApi()


def api_posts(api):
    if isinstance(api, MiniApi):
        return [b for m, b in api.calls if m == "POST"]
    return [c.get("body") for c in api.calls if c["method"] == "POST"]


def ref_rf(case, forced_first=True, forced_last=True, forced_create=True):
    """reference: base, [forced overlay], each non-skipped overlay in listed order, [forced overlay];
    then create.overlay and [the forced overlay once more].  -> (template, target, create).
    The property text does not mention the forced (apiConfig identity) overlay at all — that is
    property C06 — so every combination of applying it or not is an accepted reading."""
    env = dict(case["env"])
    forced = forced_of(case)
    t = case["template"]
    if t[0] == "inline":
        base = {} if case.get("template_none") or not t[1] else ref_eval(["m", t[1]], env)
    else:
        name = ref_eval(t[1], env)
        if not isinstance(name, str) or name not in case["templates"]:
            raise RefUndefined("template")
        base = case["templates"][name]
    tmpl = ref_merge_val(base, forced) if forced_first else base
    cur = tmpl
    for s in case["steps"]:
        if s["skip"] is not None:
            sk = ref_eval(s["skip"], env)
            if not isinstance(sk, bool):
                raise RefUndefined("skipIf")
            if sk:
                continue
        if s["kind"] == "inline":
            cur = ref_merge(cur, ["m", s["spec"]], {**env, "resource": cur})
        else:
            vin = ref_eval(["m", s["inputs"]], env) if s["inputs"] else None
            cur = ref_vf(s["f"], vin, cur)
        if not isinstance(cur, dict):
            raise RefUndefined("non-map target")
    target = ref_merge_val(cur, forced) if forced_last else cur
    cv = target
    if case["create"]:
        cv = ref_merge(target, ["m", case["create"]], {**env, "resource": target})
    return tmpl, target, (ref_merge_val(cv, forced) if forced_create else cv)


def oracle_rf(case, got):
    if got["prepared"] != "ok":
        return None      # counted as rf:unprepared
    if got["changed"]:
        kinds = sorted({" ".join(c.split(" ")[:2]) if c.startswith(("cached", "prepared")) else c for c in got["changed"]})
        return ("purity: materialising the target modified " + "/".join(kinds),
                "the pipeline modified " + ", ".join(got["changed"]), None)
    if got["obs"] != got["again"]:
        return ("purity: materialising twice gives different results", "second evaluation with equal inputs differs", got["obs"])
    flow = got.get("flow")
    if flow is not None:
        if flow["spec_changed"]:
            return ("purity: the function itself was modified (" + "/".join(flow["spec_changed"]) + ")",
                    "after a referenced ValueFunction was offered again: modified " + ", ".join(flow["spec_changed"]), None)
        if "after" in flow and flow["after"] != got["obs"]:
            return ("purity: equal inputs give a different target after koreo re-prepared the function from its cached spec",
                    "a referenced ValueFunction was offered again with unchanged content, the ResourceFunction was "
                    "re-prepared from the cache, and the same inputs now materialise a different target", got["obs"])
    wants = []
    for flags in itertools.product((True, False), repeat=3):
        try:
            wants.append(ref_rf(case, *flags))
        except RefUndefined:
            if flags == (True, True, True):
                return None          # the reference cannot evaluate a leaf under the code's own reading: no claim
        except Exception:  # noqa: BLE001  (reference stepping outside its domain)
            if flags == (True, True, True):
                return None
    o = got["obs"]
    if o["target"][0] != "Done":
        return (f"rf: evaluable pipeline gives {o['target'][0]}", f"everything evaluates but the target is {o['target']}", wants[0][1])
    if not any(same(o["target"][1], w[1]) for w in wants):
        return ("rf: target is not base + overlays deep-merged in listed order",
                "materialised target differs from the reference fold", wants[0][1])
    if o["create"][0] != "Done":
        return (f"rf: evaluable create gives {o['create'][0]}", f"create path gives {o['create']}", wants[0][2])
    if not any(same(o["create"][1], w[2]) for w in wants):
        return ("rf: created object is not the target + create.overlay deep-merged",
                "the view handed to the API differs from the reference", wants[0][2])
    if o.get("recorded") is not None and not any(same(o["recorded"], w[2]) for w in wants):
        return ("rf: last-applied annotation of the POST body is not the reference merge",
                "the target recorded in the created object differs from the reference", wants[0][2])
    if got.get("reconcile_changed"):
        kinds = sorted({" ".join(c.split(" ")[:2]) if c.startswith(("cached", "prepared", "inputs")) else c
                        for c in got["reconcile_changed"]})
        return ("purity: reconcile_resource_function modified " + "/".join(kinds),
                "creating the object through reconcile_resource_function modified " + ", ".join(got["reconcile_changed"]), None)
    rec, rec2 = got.get("reconcile"), got.get("reconcile2")
    if rec is not None and rec2 is not None and rec["posts"] == 1:
        # the same function, equal inputs, another owner: the created object may differ in the owner only
        def norm(x):
            return json.loads(json.dumps(x).replace("uid-2", "uid-1"))
        if rec2["posts"] != 1 or norm(rec2["body"]) != norm(rec["body"]):
            return ("purity: a second reconcile with equal inputs (another owner) creates a different object",
                    "two reconciles of the same function with equal inputs for two owners created objects that differ in "
                    "more than the owner", norm(rec["body"]))
    if rec is not None:
        # an exception leaving reconcile (e.g. metadata.annotations overlaid with a non-map makes
        # _prepare_for_api raise TypeError) is outside C12: counted in the distribution, not judged here
        if rec["posts"] == 1:
            tgt = rec["target"]
            if isinstance(tgt, dict) and isinstance(tgt.get("metadata"), dict):
                tgt["metadata"].pop("ownerReferences", None)
            if not any(same(tgt, w[2]) for w in wants):
                return ("rf: POST body of reconcile_resource_function is not the reference merge",
                        "reconcile_resource_function POSTed a different target", wants[0][2])
    return None


def c_sstep(s):
    sk = copt(s["skip"], c_expr)
    if s["kind"] == "inline":
        return f"(SInline {c_dkvs(s['spec'])} {sk})"
    return f"(SFn {c_svf(s['f'])} {sk} {c_dkvs(s['inputs'])})"


def c_template(case):
    t = case["template"]
    if t[0] == "inline":
        return "STNone" if case.get("template_none") else f"(STInline {c_dkvs(t[1])})"
    return f"(STRef {c_expr(t[1])})"


def coq_rf(case, got):
    o = got["obs"]
    tc = clist(case["templates"].items(), lambda kv: cpair(cstr(kv[0]), c_kvs(kv[1])))
    ro = (f"{{| ro_template := {c_obs(o['template'])}; ro_target := {c_obs(o['target'])}; "
          f"ro_create := {c_obs(o['create'])} |}}")
    return (f"CRf {c_kvs(case['env'])} {tc} {c_template(case)} {clist(case['steps'], c_sstep)} "
            f"{c_kvs(forced_of(case))} {c_dkvs(case['create'])} {ro}")


# ---------------------------------------------------------------------------
# generators
# ---------------------------------------------------------------------------

KEYS = ["a", "b", "c", "d", "k.dot", "x-y", "spec", "metadata", "Cap"]
ID_KEYS = ["name", "namespace", "labels", "apiVersion", "kind"]
IN_KEYS = ["a", "b", "c", "flag", "k.dot", "m", "name"]
STRS = ["v", "str", "two words", "", "x.y", "UPPER", "é"]
SCALARS = [None, True, False, 0, 1, -7, 42, 2.5, -0.5] + STRS


def g_scalar(rng):
    return rng.choice(SCALARS)


def g_json(rng, depth, keys=KEYS, wide=3):
    r = rng.random()
    if depth <= 0 or r < 0.35:
        return g_scalar(rng)
    if r < 0.5:
        return [g_json(rng, depth - 1, keys, 2) for _ in range(rng.randrange(0, 3))]
    return g_map(rng, depth, keys, wide)


def g_map(rng, depth, keys=KEYS, wide=3, minlen=0):
    n = rng.randrange(minlen, wide + 1)
    ks = rng.sample(keys, min(n, len(keys)))
    return {k: g_json(rng, depth - 1, keys, wide) for k in ks}


def all_paths(v, prefix=()):
    """every path through maps (celpy cannot select a member of a list)"""
    out = [prefix]
    if isinstance(v, dict):
        for k, x in v.items():
            out += all_paths(x, prefix + (k,))
    return out


# probability that a generated leaf is a call of a koreo CEL extension function (0 in the merge streams, raised
# by the function streams: see fn_stream)
P_FN = [0.0]


class fn_stream:
    def __init__(self, p):
        self.p = p

    def __enter__(self):
        self.old, P_FN[0] = P_FN[0], self.p

    def __exit__(self, *a):
        P_FN[0] = self.old


def g_fx(rng, static=False):
    """values for the extension functions to chew on, to be placed under `fx` in inputs / locals / resource:
    nested lists of lists (of maps), mixed-case strings, reference-shaped maps, an object with status.conditions,
    two overlapping maps, base64 and JSON texts"""
    import base64
    def item():
        return rng.choice([g_scalar(rng), {"verb": rng.choice(["get", "list", "watch"])}, {"k": [1, {"z": None}]},
                           [1, 2], []])
    ll = [[item() for _ in range(rng.randrange(0, 4))] for _ in range(rng.randrange(0, 5))]
    name = rng.choice(["obj-a", "Thing", ""])
    obj = {"apiVersion": rng.choice(["group.example/v1", "v1", ""]), "kind": rng.choice(["Widget", ""]),
           "metadata": {"name": name, "namespace": rng.choice(["ns", ""]), "labels": {"a": "b"}},
           "status": {"conditions": [{"type": rng.choice(["Ready", "Other"]), "reason": rng.choice(["UpToDate", "Updating"]),
                                      "status": rng.choice(["True", "False"])}
                                     for _ in range(rng.randrange(0, 3))]}}
    ref = {"apiVersion": "group.example/v1beta1", "kind": "Widget", "name": rng.choice(["n", ""]), "namespace": "ns",
           "extra": [1, 2]}
    if rng.random() < 0.3:
        ref["external"] = rng.choice(["projects/p/things/t", ""])
    if rng.random() < 0.3:
        ref["apiGroup"] = "explicit.group"
    text = rng.choice(["Mixed/Case/Path", "  padded  ", "a,b,,c", "xxSTRIPxx", "", "one"])
    js = json.dumps(g_json(rng, 2))
    if static and is_numeral(js):
        js = json.dumps([json.loads(js)])       # written statically (spec.locals): must not be a bare numeral
    return {"ll": ll, "s": text, "obj": obj, "ref": ref, "m1": g_nested(rng, 2), "m2": g_nested(rng, 2),
            "b64": base64.b64encode(text.encode()).decode(), "js": js,
            "any": g_json(rng, 2), "deep": {"ll": [[{"a": [1]}], [[2], {"b": {}}], []]}}


FN_TABLE = [   # name, key(s) of fx usable as target, argument makers
    ("flatten", ["ll", "ll", "ll", ("deep", "ll")], lambda rng: []),
    ("lower", ["s"], lambda rng: []),
    ("strip", ["s"], lambda rng: [["c", rng.choice(["x", " ", "/"])]]),
    ("rstrip", ["s"], lambda rng: [["c", rng.choice(["x", " ", "c"])]]),
    ("split", ["s"], lambda rng: [["c", rng.choice(["/", ",", "x"])]]),
    ("split_first", ["s"], lambda rng: [["c", rng.choice(["/", ","])]]),
    ("split_last", ["s"], lambda rng: [["c", rng.choice(["/", ","])]]),
    ("split_index", ["s"], lambda rng: [["c", rng.choice(["/", ","])], ["c", rng.choice([0, 1, 5])]]),
    ("replace", ["s"], lambda rng: [["c", rng.choice(["a", "/"])], ["c", rng.choice(["", "--"])]]),
    ("b64encode", ["s"], lambda rng: []),
    ("b64decode", ["b64"], lambda rng: []),
    ("to_json", ["any", "ll", "obj", "m1"], lambda rng: []),
    ("from_json", ["js"], lambda rng: []),
    ("to_ref", ["ref", "obj"], lambda rng: []),
    ("group_ref", ["ref"], lambda rng: []),
    ("kindless_ref", ["ref"], lambda rng: []),
    ("self_ref", ["obj"], lambda rng: []),
    ("config_connect_ready", ["obj"], lambda rng: []),
    ("overlay", ["m1", "obj"], None),        # argument: another map taken from the same fx
]


def fn_roots(env):
    return sorted(r for r in env if isinstance(env[r], dict) and isinstance(env[r].get("fx"), dict))


def g_fn_leaf(rng, env):
    root = rng.choice(fn_roots(env))
    name, targets, mk = rng.choice(FN_TABLE) if rng.random() < 0.7 else FN_TABLE[0]
    tk = rng.choice(targets)
    target = ["p", root, ["fx"] + (list(tk) if isinstance(tk, tuple) else [tk])]
    args = [["p", root, ["fx", rng.choice(["m2", "m1", "ref"])]]] if mk is None else mk(rng)
    return ["f", name, target, args]


def g_leaf(rng, env, p_path=0.4):
    """a leaf document: static scalar, an expression into one of the roots, or (function streams) a call of a
    koreo CEL extension function on a value taken from one of the roots"""
    if P_FN[0] and rng.random() < P_FN[0] and fn_roots(env):
        return g_fn_leaf(rng, env)
    if env and rng.random() < p_path:
        root = rng.choice(sorted(env))
        paths = all_paths(env[root])
        segs = list(rng.choice(paths))
        if rng.random() < 0.04:
            segs.append("nope")                # evaluation failure -> PermFail
        return ["p", root, segs]
    return ["c", g_scalar(rng)]


def g_value_doc(rng, env, depth):
    """a non-structural value: leaf, list (possibly of maps), empty map"""
    r = rng.random()
    if r < 0.55 or depth <= 0:
        return g_leaf(rng, env)
    if r < 0.7:
        return ["m", []]
    items = []
    for _ in range(rng.randrange(0, 3)):
        if rng.random() < 0.5:
            items.append(["m", [[k, g_value_doc(rng, env, depth - 1)] for k in rng.sample(KEYS, rng.randrange(0, 3))]])
        else:
            items.append(g_value_doc(rng, env, depth - 1))
    return ["l", items]


def g_overlay(rng, base, env, depth, keys=KEYS, minlen=1):
    """overlay map document generated relative to `base` (a dict or anything else)"""
    bkeys = list(base.keys()) if isinstance(base, dict) else []
    n = rng.randrange(minlen, 4)
    out, used = [], set()
    for _ in range(n):
        if bkeys and rng.random() < 0.6:
            k = rng.choice(bkeys)
        else:
            k = rng.choice(keys)
        if k in used:
            continue
        used.add(k)
        bv = base.get(k) if isinstance(base, dict) else None
        r = rng.random()
        if depth > 1 and r < (0.6 if isinstance(bv, dict) else 0.35):
            sub = g_overlay(rng, bv, env, depth - 1, keys)
            out.append([k, ["m", sub]])
        else:
            out.append([k, g_value_doc(rng, env, min(depth - 1, 2))])
    if not out:
        out.append([rng.choice(keys), g_leaf(rng, env)])
    return out


def g_env(rng, with_locals=True, fx=False):
    env = {"inputs": g_map(rng, 3, IN_KEYS, 4, 1)}
    env["inputs"]["flag"] = rng.choice([True, False])
    if with_locals:
        env["locals"] = g_map(rng, 2, IN_KEYS, 2)
    if fx:
        env["inputs"]["fx"] = g_fx(rng)
        if with_locals and rng.random() < 0.4:
            env["locals"]["fx"] = g_fx(rng, static=True)
    return env


def shapes(n):
    """all ordered forests with n nodes, as nested lists (a node = list of children)"""
    if n == 0:
        return [[]]
    out = []
    for first in range(1, n + 1):           # size of the first tree
        for kids in shapes(first - 1):
            for rest in shapes(n - first):
                out.append([kids] + rest)
    return out


def shape_cases(maxn):
    """exhaustive overlay tree shapes with pairwise distinct leaf values, against three bases"""
    for n in range(1, maxn + 1):
        for forest in shapes(n):
            counter = itertools.count()

            def build(forest):
                pairs, bsame, bscalar = [], {}, {}
                for i, kids in enumerate(forest):
                    k = "k%d" % i
                    if kids:
                        sub, s1, s2 = build(kids)
                        pairs.append([k, ["m", sub]])
                        bsame[k] = s1
                        bscalar[k] = "was-scalar"
                    else:
                        v = next(counter)
                        pairs.append([k, ["c", 100 + v]])
                        bsame[k] = {"old": v}
                        bscalar[k] = -v
                    bsame["keep%d" % i] = i
                return pairs, bsame, bscalar
            pairs, bsame, bscalar = build(forest)
            for base in ({}, bsame, bscalar):
                yield {"kind": "ov", "base": base, "spec": pairs, "env": {"inputs": {}}}


def map_paths(v, prefix=()):
    """paths to non-empty map values"""
    out = []
    if isinstance(v, dict):
        if v and prefix:
            out.append(prefix)
        for k, x in v.items():
            out += map_paths(x, prefix + (k,))
    return out


def dup_submap(rng, base):
    """copy one non-empty sub-map of `base` to one or two other places of `base` (equal VALUES at different paths;
    with case["share"] they are also the same OBJECT)"""
    ps = map_paths(base)
    if not ps:
        base[rng.choice(KEYS)] = g_nested(rng, 1)
        ps = map_paths(base)
    src = rng.choice(ps)
    v = base
    for k in src:
        v = v[k]
    for _ in range(rng.choice([1, 1, 2])):
        homes = [()] + [p for p in map_paths(base) if p[:len(src)] != src]
        home = rng.choice(homes)
        node = base
        for k in home:
            node = node[k]
        node[rng.choice([k for k in KEYS if k not in node] or KEYS)] = copy.deepcopy(v)


def inject_alias(rng, pairs, env, roots=("inputs", "locals")):
    """use ONE map-valued expression (=inputs.x …) at two or three places of an overlay/template document — the way
    `spec.selector.matchLabels` and `spec.template.metadata.labels` are both `=inputs.labels`"""
    cands = [(r, p) for r in roots if isinstance(env.get(r), dict) for p in map_paths(env[r])]
    if not cands:
        return
    root, segs = rng.choice(cands)

    def nodes(ps, acc):
        acc.append(ps)
        for _, d in ps:
            if d[0] == "m" and d[1]:
                nodes(d[1], acc)
        return acc
    for _ in range(rng.choice([2, 2, 3])):
        node = rng.choice(nodes(pairs, []))
        free = [k for k in KEYS if k not in {k0 for k0, _ in node} and k != "metadata"]
        if free:
            node.append([rng.choice(free), ["p", root, list(segs)]])


def g_ov_case(rng, fx=False):
    env = g_env(rng, fx=fx)
    base = g_map(rng, rng.choice([1, 2, 3, 5]), KEYS, 4)
    if fx and rng.random() < 0.5:
        base["fx"] = g_fx(rng)
    share = rng.random() < 0.5
    if rng.random() < 0.3:
        dup_submap(rng, base)
        share = True
    spec = g_overlay(rng, base, {**env, "resource": base}, rng.choice([1, 2, 3, 4, 5]))
    return {"kind": "ov", "base": base, "spec": spec, "env": env, "share": share}


def g_nested(rng, depth, keys=KEYS):
    """a map that is mostly maps (so that map-over-map recursion goes deep)"""
    out = {}
    for k in rng.sample(keys, rng.randrange(1, 4)):
        out[k] = g_nested(rng, depth - 1, keys) if depth > 0 and rng.random() < 0.6 else g_json(rng, 1, keys)
    return out


def g_perturb(rng, res, depth):
    """an overlay VALUE derived from `res`: same keys with maps merged deeper / replaced, plus new keys"""
    out = {}
    for k, v in res.items():
        if rng.random() < 0.55:
            if isinstance(v, dict) and rng.random() < 0.7:
                out[k] = g_perturb(rng, v, depth - 1)
            else:
                out[k] = rng.choice([g_json(rng, 2), {}, g_nested(rng, 1)])
    if rng.random() < 0.5:
        out[rng.choice(KEYS)] = g_json(rng, 2)
    return out


def g_deep_case(rng):
    res = g_nested(rng, rng.choice([1, 2, 3, 4])) if rng.random() < 0.7 else g_map(rng, 4, KEYS, 4)
    share = rng.random() < 0.5
    if rng.random() < 0.3:
        dup_submap(rng, res)
        share = True
    return {"kind": "deep", "resource": res, "overlay": g_perturb(rng, res, 4), "share": share}


def g_svf(rng, outer_env_inputs, base):
    """a ValueFunction spec whose leaves use inputs / locals / resource"""
    env = {"inputs": outer_env_inputs}
    if base:
        env["resource"] = base
    locs = []
    if rng.random() < 0.5:
        for k in rng.sample(["l1", "l2", "m"], rng.randrange(1, 3)):
            locs.append([k, g_value_doc(rng, env, 1)])
    try:
        env["locals"] = ref_eval(["m", locs], env) if locs else {}
    except RefUndefined:
        env["locals"] = {}
    env["resource"] = base
    ret = g_overlay(rng, base, env, rng.choice([1, 2, 3]))
    return {"locals": locs, "return": ret}


def g_vf_case(rng, fx=False):
    inputs = g_map(rng, 3, IN_KEYS, 4, 1)
    if fx:
        inputs["fx"] = g_fx(rng)
    vb = rng.choice([None, {}, "map", "map", "map"])
    if vb == "map":
        vb = g_map(rng, 3, KEYS, 4, 1)
    share = rng.random() < 0.5
    if vb and rng.random() < 0.3:
        dup_submap(rng, vb)
        share = True
    f = g_svf(rng, inputs, vb or {})
    if rng.random() < 0.2:
        inject_alias(rng, f["return"], {"inputs": inputs}, roots=("inputs",))
    return {"kind": "vf", "f": f, "inputs": inputs, "value_base": vb, "share": share}


RF_KEYS = KEYS + ID_KEYS


def g_rf_case(rng, fx=False, alias=False, ident=False):
    """alias: one map-valued expression fills several paths of the template / an overlay / a ValueFunction return;
    ident: a cached template that already carries the identity apiConfig computes, few overlays, owned"""
    env = g_env(rng, fx=fx)
    env["inputs"]["name"] = rng.choice(["n1", "obj-a"])
    if alias:
        env["inputs"]["m"] = g_nested(rng, 1)
    case = {"kind": "rf", "env": env, "name": rng.choice(["obj", "the-name"]),
            "namespace": rng.choice(["ns1"] * 5 + [None]) if ident else rng.choice(["ns1", "ns1", None]),
            "templates": {}, "owned": rng.random() < (0.85 if ident else 0.5), "share": rng.random() < 0.5}
    r = rng.random()
    if r < (0.0 if ident else 0.8 if alias else 0.55):
        body = g_overlay(rng, {}, env, 3, RF_KEYS) if rng.random() < 0.9 else []
        if alias and rng.random() < 0.7:
            inject_alias(rng, body, env)
        case["template"] = ["inline", body]
        if rng.random() < 0.05:
            case["template_none"] = True
        try:
            base = ref_eval(["m", body], env) if body else {}
        except RefUndefined:
            base = {}
    else:
        tb = g_map(rng, 4, RF_KEYS, 4, 1)
        tb["apiVersion"] = rng.choice([API_VERSION, "other/v2"])
        tb["kind"] = rng.choice([KIND, "Other"])
        if rng.random() < 0.5:
            tb["metadata"] = rng.choice([{"labels": {"a": "b"}, "name": "tmpl-name"}, {"annotations": {}}, "not-a-map"])
        if ident and rng.random() < 0.75:
            tb = ref_merge_val(tb, forced_of(case))       # the forced overlay finds nothing to change
        tname = rng.choice(["n1", "tmpl"])
        case["templates"] = {tname: tb}
        if rng.random() < 0.5:
            env["inputs"]["name"] = tname
            case["template"] = ["ref", ["p", "inputs", ["name"]]]
        else:
            case["template"] = ["ref", ["c", tname]]
        if rng.random() < 0.05:
            case["template"] = ["ref", ["c", "missing"]]
        base = tb
    cur = ref_merge_val(base if isinstance(base, dict) else {}, forced_of(case))
    steps = []
    for _ in range(rng.choice([0, 0, 0, 1, 2] if ident else [1, 2, 2, 3] if alias else [0, 1, 1, 2, 2, 3, 4])):
        sk = rng.choice([None, None, None, ["c", True], ["c", False], ["p", "inputs", ["flag"]], ["c", 5]])
        if sk and sk[0] == "c" and sk[1] == 5 and rng.random() < 0.7:
            sk = None
        renv = {**env, "resource": cur}
        if rng.random() < 0.65:
            spec = g_overlay(rng, cur, renv, rng.choice([1, 2, 3, 4]), RF_KEYS)
            if alias and rng.random() < 0.25:
                inject_alias(rng, spec, env)
            steps.append({"kind": "inline", "spec": spec, "skip": sk})
            applied = lambda c, spec=spec: ref_merge(c, ["m", spec], {**env, "resource": c})
        else:
            vin = []
            if rng.random() < 0.7:
                for k in rng.sample(["a", "b", "m"], rng.randrange(1, 3)):
                    vin.append([k, g_value_doc(rng, env, 1)])
            if fx and rng.random() < 0.6:
                vin.append(["fx", ["p", "inputs", ["fx"]]])
            try:
                vinv = ref_eval(["m", vin], env) if vin else {}
            except RefUndefined:
                vinv = {}
            f = g_svf(rng, vinv, cur)
            if alias and rng.random() < 0.3:
                inject_alias(rng, f["return"], {"inputs": vinv}, roots=("inputs",))
            # prepare demands that every inputs.X the function mentions is provided
            need = {d[2][0] for d in iter_paths(f) if d[1] == "inputs" and d[2]}
            have = {k for k, _ in vin}
            for k in sorted(need - have):
                vin.append([k, ["p", "inputs", ["fx"]] if k == "fx" and "fx" in env["inputs"] else ["c", g_scalar(rng)]])
            if any(d[1] == "inputs" and not d[2] for d in iter_paths(f)) and not vin:
                vin.append(["a", ["c", 1]])
            steps.append({"kind": "fn", "f": f, "skip": sk, "inputs": vin})
            applied = lambda c, f=f, vin=vin: ref_vf(f, ref_eval(["m", vin], env) if vin else None, c)
        try:
            skv = ref_eval(sk, env) if sk else False
            if skv is False:
                nxt = applied(cur)
                if isinstance(nxt, dict):
                    cur = nxt
        except RefUndefined:
            pass
    case["steps"] = steps
    case["create"] = (g_overlay(rng, cur, {**env, "resource": cur}, 2 if not alias else 3, RF_KEYS)
                      if rng.random() < (0.15 if ident else 0.4) else [])
    return case


def g_flow_case(rng):
    """ResourceFunction with at least one overlayRef (so that koreo re-prepares it when that ValueFunction is
    offered again) and a skipIf on every overlay (true / false / computed)"""
    for _ in range(200):
        case = g_rf_case(rng)
        if any(s["kind"] == "fn" for s in case["steps"]):
            break
    for s in case["steps"]:
        if s["skip"] is None or (s["skip"][0] == "c" and not isinstance(s["skip"][1], bool)):
            s["skip"] = rng.choice([["c", True], ["c", True], ["c", False], ["p", "inputs", ["flag"]]])
    case["flow"] = True
    return case


def iter_paths(f):
    def walk(d):
        if d[0] == "p":
            yield d
        elif d[0] == "f":
            for x in [d[2]] + list(d[3]):
                yield from walk(x)
        elif d[0] == "l":
            for x in d[1]:
                yield from walk(x)
        elif d[0] == "m":
            for _, x in d[1]:
                yield from walk(x)
    for _, d in f["locals"] + f["return"]:
        yield from walk(d)


def fixed_cases():
    """hand-written edge cases (also serve as documentation of the semantics)"""
    e = {"inputs": {"m": {"q": 1}, "s": "x", "flag": True}}
    b = {"a": {"x": 1, "y": {"z": 2}}, "s": "str", "l": [1, {"k": 1}], "n": None, "e": {}}
    mk = lambda spec: {"kind": "ov", "base": b, "spec": spec, "env": e}
    yield {"kind": "ov", "base": b, "spec": [], "env": e}                      # empty overlay: no Overlay
    yield mk([["a", ["m", []]]])                                                # empty map replaces a map
    yield mk([["a", ["p", "inputs", ["m"]]]])                                   # computed map replaces a map
    yield mk([["a", ["m", [["y", ["m", [["w", ["c", 3]]]]]]]]])                 # map over map over map
    yield mk([["s", ["m", [["k", ["c", 1]]]]]])                                 # map over scalar
    yield mk([["l", ["m", [["k", ["c", 1]]]]]])                                 # map over list
    yield mk([["n", ["m", [["k", ["c", 1]]]]]])                                 # map over null
    yield mk([["a", ["l", [["m", [["k", ["p", "inputs", ["s"]]]]], ["c", 1]]]]])  # list of maps replaces
    yield mk([["a", ["m", [["x", ["p", "resource", ["a", "y"]]]]]], ["new", ["p", "resource", ["a"]]]])
    yield mk([["k.dot", ["m", [["x-y", ["c", 1]]]]], ["a", ["m", [["k.dot", ["c", 2]]]]]])
    yield mk([["a", ["p", "inputs", ["nope"]]]])                                # evaluation failure
    fe = {"inputs": {"fx": {"ll": [[{"verb": "get"}, {"verb": "list"}], [{"verb": "watch"}], [{"verb": "patch"}]],
                            "s": "A/b/C", "m1": {"a": {"x": 1}}, "m2": {"a": {"y": 2}, "z": []}}}}
    yield {"kind": "ov", "base": b, "env": fe,                                 # extension functions on inputs
           "spec": [["rules", ["f", "flatten", ["p", "inputs", ["fx", "ll"]], []]],
                    ["a", ["m", [["parts", ["f", "split", ["p", "inputs", ["fx", "s"]], [["c", "/"]]]],
                                 ["low", ["f", "lower", ["p", "inputs", ["fx", "s"]], []]]]]],
                    ["merged", ["f", "overlay", ["p", "inputs", ["fx", "m1"]], [["p", "inputs", ["fx", "m2"]]]]]]}
    yield {"kind": "ov", "base": {"fx": fe["inputs"]["fx"], "keep": 1}, "env": {"inputs": {}},   # … on resource
           "spec": [["fx", ["m", [["flat", ["f", "flatten", ["p", "resource", ["fx", "ll"]], []]]]]]]}
    yield {"kind": "vf", "inputs": fe["inputs"], "value_base": {"rules": []},
           "f": {"locals": [["all", ["f", "flatten", ["p", "inputs", ["fx", "ll"]], []]]],
                 "return": [["rules", ["p", "locals", ["all"]]], ["again", ["f", "flatten", ["p", "inputs", ["fx", "ll"]], []]]]}}
    yield {"kind": "deep", "resource": b, "overlay": {"a": {}, "e": {"k": 1}, "s": {"k": 1}, "l": [], "new": {"x": {}}}}
    yield {"kind": "deep", "resource": {"metadata": "scalar"}, "overlay": {"metadata": {"name": "n"}}}
    yield {"kind": "vf", "f": {"locals": [["l1", ["p", "inputs", ["m"]]]],
                               "return": [["a", ["m", [["x", ["p", "locals", ["l1", "q"]]]]]], ["r", ["p", "resource", ["s"]]]]},
           "inputs": e["inputs"], "value_base": b}
    yield {"kind": "vf", "f": {"locals": [], "return": [["a", ["c", 1]]]}, "inputs": {}, "value_base": None}
    yield {"kind": "vf", "f": {"locals": [], "return": [["a", ["c", 1]]]}, "inputs": {}, "value_base": {}}
    yield {"kind": "vf", "f": {"locals": [["l1", ["p", "resource", []]]], "return": [["a", ["p", "locals", ["l1"]]]]},
           "inputs": {}, "value_base": {}}                                      # `if value_base:` — resource unbound for locals


RUN = {"ov": (run_ov, oracle_ov, coq_ov), "deep": (run_deep, oracle_deep, coq_deep),
       "vf": (run_vf, oracle_vf, coq_vf), "rf": (run_rf, oracle_rf, coq_rf)}


def gen_cases(ctx: Ctx):
    for c in corpus_cases("C12"):
        yield c
    yield from fixed_cases()
    yield from shape_cases(6 if ctx.quick() else 8)
    q = ctx.quick()
    for _ in range(1200 if q else 20000):
        yield g_ov_case(ctx.rng)
    for _ in range(500 if q else 6000):
        yield g_deep_case(ctx.rng)
    for _ in range(500 if q else 6000):
        yield g_vf_case(ctx.rng)
    for _ in range(800 if q else 10000):
        yield g_rf_case(ctx.rng)
    for _ in range(200 if q else 2500):
        yield g_flow_case(ctx.rng)
    # alias stream: one computed map fills several paths, later overlays reach into one of them
    for _ in range(300 if q else 4000):
        yield g_rf_case(ctx.rng, alias=True)
    # identity stream: cached templates on which the forced overlay is a no-op, few overlays, owned -> create path
    for _ in range(150 if q else 2000):
        yield g_rf_case(ctx.rng, ident=True)
    # function streams: leaves that call koreo's CEL extension functions on values taken from inputs/locals/resource
    for _ in range(400 if q else 6000):
        with fn_stream(0.45):
            c = g_ov_case(ctx.rng, fx=True)
        yield c
    for _ in range(200 if q else 2500):
        with fn_stream(0.45):
            c = g_vf_case(ctx.rng, fx=True)
        yield c
    for _ in range(250 if q else 3000):
        with fn_stream(0.35):
            c = g_rf_case(ctx.rng, fx=True)
        yield c


def nontrivial(case) -> bool:
    k = case["kind"]
    if k == "ov":
        return len(case["spec"]) >= 2 or any(p[0] in case["base"] for p in case["spec"])
    if k == "deep":
        return any(x in case["resource"] for x in case["overlay"])
    if k == "vf":
        return bool(case["f"]["return"])
    return bool(case["steps"]) or bool(case["create"])


def depth_of(d):
    if d[0] == "m" and d[1]:
        return 1 + max(depth_of(v) for _, v in d[1])
    return 0


def check_one(ctx: Ctx, case):
    runf, oracle, coq0 = RUN[case["kind"]]
    got = runf(case)
    rcase = got.pop("_resolved", case)
    coq = (lambda _case, g, rc=rcase: coq0(rc, g))
    bad = oracle(rcase, got)
    if bad:
        sig, what, want = bad
        seen = ctx.dist.setdefault("_shrunk", [])
        small = case
        if sig not in seen and len(seen) < 8:       # check.py reports one failure per signature
            seen.append(sig)
            small = shrink(case, runf, oracle, sig)
        ctx.fail(Failure(signature=sig, what=what, case=small, observed=got if small is case else runf(small),
                         expected=want if small is case else None))
    return got, coq


def _is_pairs(x):
    return isinstance(x, list) and x and all(isinstance(e, list) and len(e) == 2 and isinstance(e[0], str) for e in x)


def _deletions(node, path=()):
    """paths (tuples of keys/indices) of elements that may be deleted: entries of overlay documents
    (lists of [key, doc] pairs), steps, and keys of plain JSON data"""
    if isinstance(node, dict):
        for k, v in node.items():
            if path and path[0] in ("base", "resource", "overlay", "value_base", "templates", "env", "inputs"):
                if len(path) >= 1 and not (path[0] == "env" and len(path) == 1) and not (path[0] == "templates" and len(path) == 1):
                    yield path + (k,)
            yield from _deletions(v, path + (k,))
    elif isinstance(node, list):
        if _is_pairs(node) or (path and path[-1] == "steps"):
            for i in range(len(node)):
                yield path + (i,)
        for i, v in enumerate(node):
            yield from _deletions(v, path + (i,))


def _delete(case, path):
    c = copy.deepcopy(case)
    node = c
    for k in path[:-1]:
        node = node[k]
    del node[path[-1]]
    return c


def shrink(case, runf, oracle, sig, budget=300):
    """greedy structural shrinking: delete overlay entries (at any depth), steps and data keys while
    the same failure (same signature) remains"""
    def fails(c):
        try:
            g = runf(c)
            b = oracle(g.pop("_resolved", c), g)
            return bool(b) and b[0] == sig
        except Exception:  # noqa: BLE001
            return False

    cur = copy.deepcopy(case)
    progressed = True
    while progressed and budget > 0:
        progressed = False
        for path in sorted(_deletions(cur), key=lambda p: (len(p), str(p))):
            if budget <= 0:
                break
            try:
                cand = _delete(cur, path)
            except Exception:  # noqa: BLE001
                continue
            budget -= 1
            if fails(cand):
                cur, progressed = cand, True
                break
    return cur


def fn_leaves(node):
    """all function-call leaves anywhere in a case"""
    if isinstance(node, list):
        if len(node) >= 4 and node[0] == "f" and isinstance(node[1], str):
            yield node
            return
        for x in node:
            yield from fn_leaves(x)
    elif isinstance(node, dict):
        for x in node.values():
            yield from fn_leaves(x)


def run(ctx: Ctx):
    cases, terms = [], []
    try:
        for case in gen_cases(ctx):
            got, coq = check_one(ctx, case)
            k = case["kind"]
            for leaf in fn_leaves({x: case.get(x) for x in ("spec", "f", "steps", "create", "template")}):
                ctx.count(f"fn:{leaf[1]}:on:{leaf[2][1]}")
            ctx.note_case(case, nontrivial=nontrivial(case))
            ctx.count(f"kind:{k}")
            if k == "ov":
                ctx.count(f"ov:depth:{depth_of(['m', case['spec']])}")
                if got["prepared"] != "Overlay" and got["prepared"] is not None:
                    ctx.count("ov:unprepared")
                    continue
                ctx.count(f"ov:outcome:{'none' if got['prepared'] is None else got['obs'][0]}")
            elif k == "deep":
                if got["obs"][0] != "Done":
                    continue
            elif k == "vf":
                if got["prepared"] != "ValueFunction":
                    ctx.count("vf:unprepared")
                    continue
                ctx.count(f"vf:base:{'none' if case['value_base'] is None else 'empty' if not case['value_base'] else 'map'}")
                ctx.count(f"vf:outcome:{got['obs'][0]}")
            else:
                if got["prepared"] != "ok":
                    ctx.count("rf:unprepared")
                    continue
                if has_numeral_string(case["env"].get("locals")):
                    ctx.count("rf:static-locals-with-numeral-strings(normalised)")
                ctx.count(f"rf:steps:{len(case['steps'])}")
                ctx.count(f"rf:template:{case['template'][0]}")
                ctx.count(f"rf:target:{got['obs']['target'][0]}")
                if "flow" in got:
                    ctx.count(f"rf:flow:reprepared={got['flow']['reprepared']}")
                if "reconcile" in got:
                    ctx.count(f"rf:reconcile:{got['reconcile']['outcome']}:posts={got['reconcile']['posts']}")
                for s in case["steps"]:
                    ctx.count(f"rf:step:{s['kind']}:skip={'none' if s['skip'] is None else s['skip'][0] + ':' + str(s['skip'][1])}")
            cases.append(case)
            terms.append(coq(case, got))
    finally:
        global _REAL
        if _REAL is not None:
            _REAL.close()
            _REAL = None
    ctx.dist.pop("_shrunk", None)
    unprepared = sum(ctx.dist.get(k, 0) for k in ("ov:unprepared", "vf:unprepared", "rf:unprepared"))
    if unprepared:
        ctx.notes.append(f"{unprepared} generated specs were rejected by the real prepare_* functions and were skipped "
                         "(preparation is outside C12); the generators are expected to produce none")
    if ctx.model_ok:
        ctx.correspond("overlay / _overlay / ValueFunction / ResourceFunction pipeline vs Overlay.v",
                       "Corr_C12", cases, terms)


def replay(ctx: Ctx, data):
    case = data["case"] if "case" in data else data
    got, coq = check_one(ctx, case)
    ctx.note_case(case, True)
    if ctx.model_ok:
        ctx.correspond("replay", "Corr_C12", [case], [coq(case, got)])
