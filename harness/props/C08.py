"""C08 — payloads are clean: no directives, truthful last-applied, owners preserved.

Real code: the helpers at the end of src/koreo/resource_function/reconcile/__init__.py
(_strip_koreo_directives, _prepare_for_api, _extract_last_applied, _updated_owner_refs,
_validate_owner_reffed) and the create / patch branches of reconcile_krm_resource, run
(a) directly on generated documents and (b) through real ResourceFunctions against the in-memory
cluster.  Model: coq/model/Payload.v.  The directive names and the annotation key below are
written by hand on purpose (never read from koreo.constants)."""
from __future__ import annotations

import copy
import json
import logging
import math

from common import (Ctx, Failure, cbool, cjson, clist, copt, cstr, corpus_cases)

COQ_TARGETS = ["props/P_C08.vo", "corr/Corr_C08.vo"]
PROOF_FILES = ["proofs/Payload_proofs.v"]
RULE = ("unit level: JSON documents (all scalar kinds incl. big ints, dyadic floats, non-ASCII text; lists; maps) with "
        "the three directive keys and near-miss keys injected at random depths, inside list items, with scalar/list/map "
        "values; metadata / annotations / ownerReferences present, absent, empty, non-map; 0-3 references some sharing "
        "the parent's uid, some without uid, some not maps; random (target, patch) pairs with nulls for merge-patch.  "
        "flow level: real ResourceFunctions (inline resource, ResourceTemplate through the cache, 0-2 overlays, create "
        "overlay; directives in each) x owned x owner namespace equal/different/None x namespaced/cluster-scoped x "
        "create pass / patch pass (drifted or matching live object, 0-3 pre-existing references); annotation and label "
        "values that are text, int, bool, float, null, list or map, static or computed from the inputs; directives coming from "
        "exactly one origin (template only / overlayRef return only / inline only / create overlay only); SEQUENCES of 2-4 "
        "reconciles in one process sharing koreo's caches (a ResourceTemplate that already names the managed object, used by "
        "an owning function and then by non-owning / other-namespace / other-parent functions; create, delete, create "
        "again), with a snapshot check of the cached template after every reconcile.  A case is non-trivial "
        "when its input contains a directive key, a pre-existing reference, or is a flow; distinct by content")
ASSUMPTIONS = [
    "the target does not itself specify metadata.ownerReferences or the last-applied annotation key (the theorems "
    "about the annotation / owner references; the strip and no-directive theorems need no hypothesis)",
    "metadata and metadata.annotations of the target, if present, are maps (otherwise _prepare_for_api raises "
    "TypeError, modelled as Raised; reconcile_krm_resource lets it escape)",
    "the target has a metadata map when the create path runs (the forced name/namespace overlay puts one there)",
    "owner references on the live object and the parent's reference are maps carrying no koreo directive keys; "
    "the target is a Python dict (unique keys, `wf`)",
    "json.loads(json.dumps(v)) == v for JSON documents (CPython; exercised on every prepared payload: floats, "
    "big ints, non-ASCII, key order) — json.dumps/loads themselves are not modelled",
    "documents are plain JSON values: celtypes wrappers compare/serialise like the plain values they wrap for the "
    "shapes the flow generator emits (string uids; no bytes/timestamps)",
    "kr8s: APIObject(resource, namespace) writes metadata.namespace, .raw re-injects kind/apiVersion, create()/patch() "
    "send json.dumps of that dict in one call_api; PATCH is applied by the cluster as RFC 7386 merge-patch",
]
TRUSTED = [
    "harness/cluster.py merge_patch is cross-checked against the Coq merge_patch on every run",
    "capturing the arguments of _prepare_for_api/_updated_owner_refs/validate_match by wrapping the module attributes "
    "in-process does not change what the code does",
]

DIRECTIVES = ("x-koreo-compare-as-set", "x-koreo-compare-as-map", "x-koreo-compare-last-applied")
ANNOT = "koreo.dev/last-applied-configuration"
PLACEHOLDER = "<last-applied>"
NEAR_MISS = ("x-koreo-compare-as-sets", "X-Koreo-Compare-As-Set", "x-koreo-compare", "x-koreo-compare-as-map ",
             "x_koreo_compare_as_set", "koreo-compare-as-set", "x-koreo-compare-last-applied-x")


# =====================================================================================
# oracle: the property text, directly
# =====================================================================================

def find_directive(v, path=()):
    """Path of a koreo directive key occurring anywhere in v, or None."""
    if isinstance(v, dict):
        for k, x in v.items():
            if k in DIRECTIVES:
                return list(path) + [k]
            r = find_directive(x, path + (k,))
            if r:
                return r
    elif isinstance(v, (list, tuple)):
        for i, x in enumerate(v):
            r = find_directive(x, path + (i,))
            if r:
                return r
    return None


def canon(v) -> str:
    """Type-strict, key-order-insensitive JSON text (1, 1.0 and true differ)."""
    return json.dumps(v, sort_keys=True, ensure_ascii=False)


def annotation_text(body):
    try:
        return body["metadata"]["annotations"][ANNOT]
    except (KeyError, TypeError, IndexError):
        return None


def without_annotation(body):
    b = copy.deepcopy(body)
    del b["metadata"]["annotations"][ANNOT]
    return b


def annotation_problem(body):
    """None if the last-applied annotation of `body` is exactly the JSON of `body` without that
    annotation (up to an empty annotations / metadata map that exists only to hold it)."""
    text = annotation_text(body)
    if text is None:
        return "object sent has no last-applied annotation"
    if not isinstance(text, str):
        return "last-applied annotation is not a string"
    try:
        parsed = json.loads(text)
    except ValueError:
        return "last-applied annotation is not JSON"
    b1 = without_annotation(body)
    accepted = [b1]
    if b1["metadata"]["annotations"] == {}:
        b2 = copy.deepcopy(b1)
        del b2["metadata"]["annotations"]
        accepted.append(b2)
        if b2["metadata"] == {}:
            b3 = copy.deepcopy(b2)
            del b3["metadata"]
            accepted.append(b3)
    if canon(parsed) in [canon(a) for a in accepted]:
        return None
    return "last-applied annotation differs from the object as sent without it"


def refs_of(obj):
    try:
        r = obj["metadata"]["ownerReferences"]
    except (KeyError, TypeError):
        return []
    return list(r) if isinstance(r, list) else []


def has_uid(refs, uid):
    return any(isinstance(r, dict) and r.get("uid") == uid for r in refs)


# =====================================================================================
# generators (unit level)
# =====================================================================================

TEXTS = ["", "a", "v1", "finalizers", "name", "café", "日本語", "\U0001f600", "x y", "=not-an-expr",
         "uid-parent", "null", "{}", "0"]
INTS = [0, 1, -1, 2, 7, 42, -300, 2 ** 31, 2 ** 63, 2 ** 70, -(2 ** 70)]
FLOATS = [0.0, -0.0, 0.5, 2.5, -1.25, 0.1, 1e22, 1e-7, 3.141592653589793, 1.0, 5e-324, 1.7976931348623157e308]
KEYS = ["a", "b", "c", "spec", "items", "name", "labels", "data", "kéy", "uid", "kind"]


def gen_scalar(rng):
    k = rng.random()
    if k < 0.12:
        return None
    if k < 0.25:
        return rng.choice([True, False])
    if k < 0.5:
        return rng.choice(INTS)
    if k < 0.65:
        return rng.choice(FLOATS)
    return rng.choice(TEXTS)


def gen_value(rng, depth, p_dir=0.2, p_special=0.05):
    """Random JSON document; directive keys (and near misses) appear as map keys with
    probability p_dir per map, at any depth, with scalar / list / map values."""
    if depth <= 0 or rng.random() < 0.3:
        return gen_scalar(rng)
    if rng.random() < 0.4:
        return [gen_value(rng, depth - 1, p_dir, p_special) for _ in range(rng.choice([0, 1, 1, 2, 3]))]
    d = {}
    for _ in range(rng.choice([0, 1, 2, 2, 3, 4])):
        r = rng.random()
        if r < p_special:
            k = rng.choice(["metadata", "annotations", "ownerReferences", ANNOT])
        else:
            k = rng.choice(KEYS)
        d[k] = gen_value(rng, depth - 1, p_dir, p_special)
    if rng.random() < p_dir:
        for _ in range(rng.choice([1, 1, 2])):
            k = rng.choice(DIRECTIVES) if rng.random() < 0.75 else rng.choice(NEAR_MISS)
            v = gen_value(rng, depth - 1, p_dir, p_special) if rng.random() < 0.6 else \
                rng.choice([["finalizers"], {"k": ["name"]}, [], {}, "x", None, ["a", "b"]])
            d[k] = v
        if rng.random() < 0.5:    # not always last in the map
            items = list(d.items())
            rng.shuffle(items)
            d = dict(items)
    return d


# annotation / label values that are not strings: the code sends them as they are and records them as they are
NONSTRING = [3, 0, -7, True, False, 2.5, 0.0, None, [], ["a", 1], {}, {"k": 1}, 2 ** 70, [None], {"n": None}]


def gen_annotations(rng, allow_key=True):
    r = rng.random()
    if r < 0.25:
        return "absent"
    if r < 0.4:
        return {}
    if r < 0.5:
        return rng.choice([None, "x", 0, [], ["annotations"], True, 1.5, ""])
    an = {rng.choice(["a", "note", "kéy"]): (rng.choice(TEXTS) if rng.random() < 0.55 else rng.choice(NONSTRING))
          for _ in range(rng.choice([1, 2, 3]))}
    if allow_key and rng.random() < 0.25:
        an[ANNOT] = rng.choice(["mine", "{}", ""])
    if rng.random() < 0.2:
        an[rng.choice(DIRECTIVES)] = ["x"]
    return an


def gen_target(rng, depth=3):
    """A target as _prepare_for_api may receive it: usually a map with metadata."""
    r = rng.random()
    if r < 0.06:
        return rng.choice([None, 0, 5, "s", "metadata", [], ["metadata"], [1], True, 2.5, ""])
    t = {}
    if rng.random() < 0.7:
        t["apiVersion"] = "v1"
        t["kind"] = "Widget"
    m = rng.random()
    if m < 0.12:
        pass
    elif m < 0.22:
        t["metadata"] = rng.choice([None, "x", 0, [], ["annotations"], [1], True, "annotations", {}])
    else:
        md = {"name": "w"}
        if rng.random() < 0.5:
            md["namespace"] = "ns"
        if rng.random() < 0.4:
            md["labels"] = gen_value(rng, 1) if rng.random() < 0.5 else \
                {rng.choice(["app", "tier"]): rng.choice(TEXTS + NONSTRING) for _ in range(rng.choice([1, 2]))}
        an = gen_annotations(rng)
        if an != "absent":
            md["annotations"] = an
        if rng.random() < 0.15:
            md["ownerReferences"] = gen_refs(rng, "uid-parent")
        if rng.random() < 0.3:
            md[rng.choice(DIRECTIVES)] = rng.choice([["finalizers"], {"k": ["name"]}, "x"])
        if rng.random() < 0.3:
            items = list(md.items())
            rng.shuffle(items)
            md = dict(items)
        t["metadata"] = md
    for k in rng.sample(["spec", "data", "status"], rng.choice([0, 1, 1, 2])):
        t[k] = gen_value(rng, depth, p_dir=0.35)
    if rng.random() < 0.3:
        t[rng.choice(DIRECTIVES)] = rng.choice([["spec"], {"spec": ["name"]}, None])
    if rng.random() < 0.3:
        items = list(t.items())
        rng.shuffle(items)
        t = dict(items)
    return t


def gen_ref(rng, parent_uid):
    r = rng.random()
    if r < 0.08:
        return rng.choice(["x", None, 5, [], ["uid"], True])            # not a map
    ref = {"apiVersion": "v1", "kind": rng.choice(["Parent", "Other"]), "name": rng.choice(["p", "q"])}
    u = rng.random()
    if u < 0.3:
        ref["uid"] = parent_uid
    elif u < 0.75:
        ref["uid"] = rng.choice(["u1", "u2", "u3", "", 7, 7.0, None, True, 1, ["l"], {"m": 1}])
    # else: no uid at all
    if rng.random() < 0.15:
        ref[rng.choice(DIRECTIVES)] = ["x"]
    if rng.random() < 0.3:
        ref["controller"] = rng.choice([True, False])
    return ref


def gen_refs(rng, parent_uid):
    r = rng.random()
    if r < 0.12:
        return rng.choice([None, "", 0, {}, False, "corrupt", 5, {"uid": parent_uid}, True, 0.0])
    return [gen_ref(rng, parent_uid) for _ in range(rng.choice([0, 1, 1, 2, 2, 3]))]


def gen_owner(rng):
    r = rng.random()
    if r < 0.06:
        return rng.choice(["owner", None, 5, [], ["uid"]])
    o = {"apiVersion": "v1", "kind": "Parent", "name": "parent", "blockOwnerDeletion": True, "controller": False}
    u = rng.random()
    if u < 0.75:
        o["uid"] = "uid-parent"
    elif u < 0.9:
        o["uid"] = rng.choice([None, 7, "", 1, True])
    if rng.random() < 0.1:
        o = {"uid": o.get("uid", "uid-parent")}
    return o


def gen_view(rng, owner):
    """resource_view / live object for the owner-reference helpers."""
    r = rng.random()
    if r < 0.06:
        return rng.choice([None, [], "metadata", 5, {}, {"spec": {}}, ["metadata"]])
    if r < 0.14:
        return {"metadata": rng.choice([None, "x", 0, [], ["ownerReferences"], True, "ownerReferences"])}
    md = {"name": "w"}
    puid = owner.get("uid", "uid-parent") if isinstance(owner, dict) else "uid-parent"
    if not isinstance(puid, str):
        puid = "uid-parent"
    if rng.random() < 0.8:
        md["ownerReferences"] = gen_refs(rng, puid)
    if rng.random() < 0.3:
        md["labels"] = {"a": "b"}
    return {"apiVersion": "v1", "kind": "Widget", "metadata": md, "spec": gen_value(rng, 1)}


ANN_TEXTS = ["", "null", "{}", "[]", "0", "false", "\"\"", "\"s\"", "1.5", "not json", "{", "[1,2", "{\"a\": 1,}",
             " {\"a\": [1, 2.5, null]} ", "{\"metadata\": {\"name\": \"w\"}, \"spec\": {\"n\": 3}}", "tru", "1 2"]


def gen_live_extract(rng):
    r = rng.random()
    if r < 0.08:
        return rng.choice([None, {}, [], "", 0, [1], "x", 5, True])
    if r < 0.18:
        return {"metadata": rng.choice([None, {}, [], "", 0, [1], "x", 5, True, ["annotations"]])}
    if r < 0.3:
        return {"metadata": {"name": "w",
                             "annotations": rng.choice([None, {}, [], "", 0, [1], "x", 5, True, [ANNOT]])}}
    if r < 0.35:
        return {"spec": {}}
    an = {"a": "b"} if rng.random() < 0.5 else {}
    k = rng.random()
    if k < 0.15:
        pass
    elif k < 0.3:
        an[ANNOT] = rng.choice([None, 0, 5, [], [1], {}, {"a": 1}, True, False, 2.5, ""])
    elif k < 0.6:
        an[ANNOT] = rng.choice(ANN_TEXTS)
    else:
        an[ANNOT] = json.dumps(gen_value(rng, 2), ensure_ascii=rng.random() < 0.5)
    return {"kind": "Widget", "metadata": {"name": "w", "annotations": an}}


def gen_merge_value(rng, depth):
    if depth <= 0 or rng.random() < 0.35:
        return rng.choice([None, None, 1, "x", True, 2.5, [], [1, None], {}, 0])
    if rng.random() < 0.2:
        return [gen_merge_value(rng, depth - 1) for _ in range(rng.choice([0, 1, 2]))]
    return {rng.choice(["a", "b", "c", "metadata", "ownerReferences"]): gen_merge_value(rng, depth - 1)
            for _ in range(rng.choice([0, 1, 2, 3]))}


# =====================================================================================
# running the real helpers (unit level)
# =====================================================================================

def exn_name(e):
    if isinstance(e, KeyError):
        return "ExKeyError"
    if isinstance(e, TypeError):
        return "ExTypeError"
    if isinstance(e, AttributeError):
        return "ExAttributeError"
    if isinstance(e, ValueError):
        return "ExValueError"
    return None


class Unmodelled(Exception):
    pass


def plain_json(v):
    """True if v is a finite plain-JSON document (what cjson can print)."""
    if v is None or isinstance(v, (bool, int, str)):
        return True
    if isinstance(v, float):
        return not (math.isnan(v) or math.isinf(v))
    if isinstance(v, list):
        return all(plain_json(x) for x in v)
    if isinstance(v, dict):
        return all(isinstance(k, str) and plain_json(x) for k, x in v.items())
    return False


def split_prepared(out):
    """real _prepare_for_api result -> (body with placeholder, recorded document)."""
    if not isinstance(out, dict):
        raise Unmodelled(f"_prepare_for_api returned {type(out).__name__}")
    text = annotation_text(out)
    if not isinstance(text, str):
        raise Unmodelled("prepared object carries no last-applied annotation string")
    try:
        recorded = json.loads(text)
    except ValueError:
        raise Unmodelled("last-applied annotation is not JSON")
    body = copy.deepcopy(out)
    body["metadata"]["annotations"][ANNOT] = PLACEHOLDER
    return body, recorded


def c_res(r, f):
    return f"(Done {f(r[1])})" if r[0] == "done" else f"(Raised {r[1]})"


def c_prepared(p):
    return "{| body := %s; recorded := %s |}" % (cjson(p[0]), cjson(p[1]))


def c_owner_result(r):
    return "OwnerPermFail" if r == "permfail" else f"(OwnerRefs {clist(r, cjson)})"


def c_reffed(r):
    return "ReffedPermFail" if r == "permfail" else f"(Reffed {cbool(r)})"


def c_sent(s):
    return "NoCall" if s == "nocall" else f"(Sent {c_prepared(s)})"


def call(fn, *args):
    """('done', value) | ('raised', ExName); unknown exception classes are re-raised."""
    try:
        return ("done", fn(*args))
    except Exception as e:  # noqa: BLE001 - the exception class IS the observation
        n = exn_name(e)
        if n is None:
            raise
        return ("raised", n)


def run_unit(case):
    """Run the real helper; return (observation, gallina term)."""
    import koreo.resource_function.reconcile as R
    from koreo.result import PermFail
    k = case["kind"]
    if k == "strip":
        out = R._strip_koreo_directives(copy.deepcopy(case["j"]))
        if not plain_json(out):
            raise Unmodelled("strip result is not plain JSON")
        return out, f"CStrip {cjson(case['j'])} {cjson(out)}"
    if k == "prepare":
        r = call(R._prepare_for_api, copy.deepcopy(case["obj"]))
        if r[0] == "done":
            r = ("done", split_prepared(r[1]))
        return r, f"CPrepare {cjson(case['obj'])} {c_res(r, c_prepared)}"
    if k == "extract":
        live = case["live"]
        ann = None
        try:
            text = live["metadata"]["annotations"][ANNOT]
            if isinstance(text, str):
                ann = ("some", json.loads(text))
        except (KeyError, TypeError, IndexError, ValueError, AttributeError):
            ann = None
        if ann is not None and not plain_json(ann[1]):
            raise Unmodelled("annotation parses to a non-finite number")
        r = call(R._extract_last_applied, copy.deepcopy(live))
        c_ann = "None" if ann is None else f"(Some {cjson(ann[1])})"
        c_o = lambda v: "None" if v is None else f"(Some {cjson(v)})"
        return r, f"CExtract {cjson(live)} {c_ann} {c_res(r, c_o)}"
    if k in ("updated", "validate"):
        fn = R._updated_owner_refs if k == "updated" else R._validate_owner_reffed
        r = call(fn, copy.deepcopy(case["view"]), copy.deepcopy(case["owner"]))
        if r[0] == "done":
            v = r[1]
            if isinstance(v, PermFail):
                v = "permfail"
            elif k == "updated" and isinstance(v, (list, tuple)):
                v = list(v)
            elif k == "validate" and isinstance(v, bool):
                pass
            else:
                raise Unmodelled(f"{fn.__name__} returned {type(v).__name__}")
            r = ("done", v)
        cons = "CUpdated" if k == "updated" else "CValidate"
        return r, f"{cons} {cjson(case['view'])} {cjson(case['owner'])} {c_res(r, c_owner_result if k == 'updated' else c_reffed)}"
    if k == "merge":
        import cluster
        out = cluster.merge_patch(copy.deepcopy(case["target"]), copy.deepcopy(case["patch"]))
        return out, f"CMerge {cjson(case['target'])} {cjson(case['patch'])} {cjson(out)}"
    raise ValueError(k)


def unit_oracle(case, obs):
    """(signature, what) if the property fails on this unit case, else None."""
    k = case["kind"]
    if k == "strip":
        p = find_directive(obs)
        if p:
            return ("strip: directive key left in the result", f"_strip_koreo_directives left {p[-1]!r} at {p}")
        # (that nothing ELSE changes is not in the property text: it is checked by the correspondence with
        #  the model — theorem C08_strip_only_removes — not by this oracle)
        return None
    if k == "prepare" and obs[0] == "done":
        body, recorded = obs[1]
        p = find_directive(body)
        if p:
            return ("prepare: directive key in the prepared object", f"_prepare_for_api left {p[-1]!r} at {p}")
        obj = case["obj"]
        # hypothesis of the annotation clause: the target does not carry the key itself
        md = obj.get("metadata") if isinstance(obj, dict) else None
        an = md.get("annotations") if isinstance(md, dict) else None
        if not (isinstance(an, dict) and ANNOT in an):
            real = copy.deepcopy(body)
            real["metadata"]["annotations"][ANNOT] = json.dumps(recorded)
            why = annotation_problem(real)
            if why:
                return ("prepare: " + why, why)
    return None


def shrink_json(v, still_fails):
    """Greedy structural shrinking of a JSON document while `still_fails(v)`."""
    def variants(x):
        if isinstance(x, dict):
            for k in list(x):
                y = dict(x)
                del y[k]
                yield y
            for k in list(x):
                for sub in variants(x[k]):
                    y = dict(x)
                    y[k] = sub
                    yield y
        elif isinstance(x, list):
            for i in range(len(x)):
                yield x[:i] + x[i + 1:]
            for i in range(len(x)):
                for sub in variants(x[i]):
                    yield x[:i] + [sub] + x[i + 1:]
    budget = 400
    changed = True
    while changed and budget > 0:
        changed = False
        for cand in variants(v):
            budget -= 1
            if budget <= 0:
                break
            try:
                ok = still_fails(cand)
            except Exception:  # noqa: BLE001
                ok = False
            if ok:
                v = cand
                changed = True
                break
    return v


def small_docs(depth):
    keys = ["a", "x-koreo-compare-as-set", "x-koreo-compare-as-map"]
    if depth == 0:
        return [1]
    sub = small_docs(depth - 1)
    out = [1, [], {}]
    out += [[x] for x in sub]
    out += [{k: x} for k in keys for x in sub]
    out += [{k1: x, k2: y} for k1 in keys for k2 in keys if k1 != k2 for x in sub for y in sub]
    return out


def holder_shapes():
    absent = object()
    metas = [absent, {}, {"name": "w"}, None, "x", [], ["annotations"], 0, "annotations", True]
    annos = [absent, {}, {"a": "b"}, {ANNOT: "mine"}, {"a": "b", ANNOT: ""}, None, "x", [], [ANNOT], 0,
             {"n": 3}, {"b": True, "s": "x"}, {"f": 2.5, "z": None}, {"l": ["a", 1], "m": {"k": 1}}]
    spots = ["none", "top", "metadata", "annotations", "list-item"]
    for m in metas:
        for a in (annos if isinstance(m, dict) else [absent]):
            for spot in spots:
                obj = {"kind": "Widget", "spec": {"items": [{"name": "a"}]}}
                if m is not absent:
                    md = copy.deepcopy(m)
                    if isinstance(md, dict) and a is not absent:
                        md["annotations"] = copy.deepcopy(a)
                    obj["metadata"] = md
                d = {"x-koreo-compare-as-set": ["x"]}
                if spot == "top":
                    obj.update(d)
                elif spot == "metadata":
                    if not isinstance(obj.get("metadata"), dict):
                        continue
                    obj["metadata"].update(d)
                elif spot == "annotations":
                    if not (isinstance(obj.get("metadata"), dict) and isinstance(obj["metadata"].get("annotations"), dict)):
                        continue
                    obj["metadata"]["annotations"].update(d)
                elif spot == "list-item":
                    obj["spec"]["items"][0].update(d)
                yield obj


def gen_unit_cases(ctx: Ctx):
    rng = ctx.rng
    q = ctx.quick()
    n = lambda a, b: a if q else b
    # fixed edge cases first
    fixed_strip = [
        {}, [], None, "x-koreo-compare-as-set", ["x-koreo-compare-as-set"],
        {"x-koreo-compare-as-set": ["a"]}, {"a": {"x-koreo-compare-as-map": {"k": ["n"]}}},
        {"a": [{"x-koreo-compare-last-applied": ["b"], "b": 1}, [{"x-koreo-compare-as-set": 1}]]},
        {"x-koreo-compare-as-set": {"x-koreo-compare-as-map": {"deep": {"a": 1}}}, "keep": {"z": 1, "a": 2}},
        {"a": {"b": {"c": {"d": {"e": [[[{"x-koreo-compare-as-set": []}]]]}}}}},
        {n_: 1 for n_ in NEAR_MISS}, {"k": 2 ** 70, "f": 0.1, "s": "café", "n": None, "b": False},
    ]
    for j in fixed_strip:
        yield {"kind": "strip", "j": j}
        yield {"kind": "prepare", "obj": j}
    # exhaustive small scope: every document of depth <= 2 over {scalar, [], [x], {}, {k:x}, {k1:x, k2:y}} with keys
    # from one ordinary key and two directive keys (1069 documents)
    for j in small_docs(2):
        yield {"kind": "strip", "j": j}
    # exhaustive: every metadata / annotations shape x where a directive sits
    for obj in holder_shapes():
        yield {"kind": "prepare", "obj": obj}
    for _ in range(n(600, 8000)):
        yield {"kind": "strip", "j": gen_value(rng, rng.choice([1, 2, 3, 4, 5]), p_dir=0.4)}
    for _ in range(n(800, 10000)):
        yield {"kind": "prepare", "obj": gen_target(rng, rng.choice([1, 2, 3, 4]))}
    for _ in range(n(350, 5000)):
        yield {"kind": "extract", "live": gen_live_extract(rng)}
    for _ in range(n(700, 9000)):
        owner = gen_owner(rng)
        view = gen_view(rng, owner)
        yield {"kind": "updated", "view": view, "owner": owner}
        yield {"kind": "validate", "view": view, "owner": owner}
    for _ in range(n(300, 5000)):
        yield {"kind": "merge", "target": gen_merge_value(rng, 3), "patch": gen_merge_value(rng, 3)}


# =====================================================================================
# flow level: real ResourceFunctions against the in-memory cluster
# =====================================================================================

OWNER_REF = {"apiVersion": "example.dev/v1", "kind": "Parent", "name": "parent", "uid": "uid-parent",
             "blockOwnerDeletion": True, "controller": False}
OWNER_REF2 = {"apiVersion": "example.dev/v1", "kind": "Parent", "name": "parent2", "uid": "uid-parent-2",
              "blockOwnerDeletion": True, "controller": False}
OWNERS = {"P1": OWNER_REF, "P2": OWNER_REF2}
FLOW_TEXTS = ["a", "v1", "café", "日本", "x y", "finalizers", "blue"]


def steps_of(scn):
    """The reconciles of a scenario, run in ONE process against one cluster without resetting koreo's
    caches in between.  op 'create': the object is removed from the cluster first; op 'patch': the stored
    object gets `live_refs` (None = key removed) and optionally drifts, then is reconciled."""
    if scn.get("seq"):
        return scn["seq"]
    out = [{"op": "create", "owned": scn["owned"], "owner_ns": scn["owner_ns"], "owner": "P1"}]
    if scn["mode"] == "patch":
        out.append({"op": "patch", "owned": scn["owned"], "owner_ns": scn["owner_ns"], "owner": "P1",
                    "live_refs": scn["live_refs"], "drift": scn["drift"]})
    return out


def gen_flow_value(rng, depth, p_dir):
    """Values that survive the trip through the CEL encoder unchanged (that trip is C11's business)."""
    if depth <= 0 or rng.random() < 0.3:
        r = rng.random()
        if r < 0.35:
            return rng.choice(FLOW_TEXTS)
        if r < 0.6:
            return rng.choice([0, 1, 3, 42, -7, 2 ** 31])
        if r < 0.75:
            return rng.choice([True, False])
        return rng.choice([2.5, 0.5, -1.25])
    if rng.random() < 0.4:
        return [gen_flow_value(rng, depth - 1, p_dir) for _ in range(rng.choice([1, 1, 2, 3]))]
    d = {rng.choice(["a", "b", "c", "items", "name", "cfg"]): gen_flow_value(rng, depth - 1, p_dir)
         for _ in range(rng.choice([1, 2, 3]))}
    if rng.random() < p_dir:
        k = rng.choice(DIRECTIVES)
        if rng.random() < 0.8:
            d[k] = {"x-koreo-compare-as-set": ["a", "b"], "x-koreo-compare-as-map": {"items": ["name"]},
                    "x-koreo-compare-last-applied": ["a"]}[k]
            if k == "x-koreo-compare-as-map":       # keep the comparison itself well-formed (C05 is not ours)
                d["items"] = [{"name": rng.choice(FLOW_TEXTS), "v": gen_flow_value(rng, depth - 1, p_dir)}
                              for _ in range(rng.choice([1, 2]))]
        else:
            d[k] = gen_flow_value(rng, 1, 0)
    return d


# what every flow reconcile receives as `inputs`; targets may compute values from it (`=inputs.replicas` …)
FLOW_INPUTS = {"replicas": 3, "flag": True, "off": False, "ratio": 2.5, "text": "blue", "items": ["a", 1],
               "cfg": {"k": 1}}
COMPUTED = ["=inputs.replicas", "=inputs.flag", "=inputs.off", "=inputs.ratio", "=inputs.text", "=inputs.items",
            "=inputs.cfg", "=inputs.replicas + 1", "=inputs.replicas > 2"]
FLOW_NONSTRING = [3, 0, True, False, 2.5, None, ["a", 1], {"k": 1}]


def gen_meta_value(rng):
    """an annotation / label value: mostly text, regularly a non-string, static or computed from the inputs"""
    r = rng.random()
    if r < 0.5:
        return rng.choice(FLOW_TEXTS)
    if r < 0.75:
        return rng.choice(FLOW_NONSTRING)
    return rng.choice(COMPUTED)


def staticize(v):
    """the document with every `=inputs.…` expression replaced by a static value (for ValueFunction returns,
    whose own `inputs` are not ours)"""
    if isinstance(v, dict):
        return {k: staticize(x) for k, x in v.items()}
    if isinstance(v, list):
        return [staticize(x) for x in v]
    if isinstance(v, str) and v.startswith("=inputs."):
        return {"=inputs.replicas": 3, "=inputs.flag": True, "=inputs.off": False, "=inputs.ratio": 2.5,
                "=inputs.text": "blue", "=inputs.items": ["a", 1], "=inputs.cfg": {"k": 1},
                "=inputs.replicas + 1": 4, "=inputs.replicas > 2": True}.get(v, "x")
    return v


def gen_flow_doc(rng, p_dir=0.5, with_meta=True):
    """A target fragment (resource / template / overlay body)."""
    doc = {}
    if with_meta and rng.random() < 0.7:
        md = {}
        if rng.random() < 0.6:
            md["labels"] = {k: gen_meta_value(rng) for k in rng.sample(["app", "tier", "n"], rng.choice([1, 1, 2]))}
        r = rng.random()
        if r < 0.4:
            md["annotations"] = {k: gen_meta_value(rng) for k in rng.sample(["note", "count", "on"], rng.choice([1, 2, 3]))}
        elif r < 0.46:
            md["annotations"] = {}
        if rng.random() < p_dir * 0.6:
            md["x-koreo-compare-as-set"] = ["finalizers"]
        if md or rng.random() < 0.3:
            doc["metadata"] = md
    for k in rng.sample(["spec", "data"], rng.choice([1, 1, 2])):
        v = gen_flow_value(rng, rng.choice([1, 2, 3]), p_dir)
        doc[k] = v if isinstance(v, dict) else {"value": v}
    if rng.random() < p_dir * 0.5:
        doc["x-koreo-compare-last-applied"] = ["spec"]
    return doc


def gen_live_refs(rng):
    r = rng.random()
    if r < 0.2:
        return None                       # key absent
    if r < 0.3:
        return []
    out = []
    for _ in range(rng.choice([1, 1, 2, 3])):
        u = rng.random()
        ref = {"apiVersion": "v1", "kind": "Other", "name": rng.choice(["o1", "o2"])}
        if u < 0.25:
            ref = dict(OWNER_REF) if rng.random() < 0.6 else {"apiVersion": "v0", "kind": "Parent", "name": "old",
                                                                "uid": "uid-parent"}
        elif u < 0.4:
            # same name / kind as the parent, but another object (uid differs): still lacking
            ref = {**OWNER_REF, "uid": rng.choice(["uid-previous-parent", "u1"])}
        elif u < 0.9:
            ref["uid"] = rng.choice(["u1", "u2", "u3"])
        out.append(ref)
    rng.shuffle(out)
    return out


def _strip_for_gen(v):
    """generator helper (hand-written, independent of the code under test): the document without directive entries"""
    if isinstance(v, dict):
        return {k: _strip_for_gen(x) for k, x in v.items() if k not in DIRECTIVES}
    if isinstance(v, list):
        return [_strip_for_gen(x) for x in v]
    return v


def gen_scenario(rng, idx):
    namespaced = rng.random() < 0.65
    ns = "ns1" if (namespaced or rng.random() < 0.5) else None
    owner_ns = rng.choice(["ns1", "ns1", "other", None])
    malformed = None
    r = rng.random()
    if r < 0.05:
        malformed = "annotations-not-map"
    elif r < 0.1:
        malformed = "own-owner-refs"
    elif r < 0.14:
        malformed = "own-annotation"
    scn = {
        "kind": "flow",
        "source": rng.choice(["inline", "inline", "template"]),
        "doc": gen_flow_doc(rng),
        "overlays": [gen_flow_doc(rng, p_dir=0.6, with_meta=rng.random() < 0.4)
                     for _ in range(rng.choice([0, 0, 1, 1, 2]))],
        "overlay_via_vf": [rng.random() < 0.3 for _ in range(2)],
        "create_overlay": gen_flow_doc(rng, p_dir=0.5, with_meta=False) if rng.random() < 0.3 else None,
        "owned": rng.random() < 0.6,
        "namespaced": namespaced, "ns": ns, "owner_ns": owner_ns,
        "mode": rng.choice(["create", "patch", "patch"]),
        "live_refs": gen_live_refs(rng),
        "drift": rng.random() < 0.6,
        "malformed": malformed,
    }
    if rng.random() < 0.2:
        # the target names a namespace itself (the same or another one than apiConfig's)
        scn["doc"].setdefault("metadata", {})["namespace"] = rng.choice(["ns1", "elsewhere"])
    if scn["source"] == "template":
        scn["identity_in_template"] = rng.random() < 0.5
    if malformed is None and rng.random() < 0.3:
        scn["seq"] = gen_sequence(rng, ns)
    if rng.random() < 0.25:
        # directives from ONE origin only: wipe them from everything else
        keep = rng.choice(["doc", "overlay0", "create"])
        wipe = lambda d: _strip_for_gen(d)
        if keep != "doc":
            scn["doc"] = wipe(scn["doc"])
        scn["overlays"] = [o if (keep == "overlay0" and i == 0) else wipe(o) for i, o in enumerate(scn["overlays"])]
        if scn["create_overlay"] is not None and keep != "create":
            scn["create_overlay"] = wipe(scn["create_overlay"])
    if malformed == "annotations-not-map":
        scn["doc"].setdefault("metadata", {})["annotations"] = "oops"
    elif malformed == "own-owner-refs":
        scn["doc"].setdefault("metadata", {})["ownerReferences"] = rng.choice(
            [[], [{"apiVersion": "v1", "kind": "Mine", "name": "m", "uid": "u-mine"}],
             [{"apiVersion": "v1", "kind": "Parent", "name": "parent", "uid": "uid-parent"}]])
    elif malformed == "own-annotation":
        md = scn["doc"].setdefault("metadata", {})
        if not isinstance(md.get("annotations"), dict):
            md["annotations"] = {}
        md["annotations"][ANNOT] = "mine"
    return scn


def directive_sources(scn):
    """where the target's directives come from: inline resource, template, inline overlay, vf overlay, create overlay"""
    out = []
    if find_directive(scn["doc"]):
        out.append("template" if scn["source"] == "template" else "inline")
    via = scn.get("overlay_via_vf") or []
    for i, o in enumerate(scn["overlays"]):
        if find_directive(o):
            out.append("vf-overlay" if (i < len(via) and via[i]) else "inline-overlay")
    if scn["create_overlay"] is not None and find_directive(scn["create_overlay"]):
        out.append("create-overlay")
    return sorted(set(out))


OTHER_REF = {"apiVersion": "v1", "kind": "Other", "name": "o", "uid": "u1"}


def sequence_scenarios():
    """one process, one cached ResourceTemplate (which already names the managed object), several
    reconciles by functions with different ownership: an owning create first, then creates / patches
    that must NOT carry that parent; and create -> delete -> create with a different parent."""
    plain = {"metadata": {"labels": {"app": "a"}}, "spec": {"n": 3, "mode": "fast"}}
    with_dir = {"metadata": {"labels": {"app": "a"}, "x-koreo-compare-as-set": ["finalizers"]},
                "spec": {"items": [{"name": "a", "x-koreo-compare-as-map": {"k": ["name"]}}], "n": 3}}
    A = {"op": "create", "owned": True, "owner_ns": "ns1", "owner": "P1"}
    laters = [
        [{"op": "create", "owned": False, "owner_ns": "ns1", "owner": "P1"}],
        [{"op": "create", "owned": True, "owner_ns": "other", "owner": "P1"}],
        [{"op": "create", "owned": True, "owner_ns": None, "owner": "P1"}],
        [{"op": "create", "owned": True, "owner_ns": "ns1", "owner": "P2"}],
        [{"op": "create", "owned": False, "owner_ns": "ns1", "owner": "P2"},
         {"op": "patch", "owned": False, "owner_ns": "ns1", "owner": "P2", "live_refs": [OTHER_REF], "drift": True}],
        [{"op": "patch", "owned": False, "owner_ns": "ns1", "owner": "P1", "live_refs": [OTHER_REF], "drift": True}],
        [{"op": "patch", "owned": True, "owner_ns": "other", "owner": "P1", "live_refs": [OTHER_REF], "drift": True}],
        [{"op": "patch", "owned": True, "owner_ns": "ns1", "owner": "P2", "live_refs": [OTHER_REF], "drift": False},
         {"op": "create", "owned": False, "owner_ns": "ns1", "owner": "P1"}],
    ]
    for doc in (plain, with_dir):
        for ident in (True, False):
            for later in laters:
                yield {"kind": "flow", "source": "template", "identity_in_template": ident,
                       "doc": copy.deepcopy(doc), "overlays": [], "overlay_via_vf": [False, False],
                       "create_overlay": None, "owned": True, "namespaced": True, "ns": "ns1", "owner_ns": "ns1",
                       "mode": "create", "live_refs": None, "drift": False, "malformed": None,
                       "seq": copy.deepcopy([A] + later)}


def directive_origin_scenarios():
    """the target's directives come from exactly ONE place, and the function's own spec mentions none
    when that place is the cached ResourceTemplate or an overlayRef ValueFunction's return."""
    clean = {"metadata": {"labels": {"app": "a"}}, "spec": {"n": 3}}
    dirty = {"metadata": {"labels": {"app": "a"}, "x-koreo-compare-as-set": ["finalizers"]},
             "spec": {"rules": [{"name": "a", "x-koreo-compare-as-map": {"k": ["name"]},
                                 "nested": {"x-koreo-compare-last-applied": ["v"], "v": 1}}], "n": 3}}
    dirty_overlay = {"spec": {"extra": [{"q": [1, 2], "x-koreo-compare-as-set": ["q"]}]}}
    base = {"kind": "flow", "owned": True, "namespaced": True, "ns": "ns1", "owner_ns": "ns1", "mode": "patch",
            "live_refs": [OTHER_REF], "drift": True, "malformed": None, "create_overlay": None}
    yield {**base, "source": "template", "doc": copy.deepcopy(dirty), "overlays": [], "overlay_via_vf": [False, False]}
    yield {**base, "source": "template", "identity_in_template": True, "doc": copy.deepcopy(dirty), "overlays": [],
           "overlay_via_vf": [False, False]}
    for src in ("inline", "template"):
        yield {**base, "source": src, "doc": copy.deepcopy(clean), "overlays": [copy.deepcopy(dirty_overlay)],
               "overlay_via_vf": [True, False]}
        yield {**base, "source": src, "doc": copy.deepcopy(clean), "overlays": [copy.deepcopy(dirty_overlay)],
               "overlay_via_vf": [False, False]}
        yield {**base, "source": src, "doc": copy.deepcopy(clean), "overlays": [],
               "overlay_via_vf": [False, False], "create_overlay": copy.deepcopy(dirty_overlay)}
    yield {**base, "source": "inline", "doc": copy.deepcopy(dirty), "overlays": [], "overlay_via_vf": [False, False]}


def gen_sequence(rng, ns):
    """random plan: starts with an owning same-namespace create more often than not."""
    def cfg():
        return {"owned": rng.random() < 0.5, "owner_ns": rng.choice([ns, ns, "other", None]),
                "owner": rng.choice(["P1", "P1", "P2"])}
    plan = [{"op": "create", **({"owned": True, "owner_ns": ns, "owner": "P1"} if rng.random() < 0.7 else cfg())}]
    for _ in range(rng.choice([1, 2, 2, 3])):
        if rng.random() < 0.5:
            plan.append({"op": "create", **cfg()})
        else:
            plan.append({"op": "patch", **cfg(), "live_refs": gen_live_refs(rng), "drift": rng.random() < 0.6})
    return plan


def metadata_value_scenarios():
    """every kind of annotation / label value (text, int, bool, float, null, list, map; static and computed from
    the inputs) x where it comes from (inline resource, template, inline overlay, overlayRef return, create overlay),
    create pass then drifted patch pass."""
    values = ["text", 3, 0, True, False, 2.5, None, ["a", 1], {"k": 1}] + COMPUTED
    base = {"kind": "flow", "owned": True, "namespaced": True, "ns": "ns1", "owner_ns": "ns1", "mode": "patch",
            "live_refs": [dict(OTHER_REF)], "drift": True, "malformed": None, "create_overlay": None,
            "overlays": [], "overlay_via_vf": [False, False]}
    clean = {"spec": {"n": 3}}
    for v in values:
        for holder in ("annotations", "labels"):
            frag = {"metadata": {holder: {"note": "plain", "val": copy.deepcopy(v)}}}
            yield {**base, "source": "inline", "doc": {**copy.deepcopy(frag), **copy.deepcopy(clean)}}
            yield {**base, "source": "template", "doc": {**copy.deepcopy(frag), **copy.deepcopy(clean)}}
            yield {**base, "source": "inline", "doc": copy.deepcopy(clean), "overlays": [copy.deepcopy(frag)]}
            yield {**base, "source": "inline", "doc": copy.deepcopy(clean), "overlays": [copy.deepcopy(frag)],
                   "overlay_via_vf": [True, False]}
            yield {**base, "source": "inline", "doc": copy.deepcopy(clean), "create_overlay": copy.deepcopy(frag)}


def namespace_scenarios():
    """every (namespaced flag x namespace supplied or not x target sets metadata.namespace: no / same / other)
    combination, from an inline resource and from a template, on the create path and on the patch path."""
    for namespaced in (True, False):
        for ns in ("ns1", None):
            for tns in (None, "ns1", "elsewhere"):
                for source in ("inline", "template"):
                    for mode in ("create", "patch"):
                        for owned, owner_ns in ((True, "ns1"), (True, None), (False, "other")):
                            md = {"labels": {"app": "a"}}
                            if tns is not None:
                                md["namespace"] = tns
                            yield {"kind": "flow", "source": source,
                                   "doc": {"metadata": md, "spec": {"x-koreo-compare-as-set": ["zones"],
                                                                     "zones": ["a", "b"], "replicas": 2}},
                                   "overlays": [], "overlay_via_vf": [False, False], "create_overlay": None,
                                   "owned": owned, "namespaced": namespaced, "ns": ns, "owner_ns": owner_ns,
                                   "mode": mode, "live_refs": [dict(OTHER_REF)], "drift": True, "malformed": None}


def exhaustive_scenarios():
    """every owner/namespace combination x create/patch x reference situation, on one fixed target."""
    doc = {"metadata": {"labels": {"app": "a"}, "x-koreo-compare-as-set": ["finalizers"]},
           "spec": {"items": [{"name": "a", "x-koreo-compare-as-map": {"k": ["name"]}}, {"name": "b"}],
                    "x-koreo-compare-last-applied": ["items"], "n": 3}}
    for owned in (True, False):
        for namespaced in (True, False):
            for owner_ns in ("ns1", "other", None):
                for mode, refs, drift in (("create", None, False), ("patch", None, True), ("patch", [], False),
                                          ("patch", [{"apiVersion": "v1", "kind": "Other", "name": "o", "uid": "u1"}], True),
                                          ("patch", [{"apiVersion": "v1", "kind": "Other", "name": "o", "uid": "u1"}], False),
                                          ("patch", [dict(OWNER_REF)], True),
                                          ("patch", [{"apiVersion": "v1", "kind": "Other", "name": "o", "uid": "u1"},
                                                     dict(OWNER_REF),
                                                     {"apiVersion": "v1", "kind": "Other", "name": "o2"}], True)):
                    yield {"kind": "flow", "source": "inline", "doc": copy.deepcopy(doc), "overlays": [],
                           "create_overlay": None, "owned": owned, "namespaced": namespaced,
                           "ns": "ns1" if namespaced else None, "owner_ns": owner_ns, "mode": mode,
                           "live_refs": copy.deepcopy(refs), "drift": drift, "malformed": None}


class Capture:
    """Wraps module attributes of koreo.resource_function.reconcile to see what the flow handed to
    the payload helpers (deep copies taken at call time)."""

    def __init__(self):
        import koreo.resource_function.reconcile as R
        import drivers
        self.R = R
        self.events = []
        self.saved = {}
        to_py = drivers.to_py
        ev = self.events

        o_prep = R._prepare_for_api
        o_upd = R._updated_owner_refs
        o_val = R._validate_owner_reffed
        o_match = R.validate_match

        # the wrappers pass every extra positional / keyword argument through untouched, so a change of
        # the helpers' signatures in the code under test does not turn into a harness artefact
        def prep(obj, *a, **kw):
            arg = copy.deepcopy(to_py(obj))
            out = o_prep(obj, *a, **kw)
            ev.append(("prepare", arg, copy.deepcopy(to_py(out))))
            return out

        def upd(view, *a, **kw):
            arg = copy.deepcopy(to_py(view))
            out = o_upd(view, *a, **kw)
            ev.append(("updated", arg, out))
            return out

        def val(view, *a, **kw):
            arg = copy.deepcopy(to_py(view))
            out = o_val(view, *a, **kw)
            ev.append(("validate", arg, out))
            return out

        def match(target, actual, *pa, **kw):
            t = copy.deepcopy(to_py(target))
            a = copy.deepcopy(to_py(actual))
            try:
                out = o_match(target, actual, *pa, **kw)
            except Exception:
                ev.append(("match", t, a, None))     # the comparison itself crashed (C05's business)
                raise
            ev.append(("match", t, a, bool(out.match)))
            return out

        self.saved = {"_prepare_for_api": o_prep, "_updated_owner_refs": o_upd,
                      "_validate_owner_reffed": o_val, "validate_match": o_match}
        R._prepare_for_api = prep
        R._updated_owner_refs = upd
        R._validate_owner_reffed = val
        R.validate_match = match

    def restore(self):
        for k, v in self.saved.items():
            setattr(self.R, k, v)

    def take(self):
        out = list(self.events)
        self.events.clear()
        return out


def build_spec(scn, owned=None):
    kind = "Widget" if scn["namespaced"] else "Gadget"
    api = {"apiVersion": "example.dev/v1", "kind": kind, "plural": kind.lower() + "s", "name": "w1",
           "namespaced": scn["namespaced"], "owned": scn["owned"] if owned is None else owned}
    if scn["ns"] is not None:
        api["namespace"] = scn["ns"]          # also for namespaced: false (kr8s still gets the namespace)
    spec = {"apiConfig": api, "update": {"patch": {"delay": 7}}}
    if scn["source"] == "inline":
        spec["resource"] = copy.deepcopy(scn["doc"])
    else:
        spec["resourceTemplateRef"] = {"name": "tpl"}
    if scn["overlays"]:
        via = scn.get("overlay_via_vf") or []
        spec["overlays"] = [
            ({"overlayRef": {"kind": "ValueFunction", "name": f"vf{i}"}} if (i < len(via) and via[i])
             else {"overlay": copy.deepcopy(o)})
            for i, o in enumerate(scn["overlays"])]
    if scn["create_overlay"] is not None:
        spec["create"] = {"delay": 5, "overlay": copy.deepcopy(scn["create_overlay"])}
    return spec, kind


def template_snapshot():
    """plain copy of the cached ResourceTemplate's template (None if there is none)."""
    import drivers
    from koreo import cache
    from koreo.resource_template.structure import ResourceTemplate
    t = cache.get_resource_from_cache(resource_class=ResourceTemplate, cache_key="tpl")
    if t is None or not hasattr(t, "template"):
        return None
    return copy.deepcopy(drivers.to_py(t.template))


async def _prepare_fn(scn, owned=None, name="fn", install=True):
    import drivers
    from koreo import cache
    from koreo.resource_template.prepare import prepare_resource_template
    from koreo.resource_template.structure import ResourceTemplate
    spec, kind = build_spec(scn, owned)
    if not install:
        p = await drivers.prepare_rf(name, spec)
        fn, err = drivers.unwrap_prepared(p)
        return fn, err, kind
    if scn["source"] == "template":
        tpl = copy.deepcopy(scn["doc"])
        tpl = {"apiVersion": "example.dev/v1", "kind": kind, **tpl}
        if scn.get("identity_in_template"):
            # a "singleton" template: it already names the managed object, so the forced
            # kind/name/namespace overlay changes nothing
            md = {"name": "w1"}
            if scn["ns"] is not None:
                md["namespace"] = scn["ns"]
            md.update(tpl.get("metadata") or {})
            tpl["metadata"] = md
        await cache.prepare_and_cache(resource_class=ResourceTemplate, preparer=prepare_resource_template,
                                      metadata={"name": "tpl", "resourceVersion": "1"},
                                      spec={"template": tpl})
    via = scn.get("overlay_via_vf") or []
    for i, o in enumerate(scn["overlays"]):
        if i < len(via) and via[i]:
            from koreo.value_function.prepare import prepare_value_function
            from koreo.value_function.structure import ValueFunction
            await cache.prepare_and_cache(resource_class=ValueFunction, preparer=prepare_value_function,
                                          metadata={"name": f"vf{i}", "resourceVersion": "1"},
                                          spec={"return": staticize(copy.deepcopy(o))})
    p = await drivers.prepare_rf(name, spec)
    fn, err = drivers.unwrap_prepared(p)
    return fn, err, kind


def substitute(obj, text):
    """copy of obj with its annotation replaced by the placeholder iff it is exactly `text`."""
    o = copy.deepcopy(obj)
    if text is not None and annotation_text(o) == text:
        o["metadata"]["annotations"][ANNOT] = PLACEHOLDER
    return o


def run_flow(scn, cap: Capture):
    """Run one scenario on the real code. Returns a list of step records:
       {'step': 'create'|'patch', 'pre': stored-before|None, 'events': [...], 'calls': [...], 'post': stored-after|None,
        'raised': ExName|None, 'outcome': class name}"""
    import drivers
    import vloop
    from cluster import Cluster

    async def go():
        drivers.reset_all()
        plan = steps_of(scn)
        fns = {}
        kind = None
        for i, st in enumerate(plan):
            if st["owned"] not in fns:
                fn, err, kind = await _prepare_fn(scn, owned=st["owned"], name=f"fn-{st['owned']}",
                                                  install=not fns)
                if fn is None:
                    return {"skip": f"prepare failed: {drivers.canon_outcome(err).get('message')}"}
                fns[st["owned"]] = fn
        plural = kind.lower() + "s"
        # kr8s sends mutations of a cluster-scoped class with namespace=None, but koreo GETs with the namespace
        # apiConfig supplied; the in-memory cluster keys objects by namespace, so for `namespaced: false` +
        # namespace the stored object (key) is mirrored under the key the GET uses before every reconcile
        key = (plural, scn["ns"] if scn["namespaced"] else None, "w1")
        get_key = (plural, scn["ns"], "w1")
        cl = Cluster()
        steps = []

        def mirror():
            if get_key != key:
                cl.objects.pop(get_key, None)
                if cl.objects.get(key) is not None:
                    cl.objects[get_key] = copy.deepcopy(cl.objects[key])

        async def one(st):
            cfg = {"owned": st["owned"], "owner_ns": st["owner_ns"], "ns": scn["ns"],
                   "owner_ref": copy.deepcopy(OWNERS[st.get("owner", "P1")])}
            owner = (cfg["owner_ns"], copy.deepcopy(cfg["owner_ref"]))
            cap.take()
            mirror()
            n0 = len(cl.calls)
            pre = copy.deepcopy(cl.objects.get(key))
            tpl_before = template_snapshot()
            raised = None
            outcome = None
            try:
                r = await drivers.reconcile_rf(fns[st["owned"]], copy.deepcopy(FLOW_INPUTS), cl, owner=owner)
                outcome = drivers.canon_outcome(r.outcome)["cls"]
            except Exception as e:  # noqa: BLE001
                raised = exn_name(e) or f"other:{type(e).__name__}"
            tpl_after = template_snapshot()
            steps.append({"step": st["op"], "cfg": cfg, "pre": pre, "events": cap.take(),
                          "calls": [{k: copy.deepcopy(c.get(k)) for k in ("method", "endpoint", "namespace", "name", "body")}
                                    for c in cl.calls[n0:]],
                          "post": copy.deepcopy(cl.objects.get(key)), "raised": raised, "outcome": outcome,
                          "template_mutated": (None if json.dumps(tpl_before) == json.dumps(tpl_after)
                                               else {"before": tpl_before, "after": tpl_after})})

        for st in plan:
            if st["op"] == "create":
                cl.objects.pop(key, None)
                await one(st)
                continue
            if cl.objects.get(key) is None:
                continue                      # nothing to patch (the create did not happen)
            live = cl.objects[key]
            md = live.setdefault("metadata", {})
            if st.get("live_refs") is None:
                md.pop("ownerReferences", None)
            else:
                md["ownerReferences"] = copy.deepcopy(st["live_refs"])
            if st.get("drift"):
                live.setdefault("spec", {})
                if isinstance(live["spec"], dict):
                    live["spec"]["drifted"] = "yes"
                    for k, v in list(live["spec"].items()):
                        if isinstance(v, (int, float)) and not isinstance(v, bool):
                            live["spec"][k] = v + 1
                        elif isinstance(v, str) and k != "drifted":
                            live["spec"][k] = v + "-changed"
                lab = md.get("labels")
                if isinstance(lab, dict) and lab:
                    k0 = next(iter(lab))
                    lab[k0] = str(lab[k0]) + "-changed"
            await one(st)
        return {"steps": steps, "kind": kind}

    return vloop.run(go())[0]


def own_condition(cfg):
    """True / False, or None when the text does not decide (parent and object both cluster-scoped)."""
    if not cfg["owned"]:
        return False
    if cfg["owner_ns"] is None and cfg["ns"] is None:
        return None
    return cfg["owner_ns"] == cfg["ns"]


def flow_oracle(scn, step):
    """List of (signature, what) failures of the property on one reconcile step."""
    fails = []
    cfg = step["cfg"]
    OWNER_REF = cfg["owner_ref"]          # the parent of THIS reconcile
    uid = OWNER_REF["uid"]
    if step.get("template_mutated"):
        fails.append(("cached ResourceTemplate was modified by a reconcile",
                      "the template held in koreo's cache differs after the reconcile: every later payload built "
                      "from it (owner references, annotation) inherits what this reconcile wrote into it"))
    muts = [c for c in step["calls"] if c["method"] in ("POST", "PATCH")]
    hyp_refs = scn.get("malformed") != "own-owner-refs"
    hyp_ann = scn.get("malformed") != "own-annotation"
    for c in muts:
        m = c["method"]
        p = find_directive(c["body"])
        if p:
            fails.append((f"{m} body contains a directive key", f"{m} body has {p[-1]!r} at {p}"))
        if hyp_ann:
            why = annotation_problem(c["body"]) if isinstance(c["body"], dict) else "body is not an object"
            if why:
                fails.append((f"{m}: {why}", why))
    should = own_condition(cfg)
    for c in muts:
        if c["method"] == "POST" and hyp_refs and should is not None:
            carries = has_uid(refs_of(c["body"]), uid)
            if should and not (carries and OWNER_REF in refs_of(c["body"])):
                fails.append(("POST: created object lacks the parent's owner reference",
                              "function is owning and parent/object share a namespace, but the created object "
                              "does not carry the parent's owner reference"))
            if not should and carries:
                fails.append(("POST: created object carries the parent's owner reference although not owed",
                              "function is not owning or namespaces differ, but the created object carries the "
                              "parent's owner reference"))
    if step["step"] == "patch" and step["pre"] is not None and hyp_refs:
        pre_refs = refs_of(step["pre"])
        patched = [c for c in muts if c["method"] == "PATCH"]
        if patched and step["post"] is not None:
            post_refs = refs_of(step["post"])
            for r in pre_refs:
                if r not in post_refs:
                    fails.append(("PATCH: a pre-existing owner reference was dropped",
                                  f"reference {r} was on the live object and is gone after the patch"))
                    break
            lacking = not has_uid(pre_refs, uid)
            if should is True and lacking and OWNER_REF not in post_refs:
                fails.append(("PATCH: parent's owner reference not added although owed and lacking",
                              "owning, same namespace, live object lacked the parent's reference, a patch was "
                              "sent, yet the object does not carry it afterwards"))
            if should is False and lacking and has_uid(post_refs, uid):
                fails.append(("PATCH: parent's owner reference added although not owed",
                              "not owning or namespaces differ, yet the patch added the parent's reference"))
    return fails


def flow_terms(scn, res):
    """Gallina cases for the steps of one scenario (model vs what the real flow did)."""
    out = []
    version = "example.dev/v1"
    kind = res["kind"]
    cns = lambda s: copt(s, cstr)
    for st in res["steps"]:
        cfg = st["cfg"]
        OWNER_REF = cfg["owner_ref"]
        scn = cfg                      # owned / owner_ns / ns of this step
        ev = st["events"]
        preps = [e for e in ev if e[0] == "prepare"]
        upds = [e for e in ev if e[0] == "updated"]
        matches = [e for e in ev if e[0] == "match"]
        wire = [c for c in st["calls"] if c["method"] in ("POST", "PATCH")]
        if st["raised"] and st["raised"].startswith("other:"):
            raise Unmodelled(f"reconcile raised {st['raised']}")
        # what _prepare_for_api returned
        if preps:
            sent = ("done", split_prepared(preps[-1][2]))
            text = annotation_text(preps[-1][2])
        elif st["raised"]:
            sent, text = ("raised", st["raised"]), None
        else:
            sent, text = ("done", "nocall"), None
        c_sent_res = c_res(sent, c_sent)
        if st["pre"] is None:
            # create path
            if len(preps) > 1 or len(wire) > 1:
                raise Unmodelled("more than one payload in a create step")
            if upds:
                view = upds[0][1]
            elif preps:
                view = preps[0][1]
            else:
                continue            # returned before the payload code (evaluation failure …): nothing to compare
            w = "None"
            if wire:
                w = f"(Some {cjson(substitute(wire[0]['body'], text))})"
            out.append(f"CFlowCreate {cbool(scn['owned'])} {cns(scn['owner_ns'])} {cns(scn['ns'])} {cjson(view)} "
                       f"{cjson(OWNER_REF)} {cstr(kind)} {cstr(version)} {c_sent_res} {w}")
        else:
            live = st["pre"]
            if matches:
                target, actual, matched = matches[0][1], matches[0][2], matches[0][3]
                if matched is None:
                    continue        # validate_match raised: no payload was built, nothing of C08 to compare
                if json.dumps(actual) != json.dumps(live):
                    raise Unmodelled("the live object handed to validate_match is not the stored object")
            elif st["raised"]:
                target, matched = None, False
            else:
                continue
            w = "None"
            if wire:
                if len(wire) > 1 or wire[0]["method"] != "PATCH":
                    raise Unmodelled("unexpected mutation calls in a patch step")
                w = f"(Some {cjson(substitute(wire[0]['body'], text))})"
            stored = substitute(st["post"], text) if st["post"] is not None else None
            obs = "{| po_sent := %s; po_wire := %s; po_stored := %s |}" % (c_sent_res, w, cjson(stored))
            out.append(f"CFlowPatch {cbool(scn['owned'])} {cns(scn['owner_ns'])} {cns(scn['ns'])} {cjson(live)} "
                       f"{cjson(target)} {cjson(OWNER_REF)} {cbool(matched)} {obs}")
    return out


def shrink_scenario(scn, still_fails):
    cur = copy.deepcopy(scn)

    def attempt(c):
        try:
            return still_fails(c)
        except Exception:  # noqa: BLE001
            return False
    for mutate in (lambda c: c.update(overlays=[]), lambda c: c.update(create_overlay=None),
                   lambda c: c.update(overlay_via_vf=[False, False]),
                   lambda c: c.update(source="inline"), lambda c: c.update(live_refs=None),
                   lambda c: c.update(live_refs=[]), lambda c: c.update(drift=False),
                   lambda c: c.update(mode="create")):
        cand = copy.deepcopy(cur)
        mutate(cand)
        if cand != cur and attempt(cand):
            cur = cand
    if cur.get("seq"):
        from common import shrink_list
        cur["seq"] = shrink_list(cur["seq"], lambda q: bool(q) and attempt({**cur, "seq": q}))
    cur["doc"] = shrink_json(cur["doc"], lambda d: attempt({**cur, "doc": d}))
    if cur["overlays"]:
        cur["overlays"] = shrink_json(cur["overlays"], lambda o: attempt({**cur, "overlays": o}))
    return cur


# =====================================================================================
# driver
# =====================================================================================

SHRUNK: set = set()


def check_unit(ctx: Ctx, case, cases, terms):
    try:
        obs, term = run_unit(case)
    except Unmodelled as e:
        ctx.mismatch("unit: observation outside the model", case, str(e))
        return
    except Exception as e:  # noqa: BLE001 - an exception class the model has no value for
        ctx.mismatch("unit: helper raised an exception class the model does not have", case, repr(e))
        return
    k = case["kind"]
    inp = case.get("j", case.get("obj", case.get("view", case.get("live", case.get("target")))))
    nontrivial = bool(find_directive(inp)) or (k in ("updated", "validate") and bool(refs_of(case["view"]))) \
        or (k == "extract" and obs[0] == "done" and obs[1] is not None) or (k == "merge" and isinstance(case["patch"], dict))
    ctx.note_case(case, nontrivial=nontrivial)
    ctx.count(f"unit:{k}")
    if k in ("prepare", "extract", "updated", "validate"):
        ctx.count(f"unit:{k}:{obs[0] if obs[0] == 'done' else obs[1]}")
    if k in ("strip", "prepare") and find_directive(inp):
        ctx.count(f"unit:{k}:with-directive-depth>={min(len(find_directive(inp)), 4)}")
    bad = unit_oracle(case, obs)
    if bad:
        sig, what = bad
        field = "j" if k == "strip" else "obj"
        if sig in SHRUNK:
            ctx.fail(Failure(signature=sig, what=what, case=case))
            cases.append(case)
            terms.append(term)
            return
        SHRUNK.add(sig)

        def still(v):
            c = {**case, field: v}
            o, _ = run_unit(c)
            b = unit_oracle(c, o)
            return bool(b) and b[0] == sig
        small = {**case, field: shrink_json(case[field], still)}
        ctx.fail(Failure(signature=sig, what=what, case=small, observed=run_unit(small)[0]))
    cases.append(case)
    terms.append(term)
    if k in ("strip", "prepare") and plain_json(inp):
        # the oracle's own directive scan is checked against the model's has_directive
        c2 = {"kind": "has_directive", "j": inp}
        cases.append(c2)
        terms.append(f"CHasDirective {cjson(inp)} {cbool(bool(find_directive(inp)))}")


def check_flow(ctx: Ctx, scn, cap, cases, terms, shrink=True):
    try:
        res = run_flow(scn, cap)
    except Exception as e:  # noqa: BLE001
        ctx.mismatch("flow: harness could not run the scenario", scn, repr(e))
        return
    if "skip" in res:
        ctx.count("flow:skipped(prepare failed)")
        ctx.notes.append({"flow_skipped": res["skip"], "scenario": scn}) if len(ctx.notes) < 5 else None
        return
    ctx.note_case(scn, nontrivial=True)
    ctx.count(f"flow:source:{scn['source']}")
    ctx.count(f"flow:overlays:{len(scn['overlays'])}"
              f"{'(vf)' if any((scn.get('overlay_via_vf') or [False, False])[:len(scn['overlays'])]) else ''}")
    if scn["create_overlay"] is not None:
        ctx.count("flow:create-overlay")
    ctx.count(f"flow:namespaced={scn['namespaced']},namespace={'given' if scn['ns'] else 'absent'},"
              f"target-namespace={(scn['doc'].get('metadata') or {}).get('namespace', 'absent') if isinstance(scn['doc'].get('metadata'), dict) else 'absent'}")
    plan = steps_of(scn)
    for stp in plan:
        ctx.count(f"flow:own={stp['owned']},owner_ns={stp['owner_ns']},ns={scn['ns']}")
    ctx.count("flow:steps:" + ">".join(stp["op"] for stp in plan) if len(plan) <= 4 else "flow:steps:5+")
    if scn.get("seq"):
        ctx.count("flow:sequence(shared caches)")
    if scn.get("identity_in_template") and scn["source"] == "template":
        ctx.count("flow:template-already-names-the-object")
    where = directive_sources(scn)
    ctx.count("flow:directives-from:" + ("+".join(where) or "nowhere"))
    if scn.get("malformed"):
        ctx.count(f"flow:malformed:{scn['malformed']}")
    for st in res["steps"]:
        muts = [c["method"] for c in st["calls"] if c["method"] != "GET"]
        ctx.count(f"flow:{st['step']}:calls:{'+'.join(muts) or 'none'}")
        if st["raised"]:
            ctx.count(f"flow:{st['step']}:raised:{st['raised']}")
        if any(e[0] == "match" and e[3] is None for e in st["events"]):
            ctx.count("flow:patch:validate_match-raised(not C08)")
        if st["step"] == "patch" and st["pre"] is not None:
            ctx.count(f"flow:patch:pre-refs:{len(refs_of(st['pre']))}")
        for c in st["calls"]:
            if c["method"] in ("POST", "PATCH") and isinstance(c["body"], dict) and isinstance(c["body"].get("metadata"), dict):
                for holder in ("annotations", "labels"):
                    h = c["body"]["metadata"].get(holder)
                    if isinstance(h, dict):
                        for k, v in h.items():
                            if k != ANNOT and not isinstance(v, str):
                                ctx.count(f"flow:sent-{holder}-value:{type(v).__name__}")
        for c in st["calls"]:
            if c["method"] in ("POST", "PATCH"):
                inputs = [e[1] for e in st["events"] if e[0] == "prepare"]
                if inputs and find_directive(inputs[-1]):
                    ctx.count("flow:payload-built-from-target-with-directives")
        for sig, what in flow_oracle(scn, st):
            small = scn
            first = sig not in SHRUNK
            SHRUNK.add(sig)
            if not first:
                ctx.fail(Failure(signature=sig, what=what, case=scn))
                continue
            if shrink:
                def still(c, sig=sig):
                    r = run_flow(c, cap)
                    return "steps" in r and any(s2 == sig for st2 in r["steps"] for s2, _ in flow_oracle(c, st2))
                small = shrink_scenario(scn, still)
            r2 = run_flow(small, cap)
            ctx.fail(Failure(signature=sig, what=what, case=small,
                             observed=[{"step": s["step"], "calls": s["calls"], "post": s["post"]}
                                       for s in r2.get("steps", [])]))
    try:
        ts = flow_terms(scn, res)
    except Unmodelled as e:
        ctx.mismatch("flow: observation outside the model", scn, str(e))
        return
    for t in ts:
        cases.append(scn)
        terms.append(t)


def correspond_sharded(ctx: Ctx, name, cases, terms, shard=90, jobs=4):
    """ctx.correspond with smaller shards (flow terms are large: whole objects with their annotations)."""
    import time
    import common
    t0 = time.time()
    bad, err = common.eval_cases("Corr_C08", terms, ctx.workdir / "coq", shard=shard, jobs=jobs)
    ctx.traces += len(terms) if not err else 0
    ctx.count(f"corr:{name}:cases", len(terms))
    ctx.dist[f"corr:{name}:secs"] = round(time.time() - t0, 1)
    if err:
        ctx.corr_errors.append(f"{name}: {err}")
    for i in sorted(bad):
        ctx.mismatch(name, cases[i])
    return bad


def run(ctx: Ctx):
    logging.disable(logging.CRITICAL)
    SHRUNK.clear()
    cases, terms = [], []
    fcases, fterms = [], []
    cap = Capture()
    try:
        for c in corpus_cases("C08"):
            c = c.get("case", c)
            if c.get("kind") == "flow":
                check_flow(ctx, c, cap, fcases, fterms)
            else:
                check_unit(ctx, c, cases, terms)
        for case in gen_unit_cases(ctx):
            check_unit(ctx, case, cases, terms)
        for scn in exhaustive_scenarios():
            check_flow(ctx, scn, cap, fcases, fterms)
        for scn in directive_origin_scenarios():
            check_flow(ctx, scn, cap, fcases, fterms)
        for scn in namespace_scenarios():
            check_flow(ctx, scn, cap, fcases, fterms)
        for scn in metadata_value_scenarios():
            check_flow(ctx, scn, cap, fcases, fterms)
        for scn in sequence_scenarios():
            check_flow(ctx, scn, cap, fcases, fterms)
        for i in range(260 if ctx.quick() else 4000):
            check_flow(ctx, gen_scenario(ctx.rng, i), cap, fcases, fterms)
    finally:
        cap.restore()
        logging.disable(logging.NOTSET)
    if ctx.model_ok:
        ctx.correspond("payload helpers vs Payload.v", "Corr_C08", cases, terms)
        correspond_sharded(ctx, "reconcile create/patch payloads vs Payload.v", fcases, fterms)


def replay(ctx: Ctx, data):
    logging.disable(logging.CRITICAL)
    case = data["case"] if "case" in data else data
    cases, terms = [], []
    cap = Capture()
    try:
        if case.get("kind") == "flow":
            check_flow(ctx, case, cap, cases, terms, shrink=False)
        else:
            check_unit(ctx, case, cases, terms)
    finally:
        cap.restore()
        logging.disable(logging.NOTSET)
    if ctx.model_ok and terms:
        ctx.correspond("replay", "Corr_C08", cases, terms)
