"""C10 — expression failures surface as PermFail, never as crashes or leaked error objects.

Real code: koreo.cel.evaluation (check_for_celevalerror, evaluate, evaluate_overlay,
evaluate_predicates), koreo.value_function (prepare + reconcile).
Model: coq/model/ErrScan.v, coq/model/Predicates.v.

CEL is not modelled.  The harness wraps celpy.InterpretedRunner.evaluate in-process and records,
per evaluation site, what celpy did (raised / returned this value tree, possibly holding error
objects); that *raw result* is the model's input, so that the model is only asked what koreo does
around celpy.  The direct oracle uses its own walker (C13.walk_has_error) over the real objects.

Documents (see C13.py): ["L", leaf] | ["M", [[key, doc]..]] | ["A", [doc..]] with leaves
["lit", v] | ["in", v] | ["cel", src, v] | ["err", src] | ["raise", src]; an "err"/"raise" leaf is an
expression that fails whenever it is evaluated.
"""
from __future__ import annotations

import re

from common import Ctx, Failure, cbool, clist, copt, cpair, corpus_cases, cstr, shrink_list
from props import C13 as H
from props.C13 import L, M, Builder, c_index, c_obs, c_raw, c_tree, doc_leaves, failing, tree_of

COQ_TARGETS = ["props/P_C10.vo", "corr/Corr_C10.vo"]
PROOF_FILES = ["proofs/ErrScan_proofs.v", "proofs/ErrScan_sync.v"]


def pre_build():
    """regenerate coq/gen/ErrScan_gen.v from /repo's current cel/evaluation.py::check_for_celevalerror
    (fail-closed translator); proofs/ErrScan_sync.v proves the hand model ErrScan.scan equal to it"""
    import translate_errscan
    translate_errscan.main()


RULE = ("keys include dotted, empty and colliding dotted-path spellings; (a) Python values (dict/MapType/list/tuple/ListType nests, depth<=5) with CELEvalError objects at random "
        "positions, through check_for_celevalerror; (b) spec documents (nested maps/lists, depth<=4) with 0-2 failing "
        "expressions (35 kinds: arithmetic, missing members, macro bodies, koreo custom functions, errors buried in "
        "computed maps/lists) at every / random positions, through prepare_expression+evaluate, "
        "prepare_overlay_expression+evaluate_overlay, and real ValueFunctions (preconditions, locals, return; every "
        "site), with celpy's per-site behaviour recorded; (c) evaluate_predicates on arbitrary programs. Non-trivial: "
        "a failing expression is present below the top level, or >=2 sites are evaluated; distinct by content")
ASSUMPTIONS = [
    "celpy reports an evaluation failure only by raising from Runner.evaluate or by returning a value that holds "
    "CELEvalError objects inside dict/list/tuple nests (recorded per site and fed to the model; the oracle's own walker "
    "also looks into sets, deques and object attributes)",
    "CEL's own error absorption (true || 1/0, has(), ternaries, a filtered-out list element) is CEL semantics, not a "
    "failure to evaluate",
    "vf_no_leak clause 3 (nothing raises) assumes the return overlay's index refers to positions of the evaluated "
    "value list (prepare builds the list from exactly the indexed leaves; compared on every case)",
    "value_base passed to a ValueFunction is error-free (it is an earlier, already scanned result)",
    "ResourceFunction / Workflow sites beyond preconditions, locals, postconditions, return are not modelled "
    "(C10_rf_no_leak_partial)",
]
TRUSTED = ["in-process wrapper around celpy.InterpretedRunner.evaluate recording per-site raw results",
           "independent error walker C13.walk_has_error",
           "harness/translate_errscan.py (Python-ast -> Gallina transcription of cel/evaluation.check_for_celevalerror; "
           "conventions in its docstring: VErr = CELEvalError instances, VMap = MapType/dict, VList = ListType/list/tuple, "
           "result true = a PermFail is returned, explicit fuel)"]

LOC = H.LOC

# expressions that fail whenever they are evaluated (self-checked on every run: each must make
# celpy raise or return a value holding an error object)
ERR_SOURCES = [
    "=1/0", "=1 % 0", "=inputs.nope", "=inputs.nope.x", "=inputs.s.nope", "=1 + 1/0", "=[1][5]", "={'k': 1}['z']",
    "='x' + 1", "=-'x'", "=!5", "=nosuch", "=nosuch(1)", "=int('x')", "=timestamp('x')", "=size([1/0])", "=dyn(1/0)",
    "=to_ref({})", "=self_ref({})", "=group_ref({})", "=kindless_ref({})", "=to_ref({'name': ''})",
    "=from_json('{')", "=split('a', '')", "=split_first('a', '')", "=split_index('a,b', ',', 7)", "=lower(5)",
    "=flatten([1])", "=to_json(1/0)",
    # errors buried inside a value computed by ONE expression
    "={'a': 1/0}", "=[{'a': 1/0}]", "={'a': [{'b': 1/0}]}", "={'a': {'b': {'c': [1, {'d': inputs.nope}]}}}",
    "=overlay({}, {'x': 1/0})", "=overlay({'k': {'z': 1}}, {'k': {'y': inputs.nope}})",
    "=[1, 2].map(x, {'v': x / 0})", "=[1, 2].all(x, x/0 == 1)", "=[1, 2].exists(x, x/0 == 1)",
    # errors whose tree celpy's tree_dump cannot print (it raises IndexError on them): regression for
    # /repo 4ee1f6b, before which such an error, when raised, escaped koreo's except handlers
    "=inputs.nope == []", "=inputs.nope == {}", "=inputs.nope ? 1 : {}", "={'a': {}}.b", "=size(inputs.nope + [])",
]
RAISE_SOURCES = ["=[1].map(x, x/0)", "=[1, 2].filter(x, x/0 == 1)", "=[1, 2].map(x, to_ref({}))", "={1/0: 1}",
                 "={'a': 1, 'a': 2}", "=[1].map(x, inputs.nope == [])", "={'a': {}, 'a': 1}",
                 # these make celpy raise something that is NOT a CELEvalError (ValueError, IndexError,
                 # RecursionError)
                 "=[1, 2, 3].map(x, x > 1, x * 2)", "=dyn()", "=" + "[" * 60 + "1" + "]" * 60]
FAIL_LEAVES = [["err", s] for s in ERR_SOURCES] + [["raise", s] for s in RAISE_SOURCES]

CLEAN_LEAVES = [
    ["lit", "plain text"], ["lit", 7], ["lit", True], ["lit", None], ["lit", 2.5], ["lit", ""], ["lit", "a b c"],
    ["in", "from inputs"], ["in", 5], ["in", {"k": [1, {"z": None}]}], ["in", [1, "two", 3.5]], ["in", None],
    ["in", "üñí \" quote"], ["in", {}], ["in", []],
    ["cel", "=1 + 1", 2], ["cel", "='a' + 'b'", "ab"], ["cel", "=[1, 2].map(x, x * 2)", [2, 4]],
    ["cel", "={'a': [1, {'b': 2}]}", {"a": [1, {"b": 2}]}], ["cel", "=inputs.s.t", 1],
    ["cel", "=to_ref({'name': 'n', 'kind': 'K'})", {"kind": "K", "name": "n"}],
    # CEL absorbs these errors: not a failure to evaluate
    ["cel", "=true || 1/0 > 0", True], ["cel", "=has(inputs.nope)", False], ["cel", "=false ? 1/0 : 2", 2],
    ["cel", "={'a': 1/0, 'b': 2}.b", 2],
]
KEYS = ["a", "b", "c", "name", "spec", "x-y", "k1", "a.b", "", "b.c", "a.", ".a", "spec.name", "a.b.c"]
BASE_INPUTS = {"s": {"t": 1}}


# --------------------------------------------------------------------------
# generators of documents
# --------------------------------------------------------------------------

def rand_clean_doc(rng, depth, top_map=False):
    r = rng.random()
    if not top_map and (depth <= 0 or r < 0.4):
        return L(rng.choice(CLEAN_LEAVES))
    if top_map or r < 0.8:
        n = rng.choice([1, 1, 2, 3]) if top_map else rng.choice([0, 1, 2, 3])
        keys = rng.sample(KEYS, n)
        entries = [[k, rand_clean_doc(rng, depth - 1)] for k in keys]
        # adversarial key shapes: a sibling whose key spells the dotted path of a nested entry
        for k, d in list(entries):
            if d[0] == "M" and d[1] and rng.random() < 0.35:
                twin = f"{k}.{rng.choice(d[1])[0]}"
                if twin not in [e[0] for e in entries]:
                    entries.insert(rng.randrange(len(entries) + 1), [twin, rand_clean_doc(rng, depth - 1)])
        return ["M", entries]
    return ["A", [rand_clean_doc(rng, depth - 1) for _ in range(rng.choice([0, 1, 2, 3]))]]


def leaf_paths(doc, path=()):
    if doc[0] == "L":
        yield path
    elif doc[0] == "A":
        for i, d in enumerate(doc[1]):
            yield from leaf_paths(d, path + (i,))
    else:
        for i, (_, d) in enumerate(doc[1]):
            yield from leaf_paths(d, path + (i,))


def set_leaf(doc, path, leaf):
    if not path:
        return L(leaf)
    i = path[0]
    if doc[0] == "A":
        items = list(doc[1])
        items[i] = set_leaf(items[i], path[1:], leaf)
        return ["A", items]
    items = [list(e) for e in doc[1]]
    items[i][1] = set_leaf(items[i][1], path[1:], leaf)
    return ["M", items]


def with_failures(rng, doc, k):
    paths = list(leaf_paths(doc))
    for p in rng.sample(paths, min(k, len(paths))):
        doc = set_leaf(doc, p, rng.choice(FAIL_LEAVES))
    return doc


def deep_failing(rng):
    """a list- or map-valued leaf that holds a failing sub-expression below its top level (a directly
    failing list item would make celpy's list literal fail as a whole)"""
    leaf = rng.choice(FAIL_LEAVES)
    shape = rng.choice(["list-of-maps", "map-in-list-in-list", "computed-map", "computed-list-of-maps"])
    if shape == "list-of-maps":
        return ["A", [M(("name", L(leaf)))]]
    if shape == "map-in-list-in-list":
        return ["A", [L(["lit", 1]), ["A", [M(("k", M(("j", L(leaf)))))]]]]
    if shape == "computed-map":
        return L(["err", rng.choice(["={'v': 1/0}", "={'v': {'w': inputs.nope}}", "={'v': [1, {'w': to_ref({})}]}"])])
    return L(["err", rng.choice(["=[{'a': 1/0}]", "=[1, 2].map(x, {'v': x / 0})", "=[[{'a': inputs.nope.x}]]"])])


def key_shape_docs(rng):
    """maps whose keys contain dots / are empty / spell colliding dotted paths, with one deep-failing
    value at each position in turn (all other values clean)"""
    clean = lambda: L(rng.choice(CLEAN_LEAVES))
    shapes = [
        lambda x, y: M(("team.owner", x), ("team", M(("owner", y)))),
        lambda x, y: M(("team", M(("owner", x))), ("team.owner", y)),
        lambda x, y: M(("labels", M(("team.owner", x), ("team", M(("owner", y)))))),
        lambda x, y: M(("a", M(("b.c", x))), ("a.b", M(("c", y)))),
        lambda x, y: M(("a.b", M(("c", x))), ("a", M(("b", M(("c", y)))))),
        lambda x, y: M(("", x), ("a", y)),
        lambda x, y: M(("", M(("", x))), (".", y)),
        lambda x, y: M(("a", M(("", x))), ("a.", y)),
        lambda x, y: M(("a.", x), ("a", M(("", y)))),
        lambda x, y: M(("", M(("a", x))), (".a", y)),
        lambda x, y: M(("a.b", x), ("a", M(("b", y))), ("a.b.", clean())),
        lambda x, y: M(("x", M(("a.b", x), ("a", M(("b", y)))))),
    ]
    for sh in shapes:
        yield sh(deep_failing(rng), clean())
        yield sh(clean(), deep_failing(rng))
        yield sh(clean(), clean())


DEEP_BOTTOMS = [["err", "=1/0"], ["err", "=inputs.nope"], ["err", "=to_ref({})"], ["err", "=inputs.nope == []"]]


def deep_nest(kind, n, bottom):
    """n container levels around `bottom`: maps only, or maps and lists alternating (a map directly
    above the bottom: a failing item of a list literal makes celpy fail the list as a whole, whereas
    a map keeps the error object as a value — so it really sits n levels deep)"""
    d = bottom
    for i in range(n):
        d = M(("k", d)) if kind == "map" or i % 2 == 0 else ["A", [L(["lit", 0]), d]]
    return d


def deep_expr(kind, n, bottom_src):
    """one expression that computes the same nesting"""
    src = bottom_src
    for i in range(n):
        src = "{'k': " + src + "}" if kind == "map" or i % 2 == 0 else "[0, " + src + "]"
    return "=" + src


def deep_depths(ctx):
    # celpy (recursion limit 2500) evaluates literal nestings up to ~46 levels; deeper ones raise
    # RecursionError, which must be a PermFail as well
    return [33, 34, 37, 41, 45, 60] if ctx.quick() else list(range(30, 49)) + [55, 60, 80]


def gen_deep(ctx: Ctx):
    rng = ctx.rng
    for n in deep_depths(ctx):
        for kind in ("map", "mix"):
            bottom = rng.choice(DEEP_BOTTOMS)
            static = deep_nest(kind, n, L(bottom))
            computed = L(["err", deep_expr(kind, n, bottom[1].lstrip("="))])
            clean = deep_nest(kind, n, L(["lit", 1]))
            tag = f"deep:{'<=46' if n <= 46 else '>46'}"
            yield {"mode": "eval", "doc": M(("top", static)), "tag": tag}
            yield {"mode": "eval", "doc": M(("top", computed)), "tag": tag}
            yield {"mode": "eval", "doc": M(("top", clean)), "tag": tag}
            yield {"mode": "overlay", "doc": M(("a", computed), ("b", L(["lit", 1]))), "base": {}, "tag": tag}
            yield {"mode": "overlay", "doc": M(("a", M(("b", ["A", [static]])))), "base": {"a": {"z": 1}}, "tag": tag}
            yield {"mode": "vf", "preds": None, "locals": M(("x", static)), "ret": M(("r", L(["lit", 1]))), "base": None,
                   "tag": "vf-" + tag}
            yield {"mode": "vf", "preds": None, "locals": None, "ret": M(("r", computed)), "base": None, "tag": "vf-" + tag}
            yield {"mode": "vf", "preds": None, "locals": None, "ret": M(("r", ["A", [static]])), "base": {"r": 0},
                   "tag": "vf-" + tag}
            yield {"mode": "vf", "preds": None, "locals": M(("x", clean)), "ret": M(("r", L(["cel", "=locals.x", None]))),
                   "base": None, "tag": "vf-" + tag}
            if RF_AVAILABLE:
                for present in (False, "drift"):
                    c = rf_case("resource", ["lit", 1], present)
                    c["resource"] = M(("spec", static))
                    c["tag"] = "rf-" + tag
                    yield c
                    c = rf_case("overlay0", ["lit", 1], present)
                    c["overlays"][0] = {"overlay": M(("spec", M(("a", computed))))}
                    c["tag"] = "rf-" + tag
                    yield c
    # Python values handed to check_for_celevalerror directly: depth 33..80, every container type
    depths = [33, 34, 40, 64, 80] if ctx.quick() else list(range(30, 81))
    for n in depths:
        for kinds in (["dict"], ["MapType"], ["list"], ["tuple"], ["ListType"], ["dict", "list"], ["MapType", "ListType", "tuple"]):
            for bottom in (["e"], ["i", 5]):
                v = bottom
                for i in range(n):
                    k = kinds[i % len(kinds)]
                    v = ["m", k, [["a", ["s", "x"]], ["k", v]]] if k in ("dict", "MapType") else ["l", k, [["i", 0], v]]
                yield {"mode": "scan", "value": v, "tag": "scan-deep"}


def doc_fails(doc) -> bool:
    return doc is not None and any(failing(l) for l in doc_leaves(doc))


def doc_depth_of_failure(doc, d=0):
    if doc[0] == "L":
        return d if failing(doc[1]) else -1
    subs = doc[1] if doc[0] == "A" else [x for _, x in doc[1]]
    return max([doc_depth_of_failure(x, d + 1) for x in subs] + [-1])


# --------------------------------------------------------------------------
# unit level: check_for_celevalerror on Python values
# --------------------------------------------------------------------------

def rand_pyval(rng, depth, p_err):
    """tagged description of a Python value"""
    r = rng.random()
    if depth <= 0 or r < 0.35:
        if rng.random() < p_err:
            return ["e"]
        return rng.choice([["n"], ["b", True], ["i", 5], ["f", 2.5], ["s", "txt"], ["cs", "cel string"], ["ci", 3],
                           ["cb", False], ["o", "bytes"], ["o", "timestamp"]])
    if r < 0.7:
        kind = rng.choice(["dict", "MapType"])
        n = rng.choice([0, 1, 2, 3])
        keys = rng.sample(["a", "b", "c", "d", 1, 2, ("t", 1)], n)
        return ["m", kind, [[k, rand_pyval(rng, depth - 1, p_err)] for k in keys]]
    kind = rng.choice(["list", "tuple", "ListType"])
    return ["l", kind, [rand_pyval(rng, depth - 1, p_err) for _ in range(rng.choice([0, 1, 2, 3]))]]


def build_pyval(d):
    import datetime
    import celpy
    from celpy import celtypes
    k = d[0]
    if k == "e":
        return celpy.CELEvalError("boom")
    if k == "n":
        return None
    if k in ("b", "i", "f", "s"):
        return d[1]
    if k == "cs":
        return celtypes.StringType(d[1])
    if k == "ci":
        return celtypes.IntType(d[1])
    if k == "cb":
        return celtypes.BoolType(d[1])
    if k == "o":
        return b"bytes" if d[1] == "bytes" else celtypes.TimestampType(datetime.datetime(2020, 1, 1, tzinfo=datetime.timezone.utc))
    if k == "l":
        items = [build_pyval(x) for x in d[2]]
        return {"list": list, "tuple": tuple, "ListType": celtypes.ListType}[d[1]](items)
    if k == "m":
        def key(x):
            return tuple(x) if isinstance(x, list) else x
        items = {key(kk): build_pyval(v) for kk, v in d[2]}
        return celtypes.MapType(items) if d[1] == "MapType" else items
    raise ValueError(k)


def desc_has_error(d) -> bool:
    if d[0] == "e":
        return True
    if d[0] == "l":
        return any(desc_has_error(x) for x in d[2])
    if d[0] == "m":
        return any(desc_has_error(v) for _, v in d[2])
    return False


def check_scan(ctx: Ctx, case):
    from koreo import result
    from koreo.cel.evaluation import check_for_celevalerror
    v = build_pyval(case["value"])
    try:
        r = check_for_celevalerror(v, LOC)
    except Exception as e:
        ctx.fail(Failure("scan: exception escapes", f"check_for_celevalerror raised {e!r}", case))
        return None
    found = isinstance(r, result.PermFail)
    want = desc_has_error(case["value"])
    assert want == H.walk_has_error(v)
    ctx.count(f"scan:error-present:{want}")
    if found != want:
        ctx.fail(Failure("scan: error object " + ("missed" if want else "reported but absent"),
                         f"check_for_celevalerror returned {type(r).__name__} but an error object is "
                         f"{'present' if want else 'absent'}", case))
    elif r is not None and not found:
        ctx.fail(Failure("scan: result is neither None nor PermFail", repr(r), case))
    return f"CScan {c_tree(tree_of(v))} {cbool(found)}"


# --------------------------------------------------------------------------
# unit level: evaluate / evaluate_overlay / evaluate_predicates
# --------------------------------------------------------------------------

def raw_failed(x) -> bool:
    """celpy reported a failure (independent walker result recorded at evaluation time)"""
    return x[0] != "val" or bool(x[2])


def rawkind(x) -> str:
    return x[0] if x[0] != "val" else ("value-with-embedded-error" if x[2] else "value")


def names_location(obs, loc: str) -> bool:
    """PermFail naming the location: the location string is in the message, or the outcome has
    a non-empty location attribute"""
    return obs[0] == "out" and obs[1] == 4 and (loc in obs[3] or bool(obs[4]))


def real_inputs(b: Builder):
    import celpy
    return celpy.json_to_cel(dict(BASE_INPUTS, **b.inputs))


def check_eval(ctx: Ctx, case):
    import celpy
    from koreo.cel.evaluation import evaluate
    from koreo.cel.prepare import prepare_expression
    b = Builder()
    spec = b.spec(case["doc"]) if case["doc"] is not None else None
    prog = prepare_expression(H.cel_env(), spec, "spec.x")
    if prog is not None and not isinstance(prog, celpy.Runner):
        ctx.count("skipped:expression does not prepare")
        return None
    leak = False
    with H.recording() as log:
        try:
            r = evaluate(prog, {"inputs": real_inputs(b)}, LOC)
            obs = H.observe(r)
            leak = H.walk_has_error(r)
        except Exception as e:
            obs = ["raised", type(e).__name__]
    raws = [x for rn, x in log if rn is prog]
    why = None
    if obs[0] == "raised":
        why = (H.escape_signature("evaluate", obs[1], raws), f"evaluate raised {obs[1]}")
    elif leak:
        why = ("evaluate: error object in the returned value", "the value returned by evaluate holds a CELEvalError")
    elif prog is None:
        if obs[0] != "none":
            why = ("evaluate: no expression but a result", repr(obs))
    elif len(raws) != 1:
        why = ("evaluate: expression not evaluated exactly once", repr(len(raws)))
    elif raw_failed(raws[0]) or doc_fails(case["doc"]):
        if not names_location(obs, LOC):
            why = ("evaluate: failing expression is not a PermFail naming the location",
                   f"celpy reported a failure ({raws[0][0]}) but evaluate returned {obs}")
    elif obs[0] == "out":
        why = ("evaluate: outcome although nothing failed", repr(obs))
    if why:
        ctx.fail(Failure(why[0], why[1], case, observed={"spec": spec, "inputs": b.inputs, "result": obs}))
    ctx.count("evaluate:" + ("no-expr" if prog is None else rawkind(raws[0]) if raws else "?"))
    if prog is not None and len(raws) != 1:
        return None
    return f"CEval {copt(raws[0] if raws else None, c_raw)} {cstr(LOC)} {c_obs(obs)}"


def c_kvs(d) -> str:
    return clist(tree_of(d)[1], lambda kv: cpair(c_tree(kv[0]), c_tree(kv[1])))


def check_overlay(ctx: Ctx, case):
    import celpy
    from koreo.cel.evaluation import evaluate_overlay
    from koreo.cel.prepare import Overlay, prepare_overlay_expression
    b = Builder()
    spec = b.spec(case["doc"])
    ov = prepare_overlay_expression(H.cel_env(), spec, "spec.x")
    if not isinstance(ov, Overlay):
        ctx.count("skipped:overlay does not prepare")
        return None
    base = celpy.json_to_cel(case["base"])
    leak = False
    with H.recording() as log:
        try:
            r = evaluate_overlay(ov, {"inputs": real_inputs(b)}, base, LOC)
            obs = H.observe(r)
            leak = H.walk_has_error(r)
        except Exception as e:
            obs = ["raised", type(e).__name__]
    raws = [x for rn, x in log if rn is ov.values]
    why = None
    if obs[0] == "raised":
        why = (H.escape_signature("evaluate_overlay", obs[1], raws), f"evaluate_overlay raised {obs[1]}")
    elif leak:
        why = ("evaluate_overlay: error object in the returned value",
               "the value returned by evaluate_overlay holds a CELEvalError")
    elif len(raws) != 1:
        why = ("evaluate_overlay: expression not evaluated exactly once", repr(len(raws)))
    elif raw_failed(raws[0]) or doc_fails(case["doc"]):
        if not names_location(obs, LOC):
            why = ("evaluate_overlay: failing expression is not a PermFail naming the location",
                   f"celpy reported a failure ({raws[0][0]}) but evaluate_overlay returned {obs}")
    elif obs[0] != "val":
        why = ("evaluate_overlay: no value although nothing failed", repr(obs))
    if why:
        ctx.fail(Failure(why[0], why[1], case, observed={"spec": spec, "inputs": b.inputs, "result": obs}))
    ctx.count("evaluate_overlay:" + (rawkind(raws[0]) if raws else "?"))
    if len(raws) != 1:
        return None
    return f"COverlay {c_index(ov.value_index)} {c_raw(raws[0])} {c_kvs(case['base'])} {cstr(LOC)} {c_obs(obs)}"


PRED_SOURCES = [
    "5", "'x'", "null", "[1, 2]", "[]", "{'a': 1}", "[null]", "[[1, 2]]", "[b'x']", "[5u]",
    "[{'assert': false}]", "[{'assert': false, 'skip': {'message': 'm'}}]",
    "[{'assert': false, 'skip': {'message': 1/0}}]", "[{'assert': false, 'ok': {}}, {'assert': false, 'skip': {'message': 1/0}}]",
    "[{'assert': false, 'retry': {'message': 'm', 'delay': 'x'}}]", "[{'assert': false, 'retry': {'message': 'm', 'delay': 4}}]",
    "[{'assert': false, 'bogus': timestamp('2020-01-01T00:00:00Z')}]", "[{'assert': false, b'k': 1}]",
    "[{'assert': false, 1: 2}]", "1/0", "[1/0]", "inputs.nope", "[{'a': [1, {'b': inputs.nope}]}]",
    "[1, 2].map(x, x/0)", "{'a': 1/0}", "[{'assert': 1, 'permFail': {'message': 'p'}}]",
    "[{'permFail': {'message': 'p'}, 'assert': true}]", "[to_ref({})]", "[1, 2, 3].map(x, x > 1, x * 2)", "dyn()",
    "[{'assert': false, 'skip': {'message': dyn()}}]", "[1].map(x, inputs.nope == [])", "[inputs.nope == []]",
    "[{'assert': false, 'skip': {'message': inputs.nope == []}}]", "[{'assert': false, 'skip': {'message': to_ref({})}}]",
]


def check_predraw(ctx: Ctx, case):
    import celpy
    from koreo.cel.evaluation import evaluate_predicates
    from koreo.cel.functions import koreo_cel_functions
    prog = None
    if case["src"] is not None:
        env = H.cel_env()
        prog = env.program(env.compile(case["src"]), functions=koreo_cel_functions)
    with H.recording() as log:
        try:
            r = evaluate_predicates(prog, {"inputs": celpy.json_to_cel(BASE_INPUTS)}, LOC)
            obs = H.observe(r)
        except Exception as e:
            obs = ["raised", type(e).__name__]
    raws = [x for rn, x in log if rn is prog]
    why = None
    if obs[0] == "raised":
        why = (H.escape_signature("evaluate_predicates", obs[1], raws), f"evaluate_predicates raised {obs[1]}")
    elif obs[0] == "val" or (obs[0] == "out" and obs[1] == 2):
        why = ("evaluate_predicates: result is not an outcome", repr(obs))
    elif raws and raw_failed(raws[0]) and not names_location(obs, LOC):
        why = ("evaluate_predicates: failing expression is not a PermFail naming the location",
               f"celpy reported a failure ({raws[0][0]}) but evaluate_predicates returned {obs}")
    if why:
        ctx.fail(Failure(why[0], why[1], case, observed={"result": obs}))
    ctx.count("evaluate_predicates:" + (rawkind(raws[0]) if raws else "no-program"))
    return f"CPredRaw {copt(raws[0] if raws else None, c_raw)} {cstr(LOC)} {c_obs(obs)}"


# --------------------------------------------------------------------------
# ValueFunction level
# --------------------------------------------------------------------------

PART = {"pre": "preconditions", "locals": "locals", "return": "return"}


def pred_view_fails(case) -> bool:
    """by construction: does some assertion fail to evaluate (then the preconditions must PermFail)?"""
    for p in case["preds"] or []:
        v = H.view(p)
        if v["a"][0] == "err":
            return True
    return False


def oracle_vf(case, out):
    obs, trace = out["obs"], out["trace"]
    if obs[0] == "raised":
        return (H.escape_signature("vf", obs[1], out["raws"].values()), f"reconcile_value_function raised {obs[1]}")
    if out["leak"]:
        return ("vf: error object in the returned value", "the result of reconcile_value_function holds a CELEvalError")
    if obs[0] == "none" or (obs[0] == "out" and obs[1] == 2):
        return ("vf: result is neither a value nor a non-Ok outcome", repr(obs))
    for s in trace:
        if s not in PART:
            continue
        loc = f"{LOC}:spec.{PART[s]}"
        rec = raw_failed(out["raws"][s])
        built = (s == "pre" and pred_view_fails(case)) or \
                (s == "locals" and doc_fails(case.get("locals"))) or (s == "return" and doc_fails(case.get("ret")))
        if rec or built:
            if not (obs[0] == "out" and obs[1] == 4):
                return (f"vf: failing expression in {PART[s]} is not a PermFail",
                        f"an expression of spec.{PART[s]} failed to evaluate ({out['raws'][s][0]}) but the function "
                        f"returned {obs}")
            if not (f"{LOC}:spec." in obs[3] or bool(obs[4])):
                return (f"vf: PermFail for {PART[s]} does not name a location", repr(obs))
            return None         # evaluation stops at the first failing site
    return None


def term_vf(case, out) -> str:
    placeholder = ["raise"]

    def site(name):
        if not out["has"][name]:
            return None
        return out["raws"].get(name, placeholder)

    ret = "None"
    if out["has"]["return"]:
        ret = f"(Some ({c_index(out['index'])}, {c_raw(site('return'))}))"
    base = "None" if case.get("base") is None else f"(Some {c_kvs(case['base'])})"
    trace = clist(out["trace"], lambda s: H.SITES[s])
    return (f"CVf {copt(site('pre'), c_raw)} {copt(site('locals'), c_raw)} {ret} {base} {cstr(LOC)} "
            f"{c_obs(out['obs'])} {trace}")


def check_vf(ctx: Ctx, case, shrink=True):
    out = H.run_vf(dict(case, inputs=BASE_INPUTS))
    if out is None:
        ctx.count("skipped:vf does not prepare")
        return None
    bad = oracle_vf(case, out)
    if bad:
        sig, why = bad
        small = case
        if shrink and case["preds"]:
            def still(ps):
                c = dict(case, preds=ps or None)
                o = H.run_vf(dict(c, inputs=BASE_INPUTS))
                if o is None:
                    return False
                b = oracle_vf(c, o)
                return bool(b) and b[0] == sig
            ps = shrink_list(case["preds"], still)
            small = dict(case, preds=ps or None)
        b2 = Builder()
        spec = {k: (b2.spec(d) if k != "preconditions" else [b2.spec(p) for p in d])
                for k, d in (("preconditions", small["preds"]), ("locals", small.get("locals")), ("return", small.get("ret")))
                if d is not None}
        ctx.fail(Failure(sig, why, small, observed={"spec": spec, "inputs": b2.inputs, "result": out["obs"],
                                                     "trace": out["trace"]}))
    for s in out["trace"]:
        ctx.count(f"vf-site:{s}:{rawkind(out['raws'][s])}")
    ctx.count("vf-result:" + (out["obs"][0] if out["obs"][0] != "out" else str(out["obs"][1])))
    if "?" in out["trace"]:
        return None
    return term_vf(case, out)


def clean_pred(rng, i, truth):
    kind = rng.choice(H.KINDS)
    return H.pred(["in", truth], kind, ["lit", f"message {i}"], ["lit", 5 + i])


def gen_vf(ctx: Ctx):
    rng = ctx.rng
    # every failing expression at every site, on its own and below two levels of nesting
    for leaf in FAIL_LEAVES:
        for site in ("assert", "message", "locals", "locals-deep", "return", "return-deep", "return-list"):
            preds, locs, ret = None, None, M(("r", L(["lit", 1])))
            if site == "assert":
                preds = [clean_pred(rng, 0, True), H.pred(leaf, "skip", ["lit", "m"])]
            elif site == "message":
                preds = [clean_pred(rng, 0, True), H.pred(["in", False], "skip", leaf)]
            elif site == "locals":
                locs = M(("x", L(leaf)))
            elif site == "locals-deep":
                locs = M(("ok", L(["lit", 1])), ("x", M(("y", ["A", [L(["lit", 1]), M(("z", L(leaf)))]]))))
            elif site == "return":
                ret = M(("r", L(leaf)))
            elif site == "return-deep":
                ret = M(("a", L(["lit", 1])), ("n", M(("m", M(("k", L(leaf)))))))
            else:
                ret = M(("a", ["A", [L(["lit", 1]), M(("z", L(leaf)))]]))
            yield {"mode": "vf", "preds": preds, "locals": locs, "ret": ret, "base": None, "tag": f"vf-each:{site}"}
    n_cases = 600 if ctx.quick() else 8000
    for _ in range(n_cases):
        n = rng.choice([0, 0, 1, 2, 4])
        preds = []
        while len(preds) < n:
            p = H.rand_pred(rng, len(preds), rng.choice([0.0, 0.2, 0.5]), rng.choice([0.0, 0.2]))
            if H.vf_ok(p):
                preds.append(p)
        locs = rand_clean_doc(rng, 3, top_map=True) if rng.random() < 0.6 else None
        ret = rand_clean_doc(rng, 3, top_map=True) if rng.random() < 0.85 else None
        if locs is not None and ret is not None and rng.random() < 0.5:
            # make the return depend on locals
            k = locs[1][0][0]
            ret = ["M", ret[1] + [["fromLocals", L(["cel", f"=locals[{k!r}]", None])]]]
        if locs is not None:
            locs = with_failures(rng, locs, rng.choice([0, 0, 0, 1, 2]))
        if ret is not None:
            ret = with_failures(rng, ret, rng.choice([0, 0, 1, 1, 2]))
        if not preds and ret is None:
            continue
        base = rng.choice([None, None, {"r": 0, "keep": "k"}, {"a": {"z": 1}, "b": [1]}, {}])
        yield {"mode": "vf", "preds": preds or None, "locals": locs, "ret": ret, "base": base, "tag": "vf-random"}


# --------------------------------------------------------------------------
# ResourceFunction level (stretch: oracle only, no model of reconcile_krm_resource)
# --------------------------------------------------------------------------
try:
    import cluster as _cluster_mod      # noqa: F401
    RF_AVAILABLE = True
except Exception:                       # pragma: no cover
    RF_AVAILABLE = False

RF_SITES = ["name", "resource", "resource-deep", "overlay0", "overlay1-deep", "skipIf", "create-overlay",
            "postcondition-message", "return", "locals"]


def rf_case(site, leaf, present):
    """A ResourceFunction in which exactly one expression (at `site`) fails and which is set up so that
    the site is reached."""
    c = {"mode": "rf", "site": site, "present": present, "name": L(["lit", "obj"]),
         "resource": M(("spec", M(("v", L(["lit", 1])), ("labels", M())))),
         "overlays": [{"overlay": M(("spec", M(("a", L(["in", 2])))))},
                      {"skipIf": L(["cel", "=false", False]), "overlay": M(("spec", M(("b", M(("c", L(["lit", 3])))))))}],
         "create": None, "post": None, "locals": None, "ret": M(("r", L(["cel", "=resource.spec.v", 1]))), "tag": f"rf:{site}"}
    if site == "name":
        c["name"] = L(leaf)
    elif site == "resource":
        c["resource"] = M(("spec", M(("v", L(leaf)))))
    elif site == "resource-deep":
        c["resource"] = M(("spec", M(("l", ["A", [L(["lit", 1]), M(("z", M(("y", L(leaf)))))]]))))
    elif site == "overlay0":
        c["overlays"][0] = {"overlay": M(("spec", M(("a", L(leaf)))))}
    elif site == "overlay1-deep":
        c["overlays"][1]["overlay"] = M(("spec", M(("b", M(("c", ["A", [M(("d", L(leaf)))]]))))))
    elif site == "skipIf":
        c["overlays"][1]["skipIf"] = L(leaf)
    elif site == "create-overlay":
        c["create"] = M(("spec", M(("once", L(leaf)))))
        c["present"] = False
    elif site == "postcondition-message":
        c["post"] = [H.pred(["in", False], "skip", leaf)]
        c["present"] = "match"
    elif site == "return":
        c["ret"] = M(("r", M(("deep", ["A", [L(leaf)]]))))
        c["present"] = "match"
    elif site == "locals":
        c["locals"] = M(("x", M(("y", L(leaf)))))
    return c


_VF_COUNTER = [0]


def run_rf(case):
    import celpy
    from cluster import Cluster
    from koreo import cache
    from koreo.resource_function.prepare import prepare_resource_function
    from koreo.resource_function.reconcile import reconcile_resource_function
    from koreo.resource_function.structure import ResourceFunction
    from koreo.value_function.prepare import prepare_value_function
    from koreo.value_function.structure import ValueFunction
    try:
        from drivers import reset_all
        reset_all()
    except Exception:
        pass
    b = Builder()
    overlays, vfs = [], {}
    for o in case["overlays"]:
        e = {}
        if "skipIf" in o:
            e["skipIf"] = b.spec(o["skipIf"])
        if "overlay" in o:
            e["overlay"] = b.spec(o["overlay"])
        if "ref" in o:
            # an overlayRef to a ValueFunction (its documents may only use lit / cel / err leaves:
            # its `inputs` are what the overlay entry's `inputs` evaluate to)
            _VF_COUNTER[0] += 1
            name = f"c10-vf-{_VF_COUNTER[0]}"
            vb = Builder()
            vfs[name] = {k2: vb.spec(o["ref"][k]) for k, k2 in (("locals", "locals"), ("ret", "return"))
                         if o["ref"].get(k) is not None}
            assert not vb.inputs
            e["overlayRef"] = {"kind": "ValueFunction", "name": name}
            if o["ref"].get("inputs") is not None:
                e["inputs"] = b.spec(o["ref"]["inputs"])
        overlays.append(e)
    spec = {"apiConfig": {"apiVersion": "test.koreo.dev/v1", "kind": "TestResource", "plural": "testresources",
                          "name": b.spec(case["name"]), "namespace": "ns"},
            "resource": b.spec(case["resource"]),
            "overlays": overlays}
    if vfs:
        async def register():
            for n, vs in vfs.items():
                await cache.prepare_and_cache(ValueFunction, prepare_value_function,
                                              {"name": n, "resourceVersion": "1"}, vs)
        try:
            H.run_async(register())
        except Exception:
            return None
    if case.get("create") is not None:
        spec["create"] = {"overlay": b.spec(case["create"])}
    if case.get("locals") is not None:
        spec["locals"] = b.spec(case["locals"])
    if case.get("post") is not None:
        spec["postconditions"] = [b.spec(p) for p in case["post"]]
    if case.get("ret") is not None:
        spec["return"] = b.spec(case["ret"])
    prepared = H.run_async(prepare_resource_function("k", spec))
    if not (isinstance(prepared, tuple) and isinstance(prepared[0], ResourceFunction)):
        return None
    fn = prepared[0]
    objects = []
    if case["present"]:
        obj = {"apiVersion": "test.koreo.dev/v1", "kind": "TestResource",
               "metadata": {"name": "obj", "namespace": "ns",
                            "ownerReferences": [dict(H.OWNER[1], **{"name": "o", "uid": "u-1"})]},
               "spec": {"v": 1, "labels": {}, "a": 2, "b": {"c": 3}} if case["present"] == "match" else {"v": 0}}
        objects.append(obj)
    cl = Cluster(objects=objects)
    owner = ("ns", {"apiVersion": "v1", "kind": "Owner", "name": "o", "uid": "u-1",
                    "blockOwnerDeletion": True, "controller": False})
    leak = False
    with H.recording() as log:
        try:
            r = H.run_async(reconcile_resource_function(cl, LOC, fn, owner, real_inputs(b)))
            obs = H.observe(r.outcome)
            leak = H.walk_has_error(r.outcome) or H.walk_has_error(getattr(r.outcome, "__dict__", None)) \
                or H.walk_has_error(r.resource_id)
        except Exception as e:
            obs = ["raised", type(e).__name__]
    bodies = [c.get("body") for c in cl.calls if c.get("body") is not None]
    return {"obs": obs, "raws": [x for _, x in log], "leak": leak, "spec": spec, "inputs": b.inputs,
            "calls": [c["method"] for c in cl.calls],
            "body_leak": any("CELEvalError" in repr(bd) for bd in bodies)}


def check_rf(ctx: Ctx, case):
    if not RF_AVAILABLE:
        ctx.count("skipped:rf (harness/cluster.py not available)")
        return None
    out = run_rf(case)
    if out is None:
        ctx.count("skipped:rf does not prepare")
        return None
    obs = out["obs"]
    why = None
    rec_failed = any(raw_failed(x) for x in out["raws"])
    if obs[0] == "raised":
        why = (H.escape_signature("rf", obs[1], out["raws"]), f"reconcile_resource_function raised {obs[1]}")
    elif out["leak"]:
        why = ("rf: error object in the result", "the Result of reconcile_resource_function holds a CELEvalError")
    elif out["body_leak"]:
        why = ("rf: error object sent to the API server", "a POST/PATCH body mentions a CELEvalError")
    elif rec_failed or case["site"] != "none":
        if not (obs[0] == "out" and obs[1] == 4):
            why = (f"rf: failing expression at {case['site']} is not a PermFail",
                   f"an expression at {case['site']} failed to evaluate but the function returned {obs} "
                   f"(API calls {out['calls']})")
        elif not (obs[3] or obs[4]):
            why = ("rf: PermFail names no location", repr(obs))
        elif case.get("fail_index") is not None and \
                any(int(n) != case["fail_index"]
                    for n in re.findall(r"spec\.overlays\[(\d+)\]", f"{obs[3]} {obs[4] or ''}")):
            why = ("rf: PermFail names the wrong overlay",
                   f"the failing expression sits in spec.overlays[{case['fail_index']}] but the PermFail says {obs[3]!r} "
                   f"(location {obs[4]!r})")
        elif any(m in ("POST", "PATCH", "DELETE") for m in out["calls"]):
            why = ("rf: cluster mutated although an expression failed", repr(out["calls"]))
    if why:
        ctx.fail(Failure(why[0], why[1], case, observed={"spec": out["spec"], "inputs": out["inputs"],
                                                         "result": obs, "calls": out["calls"]}))
    ctx.count(f"rf-site:{case['site']}:{'failed-as-recorded' if rec_failed else 'clean'}")
    ctx.count("rf-result:" + (obs[0] if obs[0] != "out" else str(obs[1])))
    return None          # oracle only: reconcile_krm_resource is not modelled


def gen_rf_overlays(ctx: Ctx):
    """several overlays, each earlier one skipped (skipIf true) or applied, ONE later overlay failing — in its
    inline document, its skipIf, its overlayRef inputs, or inside the referenced ValueFunction: the PermFail
    must name the failing overlay's position in spec.overlays"""
    rng = ctx.rng
    leaves = [["err", "=1/0"], ["err", "=inputs.nope.x"], ["err", "={'a': [{'b': 1/0}]}"], ["raise", "=[1].map(x, x/0)"]]
    skip_true = [L(["in", True]), L(["cel", "=true", True]), L(["cel", "=1 == 1", True])]
    skip_false = [L(["in", False]), L(["cel", "=false", False])]

    def fine(i):
        if rng.random() < 0.3:
            return {"ref": {"inputs": M(("v", L(["in", i]))), "ret": M(("spec", M((f"f{i}", L(["cel", "=inputs.v", i])))))}}
        return {"overlay": M(("spec", M((f"o{i}", L(["in", i])))))}

    kinds = ["inline", "inline-deep", "skipIf", "ref-inputs", "ref-vf-return", "ref-vf-locals"]
    for n in (2, 3, 4):
        for k in range(0, n):
            for pattern in ("all-skipped", "first-skipped", "none-skipped", "random"):
                for kind in (kinds if not ctx.quick() else rng.sample(kinds, 3)):
                    leaf = rng.choice(leaves)
                    ovs = []
                    for i in range(n):
                        o = fine(i)
                        if i < k:
                            skipped = {"all-skipped": True, "first-skipped": i == 0, "none-skipped": False,
                                       "random": rng.random() < 0.5}[pattern]
                            if skipped:
                                o["skipIf"] = rng.choice(skip_true)
                            elif rng.random() < 0.5:
                                o["skipIf"] = rng.choice(skip_false)
                        elif i == k:
                            if kind == "inline":
                                o = {"overlay": M(("spec", M(("bad", L(leaf)))))}
                            elif kind == "inline-deep":
                                o = {"overlay": M(("spec", M(("l", ["A", [M(("z", L(leaf)))]]))))}
                            elif kind == "skipIf":
                                o["skipIf"] = L(leaf)
                            elif kind == "ref-inputs":
                                o = {"ref": {"inputs": M(("v", L(leaf))), "ret": M(("spec", M(("r", L(["lit", 1])))))}}
                            elif kind == "ref-vf-return":
                                o = {"ref": {"inputs": M(("v", L(["in", 1]))), "ret": M(("spec", M(("r", L(leaf)))))}}
                            else:
                                o = {"ref": {"inputs": M(("v", L(["in", 1]))), "locals": M(("x", L(leaf))),
                                             "ret": M(("spec", M(("r", L(["lit", 1])))))}}
                            if kind != "skipIf" and rng.random() < 0.4:
                                o["skipIf"] = rng.choice(skip_false)
                        ovs.append(o)
                    c = rf_case("locals", ["lit", 1], rng.choice([False, "drift"]))
                    c.update(overlays=ovs, site=f"overlays[{k}]:{kind}", fail_index=k, tag=f"rf-overlays:{pattern}")
                    yield c


def gen_rf(ctx: Ctx):
    rng = ctx.rng
    leaves = FAIL_LEAVES if not ctx.quick() else rng.sample(FAIL_LEAVES, 14)
    for leaf in leaves:
        for site in RF_SITES:
            for present in ([False, "drift", "match"] if site in ("resource", "overlay0", "name") else ["drift"]):
                yield rf_case(site, leaf, present)
    for present in (False, "drift", "match"):
        yield dict(rf_case("locals", ["lit", 1], present), site="none", tag="rf:clean")


def gen_cases(ctx: Ctx):
    rng = ctx.rng
    for c in corpus_cases("C10"):
        yield c
    if RF_AVAILABLE:
        yield from gen_rf(ctx)
        yield from gen_rf_overlays(ctx)
    yield from gen_deep(ctx)
    # every failing expression, alone and nested, through evaluate and evaluate_overlay
    for leaf in FAIL_LEAVES:
        yield {"mode": "eval", "doc": L(leaf), "tag": "each:top"}
        yield {"mode": "eval", "doc": M(("x", L(leaf))), "tag": "each:map"}
        yield {"mode": "eval", "doc": ["A", [L(["lit", 1]), L(leaf)]], "tag": "each:list"}
        yield {"mode": "eval", "doc": M(("a", ["A", [M(("b", ["A", [L(leaf)]]))]])), "tag": "each:deep"}
        yield {"mode": "overlay", "doc": M(("x", L(leaf))), "base": {}, "tag": "each:map"}
        yield {"mode": "overlay", "doc": M(("a", M(("b", M(("c", L(leaf))))))), "base": {"a": {"b": {"k": 1}}}, "tag": "each:deep"}
        yield {"mode": "overlay", "doc": M(("l", ["A", [M(("z", L(leaf)))]])), "base": {"l": [1]}, "tag": "each:list"}
    for leaf in CLEAN_LEAVES:
        yield {"mode": "eval", "doc": M(("x", L(leaf))), "tag": "clean"}
    for rep in range(2 if ctx.quick() else 12):
        for doc in key_shape_docs(rng):
            yield {"mode": "overlay", "doc": doc, "base": rng.choice([{}, {"team": {"owner": "o"}, "a": {"b": 1}}]),
                   "tag": "key-shapes"}
            yield {"mode": "eval", "doc": doc, "tag": "key-shapes"}
            yield {"mode": "vf", "preds": None, "locals": None, "ret": doc, "base": rng.choice([None, {"a": {"b": {"c": 0}}}]),
                   "tag": "vf-key-shapes"}
            yield {"mode": "vf", "preds": None, "locals": doc, "ret": M(("r", L(["lit", 1]))), "base": None,
                   "tag": "vf-key-shapes"}
    yield {"mode": "eval", "doc": None, "tag": "no-expr"}
    yield {"mode": "predraw", "src": None, "tag": "predraw"}
    for src in PRED_SOURCES:
        yield {"mode": "predraw", "src": src, "tag": "predraw"}
    n_scan = 1000 if ctx.quick() else 15000
    for _ in range(n_scan):
        yield {"mode": "scan", "value": rand_pyval(rng, rng.choice([1, 2, 3, 5]), rng.choice([0.0, 0.05, 0.15, 0.4])),
               "tag": "scan"}
    n_unit = 800 if ctx.quick() else 12000
    for _ in range(n_unit):
        k = rng.choice([0, 1, 1, 1, 2])
        if rng.random() < 0.5:
            yield {"mode": "eval", "doc": with_failures(rng, rand_clean_doc(rng, 4), k), "tag": "eval-random"}
        else:
            yield {"mode": "overlay", "doc": with_failures(rng, rand_clean_doc(rng, 4, top_map=True), k),
                   "base": rng.choice([{}, {"a": 1}, {"a": {"b": {"c": 1}}, "spec": {"x": [1]}}, {"name": {"k1": None}}]),
                   "tag": "overlay-random"}
    yield from gen_vf(ctx)


# --------------------------------------------------------------------------
# driver
# --------------------------------------------------------------------------

def nontrivial(case) -> bool:
    m = case["mode"]
    if m == "scan":
        return desc_has_error(case["value"]) and case["value"][0] != "e"
    if m in ("eval", "overlay"):
        return case["doc"] is not None and doc_depth_of_failure(case["doc"]) >= 1
    if m == "vf":
        return sum(1 for d in (case["preds"], case.get("locals"), case.get("ret")) if d) >= 2
    if m == "rf":
        return case["site"] != "none"
    return True


def check_one(ctx: Ctx, case):
    m = case["mode"]
    if m == "scan":
        return check_scan(ctx, case)
    if m == "eval":
        return check_eval(ctx, case)
    if m == "overlay":
        return check_overlay(ctx, case)
    if m == "predraw":
        return check_predraw(ctx, case)
    if m == "rf":
        return check_rf(ctx, case)
    return check_vf(ctx, case)


def run(ctx: Ctx):
    cases, terms = [], []
    for case in gen_cases(ctx):
        try:
            term = check_one(ctx, case)
        except Exception as e:
            ctx.fail(Failure(signature=f"{case['mode']}: harness could not run the case ({type(e).__name__})",
                             what=repr(e), case=case))
            continue
        ctx.note_case(case, nontrivial=nontrivial(case))
        ctx.count(f"mode:{case['mode']}")
        ctx.count(f"tag:{case.get('tag', 'corpus')}")
        if term is not None:
            cases.append(case)
            terms.append(term)
    ctx.count("workflow sites: not exercised; rf sites: oracle only" if RF_AVAILABLE
              else "rf/workflow sites: not exercised (harness/cluster.py not available)")
    if ctx.model_ok:
        ctx.correspond("cel.evaluation / reconcile_value_function vs ErrScan.v+Predicates.v", "Corr_C10", cases, terms)


def replay(ctx: Ctx, data):
    case = data["case"] if "case" in data else data
    term = check_one(ctx, case)
    ctx.note_case(case, True)
    if ctx.model_ok and term is not None:
        ctx.correspond("replay", "Corr_C10", [case], [term])
