"""C02 — the workflow result is independent of step completion order
(src/koreo/workflow/reconcile.py) vs model/Sched.v + model/Workflow.v."""
from __future__ import annotations

import copy
import itertools
import json
import time

import wf_model as m
from common import Ctx, Failure, corpus_cases, eval_cases
from props import C01

COQ_TARGETS = ["props/P_C02.vo", "corr/Corr_C02.vo"]
PROOF_FILES = ["proofs/Sched_proofs.v", "proofs/Workflow_proofs.v"]
RULE = ("valid random DAG workflows (1..16 steps; ref / refSwitch / forEach / skipIf / sub-workflows, biased towards "
        "ResourceFunction steps and forEach over ResourceFunctions so that several API calls are in flight), prepared "
        "through the real cache and reconciled by the real reconcile_workflow on a virtual-time event loop; every API "
        "call (object, method) — and every plural lookup (kind, LOOKUP) of a ResourceFunction without `plural`, the lookup "
        "cache being cold in every pass — gets an injected latency; besides the order plans there are duration plans in which "
        "one call takes 3.5 / 6 / 9 virtual seconds (still below STEP_TIMEOUT); for a workflow with <= 4 (quick) / <= 5 (thorough) calls ALL "
        "rank permutations of the latencies are run, otherwise random ones, all far below STEP_TIMEOUT; recorded per run: "
        "the full Result, per-step outcomes, evaluations of Logic, API calls and the ORDER in which step tasks and "
        "forEach item tasks finished.  non-trivial = at least two distinct completion orders were observed for the "
        "workflow; distinct by workflow content + completion order")
ASSUMPTIONS = [
    "the calls succeed within the step timeout (injected latencies sum to < 9 virtual seconds; no faults): every task finishes",
    "steps act on pairwise distinct objects and nobody else changes the cluster during the pass: a Function's result is "
    "a function of the inputs it receives (fn_sem : fid -> inputs -> result), not of what other steps did before",
    "theorems: labels pairwise distinct, dependencies name earlier steps (prepare_workflow's guarantee)",
    "a sub-workflow evaluation is one atomic completion at its parent's level; its own steps are scheduled by the same "
    "semantics one level down (the theorems apply there again); interleaving at single-`await` granularity inside a "
    "Function is exercised by the latency injection, not modelled",
    "asyncio: a task awaiting `asyncio.wait(dependencies)` resumes only after those tasks are done; TaskGroup joins all",
]
TRUSTED = ["harness/vloop.py virtual-time loop and harness/cluster.py latency injection",
           "harness/wf_model.py realiser / recording shims (completion order is read from shims around "
           "koreo.workflow.reconcile._reconcile_step and _reconcile_step_logic)"]


def rids_as_dict(r):
    """resource ids with the per-step mapping as a dict (its insertion order is not part of the result)"""
    if isinstance(r, list) and r and r[0] == "wf":
        return {"workflow": r[1], "resources": {k: rids_as_dict(v) for k, v in r[2]}}
    if isinstance(r, list) and r and r[0] == "many":
        return [rids_as_dict(x) for x in r[1]]
    return r


def result_view(top):
    t = dict(top)
    t["rids"] = rids_as_dict(top["rids"])
    t["state_errs"] = sorted(top["state_errs"])
    return t


def canon_run(o):
    """everything the property says must not depend on the schedule; mappings (per-step outcomes, resource ids,
    state) are compared as mappings, lists (overall Ok values, conditions, forEach results) as lists"""
    return {"top": result_view(o["top"]),
            "outcomes": {l: [out, rids_as_dict(r)] for l, out, r in o["outcomes"]},
            "trace": sorted(json.dumps({k: t[k] for k in ("path", "tgt", "inputs", "calls")}, sort_keys=True) for t in o["trace"]),
            "calls": sorted(json.dumps([c["method"], c["name"], c["path"]]) for c in o["calls"]),
            "nested_results": {k: result_view(v) for k, v in o["nested_results"].items()},
            "objects_after": o["objects_after"],
            # prose is never judged, only required to be the SAME for the same workflow and the same API answers
            "messages": o.get("messages", {})}


def diff_fields(a, b):
    out = []
    for k in a:
        if json.dumps(a[k], sort_keys=True) != json.dumps(b[k], sort_keys=True):
            if k == "top":
                for kk in a[k]:
                    if json.dumps(a[k][kk], sort_keys=True) != json.dumps(b[k][kk], sort_keys=True):
                        out.append(f"Result.{kk}")
            else:
                out.append(k)
    return out


def expected_state(sc, o):
    """state merged in LISTED step order, computed from the observed per-step values"""
    outs = {l: out for l, out, _ in o["outcomes"]}
    state, errs = {}, []
    for s in sc["steps"]:
        out = outs.get(s["label"])
        if not s.get("state") or out is None or out["cls"] != "Ok":
            continue
        try:
            state.update(m.py_eval(["M", s["state"]], {"value": out.get("value")}))
        except m.EvalError:
            errs.append(s["label"])
    return state, errs


def foreach_order(sc, o):
    """-> list of complaints: forEach value k does not belong to item k (visible when Logic echoes its inputs)"""
    bad = []
    outs = {l: out for l, out, _ in o["outcomes"]}
    for s in sc["steps"]:
        if not s.get("foreach") or outs.get(s["label"], {}).get("cls") != "Ok":
            continue
        key = s["foreach"][1]
        direct = sorted((t for t in o["trace"] if len(t["path"]) == 1 and t["path"][0][0] == s["label"]),
                        key=lambda t: t["path"][0][1])
        vals = outs[s["label"]].get("value")
        if not isinstance(vals, list):
            continue
        for t in direct:
            k = t["path"][0][1]
            if k is None or k >= len(vals):
                continue
            v = vals[k]
            if isinstance(v, dict) and isinstance(v.get("got"), dict) and key in v["got"]:
                if not C01.same(v["got"][key], t["inputs"].get(key)):
                    bad.append(f"step {s['label']}: result[{k}] carries item {v['got'][key]!r} but evaluation {k} "
                               f"received {t['inputs'].get(key)!r}")
    return bad


def call_keys(o):
    """every API call of the pass that can be given a latency: (object, method) and (kind, "LOOKUP") for the plural
    lookups of ResourceFunctions without `plural`"""
    seen = []
    for c in o["calls"]:
        k = (c["name"], c["method"])
        if k not in seen:
            seen.append(k)
    for c in o.get("lookups", []):
        k = (c["kind"], "LOOKUP")
        if k not in seen:
            seen.append(k)
    return seen


EPS = 0.01


def latency_plans(ctx: Ctx, keys):
    """latency assignments: (a) completion ORDER: all rank permutations for few calls, random ones otherwise;
    (b) DURATION: "arbitrary latencies below the timeout" — one call (one per method kind present, random otherwise)
    takes 3.5 / 6 / 9 virtual seconds while all others are quick, so the whole pass still ends below STEP_TIMEOUT"""
    n = len(keys)
    if n == 0:
        return []
    limit = 4 if ctx.quick() else 5
    unit = min(0.25, 8.0 / (n * (n + 1) / 2))
    plans = []
    if n <= limit:
        for perm in itertools.permutations(range(1, n + 1)):
            plans.append({k: r * unit for k, r in zip(keys, perm)})
    else:
        for _ in range(6 if ctx.quick() else 24):
            ranks = list(range(1, n + 1))
            ctx.rng.shuffle(ranks)
            plans.append({k: r * unit for k, r in zip(keys, ranks)})
    slow = []
    for method in sorted({k[1] for k in keys}):
        slow.append(ctx.rng.choice([k for k in keys if k[1] == method]))
    if not ctx.quick():
        slow += [ctx.rng.choice(keys) for _ in range(3)]
    for k in slow:
        big = ctx.rng.choice([3.5, 6.0, 9.0]) if n * EPS < 0.5 else 3.5
        plans.append({kk: (big if kk == k else EPS) for kk in keys})
    return plans


def run_scenario(ctx: Ctx, sc, cases, terms):
    base = m.run(sc)
    if "raised" in base["top"]:
        ctx.fail(Failure(signature="reconcile_workflow raised " + base["top"]["raised"], what=base["top"]["msg"], case=sc))
        return
    if m.shares_objects(base):
        ctx.count("discarded:two-evaluations-share-an-object")          # outside the hypothesis (generator slip)
        return
    runs = [(None, base)]
    keys = call_keys(base)
    for plan in latency_plans(ctx, keys):
        o = m.run(sc, lat=plan)
        runs.append(([[k[0], k[1], v] for k, v in plan.items()], o))
    ref = canon_run(base)
    orders = set()
    reported = set()

    def fail(sig, what, plan, o):
        if sig in reported:
            return
        reported.add(sig)
        ctx.fail(Failure(signature=sig, what=what, case={"scenario": sc, "latency": plan},
                         observed={"events": o.get("events"), "result": o["top"], "outcomes": o["outcomes"]},
                         expected={"no-latency run": {"events": base.get("events"), "result": base["top"],
                                                      "outcomes": base["outcomes"]}}))

    for plan, o in runs:
        if "raised" in o["top"]:
            fail("reconcile_workflow raised under latency " + o["top"]["raised"], o["top"]["msg"], plan, o)
            continue
        orders.add(json.dumps(o["events"]))
        # (1) the whole result is the same for every completion order
        d = diff_fields(ref, canon_run(o))
        if d:
            fail("result depends on completion order: " + ", ".join(sorted(set(d))),
                 f"fields {d} differ between the no-latency run and the run with latencies {plan}", plan, o)
        # (1b) a step's task never finishes before the tasks of the steps it references have finished
        pos = {e[1]: i for i, e in enumerate(o["events"]) if e[0] == "step"}
        for st in sc["steps"]:
            for r in m.step_refs(st):
                if st["label"] in pos and r in pos and pos[st["label"]] < pos[r]:
                    fail("a step finished before a step it references",
                         f"{st['label']} finished before {r}: completion order {o['events']}", plan, o)
        # (2) forEach: source order, own item  (+ every clause of C01 under this schedule)
        for w in foreach_order(sc, o):
            fail("forEach result not in source order / wrong item", w, plan, o)
        for sig, what, _ in C01.oracle(sc, o):
            fail(sig, what, plan, o)
        # (3) state merged in listed step order
        if o["prepared"]["ready"] is None:
            st, errs = expected_state(sc, o)
            if not C01.same(st, o["top"]["state"]):
                fail("state is not the listed-order merge of the steps' published state",
                     f"state {o['top']['state']!r}, listed-order merge {st!r}", plan, o)
        # virtual time must stay below the timeout (otherwise the generator broke a hypothesis)
        cases.append({"scenario": sc, "latency": plan})
        terms.append(m.c_sched_case(sc, o))
    n_orders = len(orders)
    ctx.note_case({"steps": sc["steps"], "subs": sc.get("subs"), "existing": sc.get("existing"), "orders": sorted(orders)},
                  nontrivial=n_orders >= 2)
    ctx.cases += len(runs) - 1
    ctx.count("workflows")
    ctx.count("runs", len(runs))
    ctx.count(f"api-calls-per-workflow:{min(len(keys), 9)}")
    ctx.count(f"distinct-completion-orders:{min(n_orders, 9)}")
    ctx.count("all-permutations" if 0 < len(keys) <= (4 if ctx.quick() else 5) else ("random-latencies" if keys else "no-calls"))
    ctx.count("result:" + base["top"]["result"]["cls"])
    ctx.count(f"steps:{min(len(sc['steps']), 20)}")
    for s in sc["steps"]:
        if s.get("foreach"):
            ctx.count("forEach-steps")
        if s.get("state"):
            ctx.count("state-steps")


def hand_scenarios():
    """small workflows built to have many orders: independent RF steps publishing the same state key, a forEach over
    RFs, a dependent of both"""
    C = m.C
    for existing in ([], ["obj-a", "obj-fe-1"], ["obj-a", "obj-b", "obj-fe-0", "obj-fe-1", "obj-fe-2"]):
        yield {"name": "wf-main", "trigger": {"spec": {"y": 1}}, "subs": {}, "existing": existing, "edit": None, "broken": None,
               "steps": [
                   {"label": "aaa", "inputs": [["name", C("obj-a")], ["v", C(1)]], "logic": ["fn", "res"],
                    "state": [["k", ["V", ["got", "v"]]], ["ka", C("a")]], "cond": ["Alpha", "thing a"]},
                   {"label": "bbb", "inputs": [["name", C("obj-b")], ["v", C(2)]], "logic": ["fn", "resl"],
                    "state": [["k", ["V", ["got", "v"]]], ["kb", C("b")]], "cond": ["Alpha", "thing b"]},
                   {"label": "fee", "inputs": [["w", C("x")]], "foreach": [C(["obj-fe-0", "obj-fe-1", "obj-fe-2"]), "name"],
                    "logic": ["fn", "res"], "state": [["fe", ["V", []]]]},
                   {"label": "ccc", "inputs": [["a", ["S", "aaa", ["got", "v"]]], ["b", ["S", "bbb", ["got", "v"]]]],
                    "logic": ["fn", "echo"], "state": [["k", C("from-c")]]},
                   {"label": "ddd", "inputs": [["f", ["S", "fee", []]]], "logic": ["fn", "echo"]}]}


def drift_scenarios():
    """ResourceFunctions whose present object has drifted (inside a list compared as a set) run next to other
    steps with outstanding calls: read, compare, PATCH, Retry - in every completion order  (family added for seeded
    C02-17: a comparator that raises on that difference made the sibling's outcome depend on who finished first)"""
    C = m.C
    for existing in (["obj-d"], ["obj-d", "obj-a"], ["obj-d", "obj-e", "obj-fd-1"], []):
        yield {"name": "wf-main", "trigger": {"spec": {"y": 1}}, "subs": {}, "existing": existing, "edit": None, "broken": None,
               "steps": [
                   {"label": "ddd", "inputs": [["name", C("obj-d")], ["v", C(1)]], "logic": ["fn", "resd"],
                    "state": [["k", C("d")]], "cond": ["Delta", "thing d"]},
                   {"label": "aaa", "inputs": [["name", C("obj-a")], ["v", C(2)]], "logic": ["fn", "res"],
                    "state": [["k", ["V", ["got", "v"]]]], "cond": ["Alpha", "thing a"]},
                   {"label": "eee", "inputs": [["name", C("obj-e")], ["v", C(3)]], "logic": ["fn", "resd"]},
                   {"label": "ccc", "inputs": [["a", ["S", "aaa", ["got", "v"]]]], "logic": ["fn", "echo"]}]}
    yield {"name": "wf-main", "trigger": {}, "subs": {}, "existing": ["obj-fd-0", "obj-fd-2", "obj-b"], "edit": None, "broken": None,
           "steps": [{"label": "fdd", "inputs": [["w", C(1)]], "foreach": [C(["obj-fd-0", "obj-fd-1", "obj-fd-2"]), "name"],
                      "logic": ["fn", "resd"]},
                     {"label": "bbb", "inputs": [["name", C("obj-b")]], "logic": ["fn", "resl"], "cond": ["Beta", "thing b"]}]}


def many_item_scenarios():
    """forEach over MORE THAN 10 items (index 10 vs index 2), items distinguishable, some objects already present"""
    C = m.C
    for n, existing_step in ((11, 2), (13, 3)):
        names = [f"obj-many-{i}" for i in range(n)]
        yield {"name": "wf-main", "trigger": {"spec": {"y": 1}}, "subs": {}, "existing": names[::existing_step],
               "edit": None, "broken": None,
               "steps": [{"label": "many", "inputs": [["w", C(1)]], "foreach": [C(names), "name"], "logic": ["fn", "res"],
                          "state": [["many", ["V", []]]]},
                         {"label": "echo", "inputs": [["w", C(2)]], "foreach": [C([f"it{i}" for i in range(n)]), "item"],
                          "logic": ["fn", "echo"], "state": [["echo", ["V", []]]]},
                         {"label": "tail", "inputs": [["d", ["S", "echo", []]]], "logic": ["fn", "echo"]}]}
    names = [f"obj-all-{i}" for i in range(12)]
    yield {"name": "wf-main", "trigger": {}, "subs": {}, "existing": list(names), "edit": None, "broken": None,
           "steps": [{"label": "many", "inputs": [["w", C(1)]], "foreach": [C(names), "name"], "logic": ["fn", "res"],
                      "state": [["many", ["V", []]]]},
                     {"label": "tail", "inputs": [["d", ["S", "many", []]]], "logic": ["fn", "echo"]}]}


def scenarios(ctx: Ctx):
    for sc in many_item_scenarios():
        yield sc
    for c in corpus_cases("C02"):
        yield c["scenario"] if "scenario" in c else c
    for sc in hand_scenarios():
        yield sc
    n = 50 if ctx.quick() else 300
    for i in range(n):
        sc = m.rand_scenario(ctx.rng, nsteps=ctx.rng.choice([2, 3, 4, 5, 6, 8, 10, 12, 16]), broken=False,
                             res_bias=ctx.rng.choice([0.2, 0.4, 0.6]))
        sc["err_rate"] = 0.0
        yield sc
    # after the random stream, so that the latency plans drawn for it leave the random workflows of a seed unchanged
    for sc in drift_scenarios():
        yield sc


def correspond(ctx: Ctx, name, cases, terms, shard=40, jobs=4):
    t0 = time.time()
    bad, err = eval_cases("Corr_C02", terms, ctx.workdir / "coq", check_fn="check_sched_case", shard=shard, jobs=jobs,
                          extra_imports=("Corr_C01",))
    ctx.traces += len(terms) if not err else 0
    ctx.count(f"corr:{name}:cases", len(terms))
    ctx.dist[f"corr:{name}:secs"] = round(time.time() - t0, 1)
    if err:
        ctx.corr_errors.append(f"{name}: {err}")
    for i in sorted(bad):
        ctx.mismatch(name, cases[i])
    return bad


def run(ctx: Ctx):
    cases, terms = [], []
    for sc in scenarios(ctx):
        run_scenario(ctx, sc, cases, terms)
    if ctx.model_ok:
        correspond(ctx, "completion orders vs Sched.sched_result", cases, terms)


def replay(ctx: Ctx, data):
    case = data["case"] if "case" in data else data
    sc = case["scenario"] if "scenario" in case else case
    cases, terms = [], []
    plan = case.get("latency")
    if plan:
        # replay exactly the failing latency plan next to the no-latency run
        base = m.run(sc)
        o = m.run(sc, lat={(k[0], k[1]): k[2] for k in plan})
        d = diff_fields(canon_run(base), canon_run(o))
        if d:
            ctx.fail(Failure(signature="result depends on completion order: " + ", ".join(sorted(set(d))),
                             what=f"fields {d} differ", case=case, observed=o["top"], expected=base["top"]))
        for sig, what, _ in C01.oracle(sc, o):
            ctx.fail(Failure(signature=sig, what=what, case=case))
        cases, terms = [case, case], [m.c_sched_case(sc, base), m.c_sched_case(sc, o)]
        ctx.note_case(case, True)
    else:
        run_scenario(ctx, sc, cases, terms)
    if ctx.model_ok and terms:
        correspond(ctx, "replay", cases, terms)
