"""C05 — drift in any target-specified field triggers the configured correction.

Model: coq/model/Validate.v (validate.py completely + the comparison/dispatch tail of
reconcile_krm_resource).  Two levels:

* unit   — `validate_match(target, actual, last_applied, compare_list_as_set)` on generated
           quadruples vs `Validate.vmatch` (outcome class incl. the exception class), and the
           direct oracle "a matching live object + ONE deviation at a target-specified path
           => match=False (not True, not an exception)";
* flow   — real prepare_resource_function + reconcile_resource_function against the in-memory
           cluster: create, decorate, perturb the stored object at one path, reconcile again and
           look at the mutation log / outcome; after a PATCH one more pass must not mutate.
           The arguments validate_match received in that pass are captured and the whole tail is
           compared with `Validate.tail`.

This module also holds the generators/helpers shared with C04 (harness/props/C04.py).
"""
from __future__ import annotations

import copy
import itertools
import json
import math

import common
from common import (Ctx, Failure, cbool, cjson, clist, copt, cstr, cz, corpus_cases)

COQ_TARGETS = ["props/P_C05.vo", "corr/Corr_C05.vo"]
PROOF_FILES = ["proofs/Validate_proofs.v", "proofs/Fixpoint_proofs.v"]
RULE = ("unit: (target, actual, last_applied, as_set) with targets of depth <= 4 carrying the three x-koreo "
        "directives at random depths (also inside list items, also malformed), falsy leaves, ints vs equal "
        "floats, server-decorated actuals, plus an exhaustive product over a small value alphabet; for every "
        "well-formed target every target-specified path x every deviation kind; flow: target x policy "
        "(patch/recreate/never) x owned x one deviation, through prepare/reconcile against the in-memory "
        "cluster; a case is non-trivial when the target has >= 2 keys or a directive; distinct by content")
ASSUMPTIONS = [
    "values are JSON documents (dict/list/str/int/float/bool/None; no tuples, NaN or infinities) — what "
    "convert_bools / json.loads / kr8s produce",
    "drift_detected: the live object matched before the deviation; the target is a well-formed dict (unique keys); "
    "the path avoids ownerReferences keys and keys compared against last-applied (excluded by the property text)",
    "drift_corrected: the last-applied extraction on the deviated object returns the same document or None (it fails to "
    "return only for a truthy non-dict live object, which cannot come back from the API, or for a non-string / unparsable "
    "annotation VALUE, which no target specifies)",
    "patch_restores: no explicit nulls in the target, set-directed lists hold scalars, map-directed lists hold "
    "maps with scalar key fields, the target does not itself specify the last-applied annotation",
    "f\"{x}\" of compare-as-map key fields is modelled for None/bool/int/str/integral floats (other values: "
    "'out of model', generators avoid them in the Coq comparison); str.strip() for ASCII white space",
    "the Python set iteration order in _validate_dict_match is not modelled: the model yields the SET of "
    "outcomes some order can produce; the observation must be a member (equality when definite)",
]
TRUSTED = ["harness/cluster.py applies PATCH as RFC 7386 merge-patch (cross-checked against Payload.merge_patch by C08)",
           "the capture shim around koreo.resource_function.reconcile.validate_match only deep-copies its arguments"]

S = "x-koreo-compare-as-set"
M = "x-koreo-compare-as-map"
L = "x-koreo-compare-last-applied"
DIRS = (S, M, L)
OWNERS = "ownerReferences"
ANNOTATION = "koreo.dev/last-applied-configuration"




# ---------------------------------------------------------------------------
# JSON helpers
# ---------------------------------------------------------------------------

def strip(j):
    if isinstance(j, dict):
        return {k: strip(v) for k, v in j.items() if k not in DIRS}
    if isinstance(j, list):
        return [strip(v) for v in j]
    return j


def is_scalar(v):
    return not isinstance(v, (dict, list))


def strict_eq(a, b):
    """JSON equality that tells bool from int but not int from an equal float."""
    if isinstance(a, bool) or isinstance(b, bool):
        return isinstance(a, bool) and isinstance(b, bool) and a == b
    if isinstance(a, dict) and isinstance(b, dict):
        return a.keys() == b.keys() and all(strict_eq(a[k], b[k]) for k in a)
    if isinstance(a, list) and isinstance(b, list):
        return len(a) == len(b) and all(strict_eq(x, y) for x, y in zip(a, b))
    if isinstance(a, (dict, list)) or isinstance(b, (dict, list)):
        return False
    return a == b


def key_of(obj, fields):
    return "$".join(f"{obj.get(f)}".strip() for f in fields)


def has_null(j):
    if j is None:
        return True
    if isinstance(j, dict):
        return any(has_null(v) for v in j.values())
    if isinstance(j, list):
        return any(has_null(v) for v in j)
    return False


def map_field_names(t, acc=None):
    """every field name used by any well- or ill-formed compare-as-map directive inside t"""
    acc = set() if acc is None else acc
    if isinstance(t, dict):
        m = t.get(M)
        if isinstance(m, dict):
            for fields in m.values():
                if isinstance(fields, list):
                    acc.update(f for f in fields if isinstance(f, str))
                elif isinstance(fields, str):
                    acc.update(fields)
                elif isinstance(fields, dict):
                    acc.update(fields.keys())
        for v in t.values():
            map_field_names(v, acc)
    elif isinstance(t, list):
        for v in t:
            map_field_names(v, acc)
    return acc


def _unmodelled_str(v):
    if isinstance(v, (dict, list)):
        return True
    if isinstance(v, float):
        return not (v == int(v) and abs(v) < 1e16) or (v == 0 and math.copysign(1, v) < 0)
    if isinstance(v, str):
        # str.strip() strips non-ASCII white space too; the model only ASCII
        return any(ord(c) > 127 and c.isspace() for c in v)
    return False


def may_oom(t, a, la):
    """over-approximation of 'the model may answer out-of-model': a compare-as-map key field holds a
    value whose f-string is not modelled, somewhere in t / a / la"""
    names = map_field_names(t)
    if not names:
        return False

    def scan(j):
        if isinstance(j, dict):
            return any((k in names and _unmodelled_str(v)) or scan(v) for k, v in j.items())
        if isinstance(j, list):
            return any(scan(v) for v in j)
        return False
    return scan(t) or scan(a) or scan(la)


# ---------------------------------------------------------------------------
# running the real comparator
# ---------------------------------------------------------------------------

def run_validate(t, a, la, as_set=False):
    """-> 'match' | 'mismatch' | exception class name"""
    from koreo.resource_function.reconcile.validate import validate_match
    try:
        r = validate_match(copy.deepcopy(t), copy.deepcopy(a), copy.deepcopy(la), as_set)
    except Exception as e:  # noqa: BLE001 - the class is the observation
        return type(e).__name__
    return "match" if r.match else "mismatch"


def c_obs(o):
    if o == "match":
        return "ObsMatch"
    if o == "mismatch":
        return "ObsMismatch"
    if o in ("TypeError", "AttributeError", "KeyError"):
        return f"(ObsRaise V{o})"
    return "ObsOther"


def unit_term(case, obs):
    return "CUnit %s %s %s %s %s %s" % (cjson(case["t"]), cjson(case["a"]), copt(case["la"], cjson),
                                         cbool(case.get("as_set", False)), c_obs(obs),
                                         cbool(may_oom(case["t"], case["a"], case["la"])))


# ---------------------------------------------------------------------------
# generators
# ---------------------------------------------------------------------------

KEYS = ["a", "b", "c", "d", "e", "spec", "cfg", "items", "ports", "tags", "name", "zone"]
# ordinary keys that merely look like directives: user data, compared and sent like any other key
NEAR_DIRECTIVE_KEYS = ["x-koreo-tenant", "x-koreo-note", "x-koreo-", "x-koreo", "x-koreo-compare-as-setx",
                       "x-koreo-compare-as-set-not", "x-koreo-compare", "x-koreo-compare-as-", "X-KOREO-COMPARE-AS-SET",
                       "x_koreo_compare_as_set", "koreo-compare-as-map", "x-koreo-compare-last-applied."]
LEAVES = [0, 1, 2, -3, 7, 80, True, False, "", "a", "b", "x-y", "1", 1.5, 0.0, 2.0]
SCALARS_SET = [0, 1, 2, 5, True, False, "a", "b", "c", "", 1.5]
NAMES = ["n1", "n2", "alpha", "beta", "http", "x y", " pad "]


def gen_leaf(rng, nulls):
    if nulls and rng.random() < 0.12:
        return None
    return rng.choice(LEAVES)


def gen_value(rng, depth, nulls):
    r = rng.random()
    if depth <= 0 or r < 0.45:
        return gen_leaf(rng, nulls)
    if r < 0.70:
        return gen_good(rng, depth - 1, nulls)
    n = rng.choice([0, 1, 1, 2, 3])
    kind = rng.random()
    if kind < 0.5:
        return [gen_leaf(rng, nulls) for _ in range(n)]
    if kind < 0.85:
        return [gen_good(rng, depth - 1, nulls) for _ in range(n)]
    return [gen_value(rng, depth - 1, nulls) for _ in range(n)]


def gen_map_list(rng, depth, nulls):
    fields = rng.choice([["name"], ["name"], ["name", "port"], ["port"]])
    n = rng.choice([0, 1, 2, 2, 3])
    names = rng.sample(NAMES, n)
    if fields == ["name", "port"] and n >= 2 and rng.random() < 0.5:
        names[1] = names[0]          # same first key field, told apart by the second one only
    out = []
    for i, nm in enumerate(names):
        el = gen_good(rng, depth - 1, nulls, nkeys=rng.choice([0, 1, 2])) if depth > 0 else {}
        el = {k: v for k, v in el.items() if k not in ("name", "port")}
        # the element's own directives must not mention the keys just removed
        for d in (S, L):
            if d in el:
                el[d] = [x for x in el[d] if x not in ("name", "port")]
        if M in el:
            el[M] = {k: v for k, v in el[M].items() if k not in ("name", "port")}
        head = {}
        if "name" in fields:
            head["name"] = nm
        if "port" in fields:
            head["port"] = rng.choice([80 + i, 8000 + i, i, True if i == 1 and rng.random() < 0.2 else 443 + i])
        elif rng.random() < 0.3:
            head["port"] = rng.choice([80, 443])
        head.update(el)
        out.append(head)
    return out, fields


def gen_good(rng, depth, nulls=True, nkeys=None, owners=False):
    """a well-formed target: dict, directives (when present) well-formed"""
    n = rng.choice([0, 1, 2, 2, 3, 4]) if nkeys is None else nkeys
    keys = rng.sample(KEYS, min(n, len(KEYS)))
    if rng.random() < 0.2:
        keys.insert(rng.randrange(len(keys) + 1), rng.choice(NEAR_DIRECTIVE_KEYS))
    if owners or rng.random() < 0.06:
        keys.append(OWNERS)
    t, sk, mk, lk = {}, [], {}, []
    for k in keys:
        r = rng.random()
        if k == OWNERS:
            t[k] = rng.choice([[{"uid": "u1"}], [], "x"])
        elif depth > 0 and r < 0.14:
            m = rng.choice([0, 1, 2, 3, 3])
            t[k] = [rng.choice(SCALARS_SET) for _ in range(m)]
            if t[k] and rng.random() < 0.4:
                t[k].insert(rng.randrange(len(t[k]) + 1), rng.choice(t[k]))      # a duplicate member
            sk.append(k)
        elif depth > 0 and r < 0.28:
            t[k], mk[k] = gen_map_list(rng, depth, nulls)
        else:
            t[k] = gen_value(rng, depth, nulls)
        if rng.random() < 0.10:
            lk.append(k)
    if sk and rng.random() < 0.15:
        sk.append("missing-key")
    items = list(t.items())
    if sk:
        items.insert(rng.randrange(len(items) + 1), (S, sk))
    if mk:
        items.insert(rng.randrange(len(items) + 1), (M, mk))
    if lk:
        items.insert(rng.randrange(len(items) + 1), (L, lk))
    return dict(items)


BAD_SET_DIRS = [None, "ab", 5, True, {"a": 1}, [1, "a"], [["a"]], [[], "a"], [{}, ""], [{"a": 1}], 0.5, []]
BAD_MAP_DIRS = [None, [], ["a"], "a", 5, {"a": "name"}, {"a": None}, {"a": [1]}, {"a": []}, {"": ["name"]},
                {"a": ["name", ""]}, {"a": [["name"]]}, {"a": {"name": 1}}, {"a": 7}, {"a": ["name"], "b": None},
                {"a": [True, "name"]}, {}]


def gen_malformed(rng, depth):
    """targets with ill-formed / unusual directive values and directive-named keys inside map-lists"""
    t = gen_good(rng, depth, True)
    keys = [k for k in t if k not in DIRS] or ["a"]
    r = rng.random()
    if r < 0.3:
        t[S] = copy.deepcopy(rng.choice(BAD_SET_DIRS))
    elif r < 0.6:
        d = copy.deepcopy(rng.choice(BAD_MAP_DIRS))
        if isinstance(d, dict) and "a" in d and rng.random() < 0.7:
            d[rng.choice(keys)] = d.pop("a")
        t[M] = d
    elif r < 0.75:
        t[L] = copy.deepcopy(rng.choice(BAD_SET_DIRS))
    elif r < 0.9:
        # map-directed value that is not a list of maps / whose keys collide with special names
        k = rng.choice(keys)
        t[M] = {k: rng.choice([["name"], [], ["name", "x"]])}
        t[k] = copy.deepcopy(rng.choice([
            "str", 5, {"name": "q"}, [1, 2], ["a"], [[1]], None, True, [{"name": S, "v": ["z"]}, {"name": "z", "z": [2, 1]}],
            [{"name": OWNERS, "v": 1}, {"name": "b"}], [{"name": "d1"}, {"name": "d1", "v": 2}],
            [{"name": M, "k2": ["name"]}, {"name": "k2", "q": 1}], [{"name": "a$b", "x": "c"}, {"name": "a", "x": "b$c"}],
            [{"name": 1}, {"name": "1"}], [{"name": True}, {"name": None}, {}], [{"name": 2.0}], [{"name": 1.5}],
        ]))
    else:
        k = rng.choice(keys)
        t[S] = [k]
        t[k] = copy.deepcopy(rng.choice([[{"a": 1}], [[1]], [1, True, 1.0], [None, 0, False, ""], "ab", {"a": 1}, None, 3]))
    return t


def decorate(rng, t, sent, intfloat=True):
    """server-side decoration of the object as sent for target t: extra keys at any depth, permuted
    set-directed lists, permuted / extended map-directed lists, ints that come back as equal floats"""
    if isinstance(t, dict) and isinstance(sent, dict):
        sk = set(x for x in t.get(S, ()) if isinstance(x, str)) if isinstance(t.get(S, []), list) else set()
        mk = t.get(M, {}) if isinstance(t.get(M, {}), dict) else {}
        out = {}
        for k, sv in sent.items():
            tv = t.get(k)
            if k in mk and isinstance(mk[k], list) and isinstance(sv, list) and all(isinstance(e, dict) for e in sv):
                # pair live elements with target elements by key (the live list may already be
                # permuted / extended by an earlier decoration)
                fs = [f for f in mk[k] if isinstance(f, str)]
                by_key = {key_of(te, fs): te for te in tv if isinstance(te, dict)} if isinstance(tv, list) else {}
                els = []
                for se in sv:
                    te = by_key.get(key_of(se, fs))
                    els.append(decorate(rng, te, se, intfloat=False) if isinstance(te, dict) else copy.deepcopy(se))
                # key fields must keep their exact value (their str() is the key)
                for e, se in zip(els, sv):
                    for f in mk[k]:
                        if isinstance(f, str) and f in se:
                            e[f] = copy.deepcopy(se[f])
                if els and rng.random() < 0.5 and not any(e.get("added") == 1 for e in els):
                    extra = {f: "zz-extra" for f in mk[k] if isinstance(f, str)}
                    extra["added"] = 1
                    els.append(extra)
                rng.shuffle(els)
                out[k] = els
            elif k in sk and isinstance(sv, list):
                els = [float(e) if intfloat and type(e) is int and rng.random() < 0.2 else copy.deepcopy(e) for e in sv]
                rng.shuffle(els)
                out[k] = els
            else:
                out[k] = decorate(rng, tv, sv, intfloat)
        if rng.random() < 0.5:
            out["zz-server"] = rng.choice([{"x": 1}, "s", [1], 0])
        if rng.random() < 0.2:
            out["status"] = {"ready": True}
        items = list(out.items())
        if rng.random() < 0.3:
            rng.shuffle(items)
        return dict(items)
    if isinstance(t, list) and isinstance(sent, list):
        return [decorate(rng, te, se, intfloat) for te, se in zip(t, sent)]
    if intfloat and type(sent) is int and abs(sent) < 2 ** 40 and rng.random() < 0.15:
        return float(sent)
    return copy.deepcopy(sent)


# ---------------------------------------------------------------------------
# target-specified positions and deviations (well-formed targets only)
# ---------------------------------------------------------------------------

def _dirs(t):
    sk = set(t.get(S, ()))
    lk = set(t.get(L, ()))
    mk = t.get(M, {})
    return sk, lk, mk


def positions(t, path=()):
    """(path, target value, mode, extra) for every target-specified position below dict t;
    excludes ownerReferences keys and keys compared against last-applied"""
    sk, lk, mk = _dirs(t)
    for k, tv in t.items():
        if k in DIRS or k == OWNERS or k in lk:
            continue
        p = path + (("k", k),)
        if k in mk:
            yield (p, tv, "map", mk[k])
            if isinstance(tv, list):
                ks = [key_of(e, mk[k]) for e in tv]
                for e, ke in zip(tv, ks):
                    if ks.count(ke) > 1:
                        continue                      # shadowed duplicates: not individually specified
                    ep = p + (("m", ke, tuple(mk[k])),)
                    yield (ep, e, "mapelem", mk[k])
                    yield from positions(e, ep)
        elif k in sk and isinstance(tv, list):
            yield (p, tv, "set", None)
        else:
            yield from value_positions(tv, p)


def value_positions(tv, p):
    if isinstance(tv, dict):
        yield (p, tv, "dict", None)
        yield from positions(tv, p)
    elif isinstance(tv, list):
        yield (p, tv, "list", None)
        for i, e in enumerate(tv):
            yield from value_positions(e, p + (("i", i),))
    else:
        yield (p, tv, "leaf", None)


class NoSuchPath(Exception):
    pass


def _step(cur, st):
    if st[0] == "k":
        if not isinstance(cur, dict) or st[1] not in cur:
            raise NoSuchPath(st)
        return st[1]
    if st[0] == "i":
        if not isinstance(cur, list) or st[1] >= len(cur):
            raise NoSuchPath(st)
        return st[1]
    if st[0] == "m":
        if not isinstance(cur, list):
            raise NoSuchPath(st)
        hits = [i for i, e in enumerate(cur) if isinstance(e, dict) and key_of(e, st[2]) == st[1]]
        if len(hits) != 1:
            raise NoSuchPath(st)
        return hits[0]
    raise ValueError(st)


def get_at(obj, path):
    cur = obj
    for st in path:
        cur = cur[_step(cur, st)]
    return cur


REMOVE = object()


def set_at(obj, path, value):
    """deep copy of obj with the value at path replaced (REMOVE deletes the key / element)"""
    obj = copy.deepcopy(obj)
    cur = obj
    for st in path[:-1]:
        cur = cur[_step(cur, st)]
    i = _step(cur, path[-1])
    if value is REMOVE:
        del cur[i]
    else:
        cur[i] = value
    return obj


def leaf_deviations(v):
    out = []
    if isinstance(v, bool):
        out += [("leaf-changed", not v), ("leaf-retype-bool-int", int(v)), ("leaf-retype", str(v).lower())]
    elif isinstance(v, int):
        out += [("leaf-changed", v + 1), ("leaf-retype", str(v))]
        if v in (0, 1):
            out.append(("leaf-retype-int-bool", bool(v)))
    elif isinstance(v, float):
        out += [("leaf-changed", v + 0.5), ("leaf-retype", str(v))]
        if v in (0.0, 1.0):
            out.append(("leaf-retype-int-bool", bool(v)))
    elif isinstance(v, str):
        out += [("leaf-changed", v + "x"), ("leaf-retype", 5)]
        if v == "":
            out.append(("leaf-retype", 0))
    elif v is None:
        out += [("null-to-value", 0), ("null-to-value", ""), ("null-to-value", False), ("null-to-value", "x")]
    if v is not None:
        out.append(("leaf-to-null", None))
    out += [("leaf-to-container", []), ("leaf-to-container", {}), ("leaf-to-container", [v]),
            ("leaf-to-container", {"a": v})]
    return out


def deviations(t, live):
    """every (descriptor, perturbed live) for well-formed target t and matching live object"""
    for path, tv, mode, extra in positions(t):
        try:
            lv = get_at(live, path)
        except NoSuchPath:
            continue

        def dev(kind, value, path=path):
            return ({"path": [list(s[:2]) for s in path], "kind": kind}, set_at(live, path, value))
        if path[-1][0] == "k":
            yield dev("key-removed", REMOVE)
        if mode == "leaf":
            for kind, nv in leaf_deviations(lv if is_scalar(lv) else tv):
                yield dev(kind, nv)
        elif mode == "dict":
            for nv in ([], "x", None, 0):
                yield dev("dict-retype", nv)
        elif mode == "list":
            for nv in ({}, "x", None):
                yield dev("list-retype", nv)
            if isinstance(lv, list):
                if lv:
                    yield dev("list-shorter", lv[:-1])
                    yield dev("list-longer", lv + [copy.deepcopy(lv[-1])])
                else:
                    yield dev("list-longer", [0])
                    yield dev("list-longer", [None])
                if len(lv) >= 2 and is_scalar(lv[0]) and is_scalar(lv[1]) and not lv[0] == lv[1]:
                    yield dev("list-swap", [lv[1], lv[0]] + lv[2:])
        elif mode == "set":
            for nv in ({}, "x", None, 3):
                yield dev("set-retype", nv)
            if isinstance(lv, list) and all(is_scalar(x) for x in lv):
                fresh = "zz-new" if "zz-new" not in lv else 987654
                yield dev("set-gain", lv + [fresh])
                for x in lv[:2]:
                    rest = [y for y in lv if not y == x]
                    yield dev("set-lose", rest)
                # same LENGTH as before: a duplicate copy replaced by a new member (every target member still present)
                for i, x in enumerate(lv):
                    if any(strict_eq(x, y) for y in lv[:i] + lv[i + 1:]):
                        yield dev("set-duplicate-replaced", lv[:i] + [fresh] + lv[i + 1:])
                        break
                if lv:
                    yield dev("set-member-replaced", [fresh] + lv[1:] if not any(y == lv[0] for y in lv[1:]) else lv + [fresh])
                for i, x in enumerate(lv):
                    others = lv[:i] + lv[i + 1:]
                    if type(x) in (int, float) and x in (0, 1) and not any(y == x for y in others):
                        yield dev("set-member-retype-bool-int", others + [bool(x)])
                        break
                    if isinstance(x, bool) and not any(y == x for y in others):
                        yield dev("set-member-retype-bool-int", others + [int(x)])
                        break
        elif mode == "map":
            for nv in ("str", 5, True, {"name": "q"}):
                yield dev("map-retype", nv)
            # an EMPTY map-directed target list and null both denote the empty collection
            # (_list_to_object maps every falsy value to None): not counted as a deviation
            if isinstance(tv, list) and tv:
                yield dev("map-to-null", None)
                yield dev("map-to-empty", [])
        elif mode == "mapelem":
            yield dev("map-elem-lost", REMOVE)
            for nv in ("e", 3, ["x"], None):
                yield dev("map-elem-retype", nv)
            for f in extra:
                if isinstance(lv, dict) and f in lv:
                    yield dev("map-elem-key-changed", {**lv, f: f"{lv[f]}-changed"})


MAP_RAISE_KINDS = ("map-retype", "map-elem-retype")


def deviation_signature(kind, obs, level):
    """stable name of what fails"""
    if obs == "match":
        return f"{level}: deviation '{kind}' is not detected"
    return f"{level}: deviation '{kind}': comparison raises {obs}"


# ---------------------------------------------------------------------------
# unit level
# ---------------------------------------------------------------------------

ALPHA = [None, True, False, 0, 1, 1.0, 0.0, 2, "", "a", [], [1], [True], {}, {"a": 1}, [{"a": 1}]]
LA_ALPHA = [None, {}, {"a": 1}, {"k": {"a": 1}}, {"k": [1]}, [1], ["k"], "k", "zk", 1, True, {"k": "a"}, {"k": 5}]


def unit_exhaustive(quick):
    """small finite scopes, enumerated"""
    for t, a in itertools.product(ALPHA, repeat=2):
        for la in (None, [1], "a", {"a": 2}, 3):
            for s in (False, True):
                yield {"t": t, "a": a, "la": la, "as_set": s}
    # one key, every directive on it, every la shape
    vals = ALPHA if not quick else [None, True, 0, 1, 1.0, "", "a", [], [1], {}, {"a": 1}]
    for tv, av in itertools.product(vals, repeat=2):
        for dirs in ({}, {S: ["k"]}, {L: ["k"]}, {M: {"k": ["a"]}}, {M: {"k": []}}, {S: ["k"], L: ["k"]},
                     {M: {"k": ["a"]}, L: ["k"]}):
            for la in (LA_ALPHA if not quick else [None, {"k": {"a": 1}}, {"k": [1]}, [1], "k", 1]):
                yield {"t": {**dirs, "k": tv}, "a": {"k": av}, "la": la}
    # sets: bool / int / float conflation, unhashables
    sets = [[], [1], [True], [1.0], [0], [False], [1, True], [1, 2], [2, 1], ["a"], [None], [[1]], [{"a": 1}], [1, 1]]
    for x, y in itertools.product(sets, repeat=2):
        yield {"t": {S: ["s"], "s": x}, "a": {"s": y}, "la": None}
    # compare-as-map with two key fields: elements that agree on the first field only
    two = {M: {"k": ["a", "b"]}, "k": [{"a": 1, "b": 1, "v": "x"}, {"a": 1, "b": 2, "v": "y"}]}
    for av in ([{"a": 1, "b": 1, "v": "x"}, {"a": 1, "b": 2, "v": "y"}], [{"a": 1, "b": 2, "v": "y"}, {"a": 1, "b": 1, "v": "x"}],
               [{"a": 1, "b": 2, "v": "y"}], [{"a": 1, "b": 1, "v": "x"}], [{"a": 1, "b": 1, "v": "y"}, {"a": 1, "b": 2, "v": "y"}],
               [{"a": 1, "b": 2, "v": "x"}, {"a": 1, "b": 1, "v": "y"}], [{"a": 1, "v": "x"}, {"a": 1, "b": 2, "v": "y"}],
               [{"a": "1", "b": " 1 ", "v": "x"}, {"a": 1, "b": 2, "v": "y"}], [{"a": "1$1", "v": "x"}, {"a": 1, "b": 2, "v": "y"}]):
        yield {"t": two, "a": {"k": av}, "la": None}
        yield {"t": two, "a": {"k": av}, "la": {"k": av}}
    # missing key / ownerReferences / nested last-applied shapes
    for la in LA_ALPHA:
        yield {"t": {"k": 1, OWNERS: [1]}, "a": {}, "la": la}
        yield {"t": {OWNERS: [1]}, "a": {}, "la": la}
        yield {"t": {"k": [{"a": 1}, {"a": 2}]}, "a": {"k": [{"a": 1}, {"a": 2}]}, "la": {"k": la}}
        yield {"t": {"k": [1, 2]}, "a": {"k": [1, 2]}, "la": {"k": la}}
        yield {"t": {"k": {"a": 1}, "zk": 2}, "a": {"zk": 2}, "la": la}


def rand_json(rng, depth):
    r = rng.random()
    if depth <= 0 or r < 0.5:
        return rng.choice(LEAVES + [None, "k", "name"])
    if r < 0.75:
        return {rng.choice(KEYS + ["k"]): rand_json(rng, depth - 1) for _ in range(rng.choice([0, 1, 2, 3]))}
    return [rand_json(rng, depth - 1) for _ in range(rng.choice([0, 1, 2, 3]))]


SIG_LA_SHAPE = "last-applied document recorded for a differently shaped target: the comparison raises instead of reporting drift"


def retype_value(rng, v):
    """a value of ANOTHER kind than v: map <-> list <-> scalar, null, empty containers, bools, numbers, strings"""
    pool = [None, True, False, 0, 7, 1.5, "", "str", [], {}, [{}], [1, "a"], ["k"], [["x"]], [{"name": "a"}, 1],
            {"0": 1}, {"name": "a"}, {"k": {"a": 1}}, {"a": [1]}]
    def kind(x):
        return "map" if isinstance(x, dict) else "list" if isinstance(x, list) else "scalar"
    other = [x for x in pool if kind(x) != kind(v)]
    return copy.deepcopy(rng.choice(other if rng.random() < 0.8 else pool))


def doc_paths(doc, pre=()):
    yield pre
    if isinstance(doc, dict):
        for k, v in doc.items():
            yield from doc_paths(v, pre + (k,))
    elif isinstance(doc, list):
        for i, v in enumerate(doc):
            yield from doc_paths(v, pre + (i,))


def retype_doc(rng, doc, n=None):
    """the document as an EARLIER, differently shaped target would have recorded it: at one to three random paths
    (any depth, also inside list items and under directive-governed keys) the value has another kind"""
    doc = copy.deepcopy(doc)
    for _ in range(n or rng.choice([1, 1, 2, 3])):
        paths = list(doc_paths(doc))
        path = rng.choice(paths)
        if not path:
            doc = retype_value(rng, doc)
            continue
        cur = doc
        for st in path[:-1]:
            cur = cur[st]
        cur[path[-1]] = retype_value(rng, cur[path[-1]])
    return doc


def gen_la(rng, t, sent):
    r = rng.random()
    if r < 0.35:
        return None
    if r < 0.60:
        return copy.deepcopy(sent)
    if r < 0.75:
        return retype_doc(rng, sent)
    if r < 0.85:
        # koreo-written for an older target: some keys differ / are missing / have another shape
        la = copy.deepcopy(sent)
        if isinstance(la, dict) and la:
            k = rng.choice(list(la))
            la[k] = rand_json(rng, 2) if rng.random() < 0.7 else REMOVE
            if la[k] is REMOVE:
                del la[k]
        return la
    return rand_json(rng, 3)


def unit_random(ctx: Ctx, n):
    rng = ctx.rng
    for _ in range(n):
        depth = rng.choice([1, 2, 3, 3, 4])
        if rng.random() < 0.25:
            t = gen_malformed(rng, min(depth, 3))
            kind = "malformed"
        else:
            t = gen_good(rng, depth, True)
            kind = "good"
        sent = strip(t)
        r = rng.random()
        if r < 0.55:
            a = decorate(rng, t, sent)
        elif r < 0.7:
            a = copy.deepcopy(sent)
        elif r < 0.9:
            a = decorate(rng, t, sent)
            # a random local edit (may or may not be a deviation)
            if isinstance(a, dict) and a:
                k = rng.choice(list(a))
                a[k] = rand_json(rng, 2)
        else:
            a = rand_json(rng, 3)
        yield kind, {"t": t, "a": a, "la": gen_la(rng, t, sent)}


def shorter_lists(j):
    """the document with the last element of every list of length >= 2 dropped (what an earlier pass, whose
    inputs asked for shorter lists, would have recorded as last-applied)"""
    if isinstance(j, dict):
        return {k: shorter_lists(v) for k, v in j.items()}
    if isinstance(j, list):
        return [shorter_lists(v) for v in (j[:-1] if len(j) >= 2 else j)]
    return j


def check_unit_deviation(ctx: Ctx, t, live, la, desc, live2, cases, terms):
    """oracle: matching live + one deviation at a specified path => match=False"""
    obs = run_validate(t, live2, la)
    case = {"kind": "unit", "t": t, "a": live2, "la": la, "dev": desc, "base": live}
    ctx.note_case(case, nontrivial=True)
    ctx.count(f"unit-dev:{desc['kind']}")
    ctx.count(f"unit-dev-obs:{obs}")
    if obs != "mismatch":
        small = shrink_unit(t, live, la, desc) if run_validate(t, live, la) == "match" else case
        sig = deviation_signature(desc["kind"], obs, "unit")
        if desc.get("la") == "retyped" and obs != "match":
            sig = SIG_LA_SHAPE
        ctx.fail(Failure(signature=sig,
                         what=f"validate_match on a live object that deviates from the target ({desc['kind']} at "
                              f"{desc['path']}) gave {obs}, expected match=False",
                         case=small, observed=obs, expected="mismatch"))
    cases.append(case)
    terms.append(unit_term(case, obs))


def shrink_unit(t, live, la, desc):
    """drop top-level keys that are not on the path while the same failure persists"""
    top = desc["path"][0][1] if desc["path"] else None
    t2, live2, la2 = copy.deepcopy(t), copy.deepcopy(live), copy.deepcopy(la)
    for k in list(t2):
        if k == top or k in DIRS:
            continue
        tt = {x: v for x, v in t2.items() if x != k}
        ll = {x: v for x, v in live2.items() if x != k} if isinstance(live2, dict) else live2
        try:
            found = [(d, l2) for d, l2 in deviations(tt, ll) if d == desc]
        except Exception:  # noqa: BLE001
            found = []
        if found and run_validate(tt, ll, la2) == "match" and run_validate(tt, found[0][1], la2) != "mismatch":
            t2, live2 = tt, ll
    found = [(d, l2) for d, l2 in deviations(t2, live2) if d == desc]
    return {"kind": "unit", "t": t2, "a": found[0][1] if found else None, "la": la2, "dev": desc, "base": live2}


def run_unit(ctx: Ctx, cases, terms):
    quick = ctx.quick()
    for case in unit_exhaustive(quick):
        case = dict(case, kind="unit")
        obs = run_validate(case["t"], case["a"], case["la"], case.get("as_set", False))
        ctx.note_case(case, nontrivial=isinstance(case["t"], dict) and len(case["t"]) >= 2)
        ctx.count("unit:exhaustive")
        ctx.count(f"unit-obs:{obs}")
        cases.append(case)
        terms.append(unit_term(case, obs))
    n = 1500 if quick else 20000
    for kind, case in unit_random(ctx, n):
        case = dict(case, kind="unit")
        obs = run_validate(case["t"], case["a"], case["la"])
        ctx.note_case(case, nontrivial=len(case["t"]) >= 2 or any(d in case["t"] for d in DIRS))
        ctx.count(f"unit:random-{kind}")
        ctx.count(f"unit-obs:{obs}")
        cases.append(case)
        terms.append(unit_term(case, obs))
    # deviations: every specified path x every kind
    ntargets = 60 if quick else 500
    for i in range(ntargets):
        rng = ctx.rng
        t = gen_good(rng, rng.choice([1, 2, 2, 3, 4]), nulls=(i % 3 == 0))
        sent = strip(t)
        live = decorate(rng, t, sent) if i % 4 else copy.deepcopy(sent)
        la = copy.deepcopy(sent) if i % 2 else None
        if L in t and la is None:
            la = copy.deepcopy(sent)
        if i % 6 == 1:
            la = shorter_lists(sent)        # recorded by an earlier pass whose lists were shorter
        base = run_validate(t, live, la)
        ctx.count(f"unit-dev-base:{base}")
        if base != "match":
            # a well-formed target whose decorated 'as sent' object does not match is C04's business;
            # recorded here so that the distribution shows how often it happens
            continue
        devs = list(deviations(t, live))
        if quick and len(devs) > 60:
            devs = rng.sample(devs, 60)
        for di, (desc, live2) in enumerate(devs):
            check_unit_deviation(ctx, t, live, la, desc, live2, cases, terms)
            if di % 4 == 0:
                # the same drift, but the annotation was recorded for an EARLIER, differently shaped target:
                # whatever the recorded document looks like, the drift must be reported (not an exception)
                la2 = retype_doc(rng, sent)
                check_unit_deviation(ctx, t, live, la2, dict(desc, la="retyped"), live2, cases, terms)


# ---------------------------------------------------------------------------
# flow level
# ---------------------------------------------------------------------------

OWNER_REF = {"apiVersion": "v1", "kind": "Parent", "name": "parent", "uid": "uid-parent",
             "blockOwnerDeletion": True, "controller": False}
KIND, PLURAL, NAME, NS = "Widget", "widgets", "w1", "default"
CREATE_DELAY = 11


def vary_owner_ref(rng, ref):
    """the same owner (same uid) as another actor / the API server may have rewritten it: fields added,
    changed or dropped, key order changed — still the parent's reference"""
    r = dict(ref)
    for k in ("blockOwnerDeletion", "controller"):
        x = rng.random()
        if x < 0.3:
            r.pop(k, None)
        elif x < 0.6:
            r[k] = not r.get(k, False)
    if rng.random() < 0.4:
        r["apiVersion"] = "v2"
    if rng.random() < 0.3:
        r["extra"] = 1
    items = list(r.items())
    rng.shuffle(items)
    return dict(items)


def vary_owner_refs(rng, obj):
    """apply vary_owner_ref to the parent's entry of obj.metadata.ownerReferences (in place), maybe next to a foreign one"""
    md = obj.get("metadata") if isinstance(obj, dict) else None
    refs = md.get(OWNERS) if isinstance(md, dict) else None
    if not isinstance(refs, list):
        return obj
    out = [vary_owner_ref(rng, r) if isinstance(r, dict) and r.get("uid") == OWNER_REF["uid"] else r for r in refs]
    if rng.random() < 0.3:
        out.insert(0, {"uid": "someone-else", "kind": "Other", "name": "o"})
    md[OWNERS] = out
    return obj


def mk_spec(body, policy, delay, owned, create_delay=None):
    """create_delay None: the fixed CREATE_DELAY; "default": no delay key (DEFAULT_CREATE_DELAY = 30); else the value (0 allowed)"""
    spec = {
        "apiConfig": {"apiVersion": "example.dev/v1", "kind": KIND, "plural": PLURAL, "name": NAME,
                      "namespace": NS, "owned": owned},
        "resource": copy.deepcopy(body),
        "create": {} if create_delay == "default" else {"delay": CREATE_DELAY if create_delay is None else create_delay},
        "return": {"live": "=resource"},
    }
    if policy == "patch":
        spec["update"] = {"patch": {"delay": delay}}
    elif policy == "recreate":
        spec["update"] = {"recreate": {"delay": delay}}
    elif policy == "never":
        spec["update"] = {"never": {}}
    # policy == "default": no update stanza (patch, DEFAULT_PATCH_DELAY = 30)
    return spec


class Capture:
    """records the arguments validate_match receives inside reconcile_krm_resource"""

    def __init__(self):
        import koreo.resource_function.reconcile as rec
        self.mod = rec
        self.orig = rec.validate_match
        self.seen = []

    def __enter__(self):
        def wrapper(target, actual, last_applied_value=None, compare_list_as_set=False):
            import drivers
            # to_py: plain JSON even if a mutant hands celtypes objects to the comparator
            self.seen.append({"t": drivers.to_py(copy.deepcopy(target)), "a": drivers.to_py(copy.deepcopy(actual)),
                              "la": drivers.to_py(copy.deepcopy(last_applied_value))})
            return self.orig(target, actual, last_applied_value, compare_list_as_set)
        self.mod.validate_match = wrapper
        return self

    def __exit__(self, *exc):
        self.mod.validate_match = self.orig
        return False


_PREP_CACHE: dict = {}
_TARGETS: dict = {}          # body -> the materialised target last seen by the comparator (for the payload clause)


def prepared(body, policy, delay, owned):
    import drivers
    key = json.dumps([body, policy, delay, owned], sort_keys=False)
    if key not in _PREP_CACHE:
        if len(_PREP_CACHE) > 64:
            _PREP_CACHE.clear()
        p = drivers.run_async(drivers.prepare_rf("rf-c05", mk_spec(body, policy, delay, owned)))
        fn, out = drivers.unwrap_prepared(p)
        _PREP_CACHE[key] = (fn, out)
    return _PREP_CACHE[key]


def one_pass(fn, cluster, inputs=None):
    """-> observation of one reconcile_resource_function call"""
    import drivers
    n0 = len(cluster.calls)
    with Capture() as cap:
        try:
            r = drivers.run_async(drivers.reconcile_rf(fn, inputs or {}, cluster))
            out = drivers.canon_outcome(r.outcome)
        except Exception as e:  # noqa: BLE001
            out = {"cls": "Raised", "exc": type(e).__name__,
                   "base": "ValueError" if isinstance(e, ValueError) else type(e).__name__}
    calls = [{k: c.get(k) for k in ("method", "name", "namespace", "endpoint", "body")}
             for c in cluster.calls[n0:]]
    return {"outcome": out, "calls": calls, "mutations": [c for c in calls if c["method"] != "GET"],
            "validate_args": cap.seen}


def stored(cluster):
    return copy.deepcopy(cluster.objects.get((PLURAL, NS, NAME)))


def parse_annotation(live):
    """(present_as_str, parsed or None)"""
    try:
        v = live["metadata"]["annotations"][ANNOTATION]
    except Exception:  # noqa: BLE001
        return None
    if not isinstance(v, str):
        return None
    try:
        return ("ok", json.loads(v))
    except ValueError:
        return ("bad", None)


def body_ok_for_target(body, target):
    """`one patch carrying the full target`: the PATCH body is the directive-free target (+ owner
    references, + the last-applied annotation whose document is that same object)"""
    if not isinstance(body, dict):
        return "PATCH body is not an object"
    if target is None:
        return None
    b = copy.deepcopy(body)
    ann = None
    try:
        ann = b["metadata"]["annotations"].pop(ANNOTATION)
    except Exception:  # noqa: BLE001
        return "PATCH body carries no last-applied annotation"
    want = strip(target)
    want.setdefault("metadata", {}).setdefault("annotations", {})
    b_cmp = copy.deepcopy(b)
    # owner references may legitimately be added by the function
    if isinstance(b_cmp.get("metadata"), dict) and OWNERS not in want.get("metadata", {}):
        b_cmp["metadata"].pop(OWNERS, None)
    if not strict_eq(b_cmp, want):
        return "PATCH body is not the full (directive-free) target"
    try:
        doc = json.loads(ann)
    except Exception:  # noqa: BLE001
        return "last-applied annotation in the PATCH body is not JSON"
    d_cmp = copy.deepcopy(doc)
    w2 = strip(target)
    if isinstance(d_cmp.get("metadata"), dict) and OWNERS not in w2.get("metadata", {}):
        d_cmp["metadata"].pop(OWNERS, None)
    if not strict_eq(d_cmp, w2):
        return "last-applied annotation in the PATCH body does not record the target"
    return None


def flow_oracle(case, p2, p3, target):
    """the property text on one perturbed pass (p2) and, for patch, the pass after it (p3)"""
    policy, delay = case["policy"], case["delay"]
    out, muts = p2["outcome"], p2["mutations"]
    if out["cls"] == "Raised":
        return ("raises", f"reconcile raised {out['exc']}")
    if policy in ("patch", "default"):
        want_delay = 30 if policy == "default" else delay
        if [m["method"] for m in muts] != ["PATCH"]:
            return ("calls", f"expected exactly one PATCH, saw {[m['method'] for m in muts]}")
        why = body_ok_for_target(muts[0]["body"], target)
        if why:
            return ("payload", why)
        if out["cls"] != "Retry" or out.get("delay") != want_delay:
            return ("outcome", f"expected Retry({want_delay}), got {out['cls']}({out.get('delay')})")
        if p3 is not None:
            if p3["outcome"]["cls"] == "Raised":
                return ("after-patch", f"pass after the patch raised {p3['outcome']['exc']}")
            if p3["mutations"]:
                return ("after-patch", "the object does not meet the target after the patch: next pass "
                                       f"made {[m['method'] for m in p3['mutations']]}")
            if p3["outcome"]["cls"] != "Ok":
                return ("after-patch", f"pass after the patch is {p3['outcome']['cls']}, not Ok")
    elif policy == "recreate":
        if [m["method"] for m in muts] != ["DELETE"]:
            return ("calls", f"expected exactly one DELETE, saw {[m['method'] for m in muts]}")
        if out["cls"] != "Retry" or out.get("delay") != delay:
            return ("outcome", f"expected Retry({delay}), got {out['cls']}({out.get('delay')})")
    else:
        if muts:
            return ("calls", f"update: never, but saw {[m['method'] for m in muts]}")
        if out["cls"] == "Retry":
            return ("outcome", "update: never reported Retry")
    return None


def c_ann(pa):
    """Gallina for what json.loads gives on the annotation text: None = no text / not parseable;
    a parsed JSON null is (Some JNull)"""
    if pa is None or pa[0] == "bad":
        return "None"
    return f"(Some {cjson(pa[1])})"


def c_policy(policy, delay):
    if policy == "never":
        return "PNever"
    if policy == "recreate":
        return f"(PRecreate {cz(delay)})"
    return f"(PPatch {cz(30 if policy == 'default' else delay)})"


def tail_term(case, va, pobs):
    """Gallina CTail for one observed pass (va = captured validate_match arguments)"""
    live = va["a"]
    pa = parse_annotation(live)
    ann = None if pa is None or pa[0] == "bad" else pa[1]
    out = pobs["outcome"]
    if out["cls"] == "Raised":
        r = f"(RRaised {cstr(out['base'])})"
    elif out["cls"] == "Retry":
        r = f"(RRetry {cz(out['delay'])} {cstr(out['location'] or '')})"
    elif out["cls"] == "PermFail":
        r = "RPermFail"
    elif out["cls"] == "Ok":
        r = f"(RLive {cjson(out['value']['live'])})"
    else:
        raise ValueError(out)
    calls = []
    for m in pobs["mutations"]:
        if m["method"] == "DELETE":
            calls.append("ODelete")
        elif m["method"] == "PATCH":
            b = copy.deepcopy(m["body"])
            try:
                doc = json.loads(b["metadata"]["annotations"][ANNOTATION])
                b["metadata"]["annotations"][ANNOTATION] = "<last-applied>"
            except Exception:  # noqa: BLE001 - a body without a readable annotation: never what the model predicts
                doc = None
            calls.append(f"(OPatch {cjson(b)} {cjson(doc)})")
        else:
            calls.append("ODelete")   # never predicted for a tail: makes the case disagree
            calls.append("ODelete")
    cfg = "{| tc_should_own := %s; tc_owner_ref := %s; tc_update := %s |}" % (
        cbool(case["owned"]), cjson(OWNER_REF), c_policy(case["policy"], case["delay"]))
    return f"CTail {cfg} {cjson(va['t'])} {cjson(live)} {c_ann(pa)} {r} {clist(calls, str)}"


def flow_in_model(va):
    return not may_oom(va["t"], va["a"], va["la"])


def run_flow_case(ctx: Ctx, case, cases, terms, oracle=True):
    """case: {kind: flow, body, policy, delay, owned, live (object to store before the pass) , dev}"""
    import drivers
    drivers.reset_all()
    fn, err = prepared(case["body"], case["policy"], case["delay"], case["owned"])
    if fn is None:
        ctx.count("flow:prepare-failed")
        ctx.notes.append({"prepare_failed": case["body"], "outcome": repr(err)})
        return None
    cl = drivers.Cluster()
    if case.get("prime") is not None:
        # first a pass that finds the object in sync; then the object drifts (no generation bump: the cluster
        # stores what it is given) and the same function reconciles again, nothing reset in between
        cl.put(case["prime"], plural=PLURAL)
        p0 = one_pass(fn, cl, case.get("inputs"))
        ctx.count("flow:prime:" + ("quiet" if not p0["mutations"] and p0["outcome"]["cls"] == "Ok" else "not-in-sync"))
        if p0["validate_args"]:
            case = dict(case)
            _TARGETS[json.dumps(case["body"])] = p0["validate_args"][0]["t"]
    cl.put(case["live"], plural=PLURAL)
    p2 = one_pass(fn, cl, case.get("inputs"))
    p3 = None
    if case["policy"] in ("patch", "default") and p2["outcome"]["cls"] == "Retry" and \
            [m["method"] for m in p2["mutations"]] == ["PATCH"]:
        p3 = one_pass(fn, cl, case.get("inputs"))
    ctx.count(f"flow:{case['policy']}:{p2['outcome']['cls']}")
    if not p2["validate_args"]:
        ctx.count("flow:no-validate-call")
        if case.get("dev") is None:
            return p2
    va = p2["validate_args"][0] if p2["validate_args"] else None
    if va is not None:
        _TARGETS[json.dumps(case["body"])] = va["t"]
    if oracle and case.get("dev") is not None:
        # the oracle judges the call log whether or not the comparator was reached
        why = flow_oracle(case, p2, p3, va["t"] if va else _TARGETS.get(json.dumps(case["body"])))
        if why:
            kind = case["dev"]["kind"]
            if why[0] == "raises" and case["dev"].get("la") == "retyped":
                sig = SIG_LA_SHAPE
            elif why[0] == "raises":
                sig = deviation_signature(kind, p2["outcome"]["exc"], "flow")
            elif why[0] == "calls" and not p2["mutations"] and case["policy"] != "never":
                sig = deviation_signature(kind, "match", "flow")
            else:
                sig = f"flow: {case['policy']}: {why[0]}: {why[1].split(',')[0][:60]}"
            ctx.fail(Failure(signature=sig, what=f"deviation {case['dev']} under update policy {case['policy']}: {why[1]}",
                             case=case, observed={"outcome": p2["outcome"], "mutations": p2["mutations"],
                                                  "next_pass": p3 and {"outcome": p3["outcome"], "mutations": p3["mutations"]}},
                             expected="exactly the action the update policy prescribes"))
    ctx.note_case({k: case[k] for k in ("body", "policy", "owned", "dev")}, nontrivial=True)
    if va is None:
        ctx.count("flow:raised-before-comparator")
        return p2
    if flow_in_model(va):
        cases.append(case)
        terms.append(tail_term(case, va, p2))
        if p3 is not None and p3["validate_args"] and flow_in_model(p3["validate_args"][0]):
            cases.append(dict(case, note="pass after the patch"))
            terms.append(tail_term(case, p3["validate_args"][0], p3))
    return p2


def flow_body(rng, depth):
    """a resource body for the spec: no explicit nulls (C04's quantifier; see notes), encoder-safe strings"""
    t = gen_good(rng, depth, nulls=False, nkeys=rng.choice([1, 2, 3]))
    body = {"spec": t}
    r = rng.random()
    if r < 0.4:
        body["metadata"] = {"labels": {"app": "x"}}
    elif r < 0.5:
        body["metadata"] = {"labels": {"app": "x"}, "annotations": {"note": "n"}}
    if "metadata" in body and rng.random() < 0.4:
        body["metadata"]["labels"][rng.choice(NEAR_DIRECTIVE_KEYS)] = "t1"
        if "annotations" in body["metadata"] and rng.random() < 0.5:
            body["metadata"]["annotations"][rng.choice(NEAR_DIRECTIVE_KEYS)] = "n2"
    if rng.random() < 0.3:
        body["data"] = gen_good(rng, 1, nulls=False)
    # an explicitly EMPTY metadata.annotations map, and a key compared against last-applied whose value is truthy
    if rng.random() < 0.35:
        body.setdefault("metadata", {})["annotations"] = {}
    if rng.random() < 0.5:
        t["secretRef"] = rng.choice(["s3cr3t", 7, {"name": "s"}, ["a"]])
        t[L] = sorted(set(t.get(L, [])) | {"secretRef"})
    # target-specified EMPTY containers (emptyDir: {}, podSelector: {}, args: []) at top and nested positions
    r = rng.random()
    if r < 0.8:
        t["emptyDir"] = {}
        if r < 0.5:
            t["volumes"] = [{"name": "v", "emptyDir": {}}, {"name": "w", "args": []}]
        if r < 0.3:
            t["podSelector"] = {"matchLabels": {}}
    return body


def materialise(body):
    """what the function's target is for this body (forced overlay applied): used only to build the
    initial stored object; the oracle uses the target captured from the real run"""
    t = copy.deepcopy(body)
    t["apiVersion"] = "example.dev/v1"
    t["kind"] = KIND
    md = t.setdefault("metadata", {})
    md["name"] = NAME
    md["namespace"] = NS
    return t


def created_object(ctx, body, owned, inputs=None):
    """run the real create pass and return the stored object (with owner refs and annotation)"""
    import drivers
    drivers.reset_all()
    fn, err = prepared(body, "patch", 5, owned)
    if fn is None:
        return None
    cl = drivers.Cluster()
    p1 = one_pass(fn, cl, inputs)
    if [m["method"] for m in p1["mutations"]] != ["POST"]:
        return None
    return stored(cl)


def fixed_flows(ctx: Ctx, cases, terms):
    """target-specified metadata.annotations retyped in the live object to a non-map: since 69b5a7d read as
    'no last-applied annotation', so the drift is reported and the policy's action taken (regression)"""
    body = {"metadata": {"annotations": {"note": "n"}}, "spec": {"a": 1}}
    obj = created_object(ctx, body, True)
    if obj is None:
        return
    for policy in ("patch", "recreate", "never"):
        for bad in ("x", ["a"], 7):
            live = copy.deepcopy(obj)
            live["metadata"]["annotations"] = bad
            run_flow_case(ctx, {"kind": "flow", "body": body, "policy": policy, "delay": 5, "owned": True, "live": live,
                                "dev": {"path": [["k", "metadata"], ["k", "annotations"]], "kind": "dict-retype"}},
                          cases, terms)
        # falsy values are read as "no annotation": detected and corrected
        for ok in ([], None, 0, ""):
            live = copy.deepcopy(obj)
            live["metadata"]["annotations"] = ok
            run_flow_case(ctx, {"kind": "flow", "body": body, "policy": policy, "delay": 5, "owned": True, "live": live,
                                "dev": {"path": [["k", "metadata"], ["k", "annotations"]], "kind": "dict-retype"}},
                          cases, terms)


def grow_flows(ctx: Ctx, cases, terms):
    """the target list GROWS between passes (the inputs change) while somebody else changed the live list to the
    same new length; the last-applied annotation still records the earlier, shorter list"""
    rng = ctx.rng
    n = 6 if ctx.quick() else 60
    for gi in range(n):
        if gi % 2:
            base = [rng.choice([80, 443, 8080, 22]) for _ in range(rng.choice([1, 2, 3]))]
            wanted, foreign = 9000 + gi, 9999
        else:
            base = [{"port": rng.choice([80, 443]), "name": f"p{j}"} for j in range(rng.choice([1, 2]))]
            wanted, foreign = {"port": 8080, "name": "new"}, {"port": 9999, "name": "new"}
        body = {"spec": {"ports": "=inputs.ports", "mode": "x"}}
        owned = bool(gi % 3)
        obj = created_object(ctx, body, owned, {"ports": base})
        if obj is None:
            ctx.count("flow:grow-create-failed")
            continue
        live = copy.deepcopy(obj)
        live["spec"]["ports"] = copy.deepcopy(base) + [foreign]
        live.setdefault("metadata", {}).update({"uid": "uid-w1"})
        for policy in ("patch", "recreate", "never"):
            run_flow_case(ctx, {"kind": "flow", "body": body, "policy": policy, "delay": rng.choice([0, 4]), "owned": owned,
                                "live": live, "inputs": {"ports": copy.deepcopy(base) + [wanted]},
                                "dev": {"path": [["k", "spec"], ["k", "ports"], ["i", len(base)]], "kind": "list-element-vs-grown-target"}},
                          cases, terms)
            ctx.count("flow-dev:list-element-vs-grown-target")


def run_flow(ctx: Ctx, cases, terms):
    rng = ctx.rng
    quick = ctx.quick()
    fixed_flows(ctx, cases, terms)
    grow_flows(ctx, cases, terms)
    nbodies = 10 if quick else 80
    per_body = 14 if quick else 50
    for bi in range(nbodies):
        body = flow_body(rng, rng.choice([1, 2, 2, 3]))
        owned = rng.random() < 0.7
        obj = created_object(ctx, body, owned)
        if obj is None:
            ctx.count("flow:create-failed")
            continue
        target = materialise(body)
        live = decorate(rng, target, obj, intfloat=(bi % 2 == 0))
        live.setdefault("metadata", {}).update({"uid": "uid-w1", "resourceVersion": "12"})
        if bi % 2:
            vary_owner_refs(rng, live)
        # sanity: the undeviated decorated object is at the fixpoint (C04's oracle; here only a precondition)
        base = run_flow_case(ctx, {"kind": "flow", "body": body, "policy": "patch", "delay": 5, "owned": owned,
                                   "live": live, "dev": None}, cases, terms)
        if base is not None and (base["mutations"] or base["outcome"]["cls"] != "Ok") and base["validate_args"]:
            # what the function created does not meet its own target (C04's business).  Drift correction is
            # still judged: start from the object a faithful create would have stored for the target the
            # comparator saw
            ctx.count("flow:created-object-not-at-fixpoint")
            tgt = base["validate_args"][0]["t"]
            obj = strip(tgt)
            md = obj.setdefault("metadata", {})
            if owned:
                md[OWNERS] = [dict(OWNER_REF)]
            md.setdefault("annotations", {})[ANNOTATION] = json.dumps(strip(tgt))
            live = decorate(rng, target, obj, intfloat=False)
            live["metadata"].update({"uid": "uid-w1", "resourceVersion": "12"})
            base = run_flow_case(ctx, {"kind": "flow", "body": body, "policy": "patch", "delay": 5, "owned": owned,
                                       "live": live, "dev": None}, cases, terms)
        if base is None or base["mutations"] or base["outcome"]["cls"] != "Ok":
            ctx.count("flow:base-not-fixpoint")
            continue
        devs = list(deviations(target, live))
        # identity fields are C06's; keep the object addressable
        devs = [(d, l2) for d, l2 in devs if d["path"][0][1] not in ("apiVersion", "kind")
                and not (d["path"][0][1] == "metadata" and (len(d["path"]) == 1 or d["path"][1][1] in ("name", "namespace")))]
        if len(devs) > per_body:
            def at_empty(d):
                try:
                    cur = target
                    for st in d["path"]:
                        if st[0] == "m":
                            return False
                        cur = cur[st[1]]
                    return cur == {} or cur == []
                except Exception:  # noqa: BLE001
                    return False
            keep = [x for x in devs if at_empty(x[0])]
            rest = [x for x in devs if not at_empty(x[0])]
            devs = keep[:per_body] + rng.sample(rest, max(0, min(len(rest), per_body - len(keep[:per_body]))))
        for di, (desc, live2) in enumerate(devs):
            policy = ["patch", "recreate", "never", "default"][(bi + di) % 4] if di % 5 else "patch"
            delay = rng.choice([0, 0, 1, 5, 17, 60])
            run_flow_case(ctx, {"kind": "flow", "body": body, "policy": policy, "delay": delay, "owned": owned,
                                "live": live2, "dev": desc, "prime": live if di % 3 != 1 else None}, cases, terms)
            ctx.count(f"flow-dev:{desc['kind']}")
            # the same drift, the annotation recorded for an earlier, differently shaped target
            if di % 3 == 0:
                l6 = copy.deepcopy(live2)
                pa = parse_annotation(l6)
                if pa and pa[0] == "ok" and isinstance(l6.get("metadata"), dict) and isinstance(l6["metadata"].get("annotations"), dict):
                    l6["metadata"]["annotations"][ANNOTATION] = json.dumps(retype_doc(rng, pa[1]))
                    pol = ["patch", "recreate", "never"][(bi + di // 3) % 3]
                    run_flow_case(ctx, {"kind": "flow", "body": body, "policy": pol, "delay": delay, "owned": owned,
                                        "live": l6, "dev": dict(desc, la="retyped")}, cases, terms)
                    ctx.count(f"flow-dev-la-retyped:{pol}")
            # the same drift on an object that ALSO lacks the parent's owner reference (adopted object, or
            # ownerReferences rewritten along with the drift): still exactly the policy's action
            if owned and di % 2 == 0:
                l5 = copy.deepcopy(live2)
                if isinstance(l5.get("metadata"), dict):
                    if di % 4 == 0:
                        l5["metadata"].pop(OWNERS, None)
                    else:
                        l5["metadata"][OWNERS] = [{"uid": "someone-else", "kind": "Other", "name": "o"}]
                    pol = ["recreate", "never", "patch", "default"][(bi + di // 2) % 4]
                    run_flow_case(ctx, {"kind": "flow", "body": body, "policy": pol, "delay": delay, "owned": True,
                                        "live": l5, "dev": dict(desc, owner="missing" if di % 4 == 0 else "other")},
                                  cases, terms)
                    ctx.count(f"flow-dev-noowner:{pol}")
        # owner reference lost (not a C05 deviation; exercises the owner branch of the tail model)
        if owned:
            l3 = copy.deepcopy(live)
            l3["metadata"].pop(OWNERS, None)
            run_flow_case(ctx, {"kind": "flow", "body": body, "policy": "patch", "delay": 3, "owned": True,
                                "live": l3, "dev": None}, cases, terms)
            l4 = copy.deepcopy(live)
            l4["metadata"][OWNERS] = [{"uid": "someone-else"}]
            run_flow_case(ctx, {"kind": "flow", "body": body, "policy": rng.choice(["patch", "recreate", "never"]),
                                "delay": 3, "owned": True, "live": l4, "dev": None}, cases, terms)


# ---------------------------------------------------------------------------
# entry points
# ---------------------------------------------------------------------------

def run_case(ctx: Ctx, case, cases, terms):
    """a stored (corpus / replay) case"""
    if case.get("kind") == "flow":
        run_flow_case(ctx, case, cases, terms)
        return
    t, a, la = case["t"], case["a"], case.get("la")
    if case.get("dev") is not None and case.get("base") is not None:
        if run_validate(t, case["base"], la) == "match":
            check_unit_deviation(ctx, t, case["base"], la, case["dev"], a, cases, terms)
            return
    obs = run_validate(t, a, la, case.get("as_set", False))
    ctx.note_case(case, True)
    cases.append(case)
    terms.append(unit_term(case, obs))


def correspond(ctx: Ctx, cases, terms, name="validate_match / reconcile tail vs Validate.v"):
    if not ctx.model_ok or not terms:
        return
    ctx.correspond(name, "Corr_C05", cases, terms)
    # statistics: on how many cases is the model's verdict a set of several outcomes?
    sample = terms if not ctx.quick() else terms[::5]
    amb, err = common.eval_cases("Corr_C05", sample, ctx.workdir / "coq-definite", check_fn="definite_case")
    if not err:
        ctx.dist["corr:order-dependent-or-out-of-model"] = f"{len(amb)} of {len(sample)} sampled"


def run(ctx: Ctx):
    cases, terms = [], []
    for case in corpus_cases("C05"):
        run_case(ctx, case.get("case", case), cases, terms)
    run_unit(ctx, cases, terms)
    run_flow(ctx, cases, terms)
    correspond(ctx, cases, terms)


def replay(ctx: Ctx, data):
    cases, terms = [], []
    run_case(ctx, data["case"] if "case" in data else data, cases, terms)
    correspond(ctx, cases, terms, name="replay")
