"""C17 — subscription registry (src/koreo/registry.py) vs model/Registry.v.

A case is a sequence of registry operations run from the empty registry.  After
EVERY operation the harness reads both dict views, the queue dict and every
queue object ever created, and the operation's result / exception class; the
Coq model must predict all of it (Corr_C17.check_case), and the property oracle
below (which does not use the model) must hold.
"""
from __future__ import annotations

import asyncio
import itertools
import signal

from common import Ctx, Failure, corpus_cases, shrink_list

COQ_TARGETS = ["props/P_C17.vo", "corr/Corr_C17.vo"]
PROOF_FILES = ["proofs/Registry_proofs.v"]
RULE = ("sequences of registry operations (register / subscribe / subscribe_only_to / unsubscribe / "
        "notify_subscribers / kill_resource / deregister / get_subscribers / get_subscriptions / consumer "
        "get_nowait[+task_done] on any queue object ever handed out) from the empty registry: random sequences "
        "of length <= 40 over 4 resources biased towards repeated ops, cycle-closing subscriptions and "
        "notify-after-kill, caller-owned set/list objects shared between subscribe_only_to calls and mutated afterwards, "
        "own bounded queues (capacity 1-2) with bursts that fill them and kill/deregister while full, "
        "plus exhaustive short sequences over 3 resources; every prefix is compared; "
        "a sequence is non-trivial when it creates a subscription edge and delivers or refuses something; "
        "distinct by content")
ASSUMPTIONS = [
    "a queue passed to register(resource, queue=...) is a fresh asyncio.LifoQueue used for that one resource (capacity 0 = the "
    "default queue register creates itself); one queue object is never shared between resources",
    "consumers call task_done at most once per item they took from a queue (as koreo.cache._monitor_and_reprepare does)",
    "asyncio.LifoQueue (CPython 3.13): put_nowait raises QueueShutDown after shutdown(), else QueueFull when maxsize > 0 and "
    "qsize() >= maxsize, else appends; "
    "get_nowait pops the last item and raises QueueShutDown when empty and shut down, QueueEmpty when empty; "
    "task_done raises ValueError when no task is unfinished",
    "a defaultdict key holding an empty set is indistinguishable from an absent key (checked: get_subscribers / "
    "get_subscriptions, which insert keys, are part of the generated operations)",
]
TRUSTED = ["blocked getters/joiners of asyncio.Queue are represented in the model only by 'shut down and empty => "
           "get raises' and 'unfinished count covers only items already taken'; the harness additionally parks real "
           "getter/joiner tasks on queues and checks that deregister releases them"]

NRES = 4


# ---- running the real module ---------------------------------------------------

class _Clock:
    """stands in for the `time` module inside koreo.registry"""
    def __init__(self):
        self.now = 0

    def monotonic(self):
        return float(self.now)


class Hang(BaseException):
    """a registry call did not return within the watchdog time (the cycle check's
    `while to_check` loop spins forever on a cyclic graph)"""


def _on_alarm(signum, frame):
    raise Hang()


WATCHDOG_S = 1.0
HANGS = [0]          # non-terminating calls seen in this run; after MAX_HANGS the run stops generating
MAX_HANGS = 5        # (each costs WATCHDOG_S; the violation is already established)


class RA: ...


class RB: ...


def fresh(s):
    """an equal but DISTINCT str object (for len >= 2; CPython shares 0/1-character strings): production callers
    parse names from separate JSON documents, so no two registry calls share str objects"""
    return (s + "\0")[:-1] if isinstance(s, str) else s


class _FreshResources:
    """resource number i as a FRESH registry.Resource (fresh name / namespace strings too) on every access, the way
    koreo.cache builds `registry.Resource(resource_type=cls, name=key)` anew for every call: the registry must
    compare resources by equality, never by identity"""

    def __init__(self, registry):
        self.registry = registry

    def __getitem__(self, i):
        return self.registry.Resource(resource_type=(RA if i % 2 == 0 else RB), name=fresh(f"res-{i // 2}"),
                                      namespace=(fresh("ns-x") if i == 3 else None))


class Runner:
    """Applies operations to the real koreo.registry and canonicalises what it sees.  Every registry call gets
    freshly built Resource tuples and strings (no Python object is reused between calls)."""

    def __init__(self):
        from koreo import registry
        self.reg = registry
        registry._reset_registries()
        self.clock = _Clock()
        self._saved_time = registry.time
        registry.time = self.clock
        self.res = _FreshResources(registry)
        self.idx = {self.res[i]: i for i in range(8)}      # looked up by EQUALITY (Resource is a NamedTuple)
        self.hung = False
        self.pool = {}          # the caller's long-lived collections passed to subscribe_only_to
        self.heap = []          # every queue object ever seen, in creation order
        self.qid = {}

    def close(self):
        self.reg.time = self._saved_time
        self.reg._reset_registries()

    # caller-side collections ---------------------------------------------------
    def _pool_obj(self, pid, kind, rs):
        """the caller's long-lived collection number `pid` (a set or a list), (re)filled with `rs` by the caller"""
        key = (pid, kind)
        items = [self.res[i] for i in rs]
        obj = self.pool.get(key)
        if obj is None:
            obj = self.pool[key] = (set(items) if kind == "set" else list(items))
        elif kind == "set":
            obj.clear()
            obj.update(items)
        else:
            obj[:] = items
        return obj

    def _collection(self, op):
        """what the caller passes as `resources`: a fresh list (default), a fresh set / tuple, or one of its
        long-lived collections — the SAME object may be passed for several subscribers and changed afterwards"""
        rs = op[2]
        how = op[3] if len(op) > 3 else None
        if how is None or how == "list":
            return [self.res[i] for i in rs]
        if how == "set":
            return {self.res[i] for i in rs}
        if how == "tuple":
            return tuple(self.res[i] for i in rs)
        return self._pool_obj(how[1], how[2], rs)

    # canonical views -----------------------------------------------------------
    def _ev(self, e):
        if isinstance(e, self.reg.Kill):
            return ["K"]
        return ["R", self.idx[e.resource], int(e.event_time)]

    def _scan_queues(self):
        for q in self.reg._SUBSCRIPTION_QUEUES.values():
            if id(q) not in self.qid:
                self.qid[id(q)] = len(self.heap)
                self.heap.append(q)

    def observe(self):
        reg = self.reg
        self._scan_queues()
        subs = sorted([self.idx[r], self.idx[s]] for r, ss in reg._RESOURCE_SUBSCRIBERS.items() for s in ss)
        watches = sorted([self.idx[s], self.idx[r]] for s, rs in reg._SUBSCRIBER_RESOURCES.items() for r in rs)
        queues = sorted([self.idx[r], self.qid[id(q)]] for r, q in reg._SUBSCRIPTION_QUEUES.items())
        heap = [[[self._ev(e) for e in list(q._queue)], bool(q._is_shutdown), int(q._unfinished_tasks),
                 max(0, int(q.maxsize))] for q in self.heap]
        return {"subs": subs, "watches": watches, "queues": queues, "heap": heap}

    def _exc(self, e):
        reg = self.reg
        if isinstance(e, reg.SubscriptionCycle):
            return "Cycle"
        if isinstance(e, asyncio.QueueShutDown):
            return "QueueShutDown"
        if isinstance(e, asyncio.QueueEmpty):
            return "QueueEmpty"
        if type(e) is KeyError:
            return "KeyError"
        if type(e) is ValueError:
            return "ValueError"
        return "Other:" + type(e).__name__

    def apply(self, op):
        old = signal.signal(signal.SIGVTALRM, _on_alarm)
        signal.setitimer(signal.ITIMER_VIRTUAL, WATCHDOG_S)     # CPU time: immune to machine load
        try:
            return self._apply(op)
        except Hang:
            self.hung = True
            HANGS[0] += 1
            return ["raised", "Other:Hang"], self.observe()
        finally:
            signal.setitimer(signal.ITIMER_VIRTUAL, 0)
            signal.signal(signal.SIGVTALRM, old)

    def _apply(self, op):
        reg, R = self.reg, self.res
        k = op[0]
        try:
            if k == "register":
                self.clock.now = op[2]
                c = op[3] if len(op) > 3 else 0
                if c:      # the caller's own fresh bounded queue
                    q = reg.register(R[op[1]], queue=asyncio.LifoQueue(maxsize=c))
                else:
                    q = reg.register(R[op[1]])
                self._scan_queues()
                res = ["queue", self.qid[id(q)]]
            elif k == "subscribe":
                res = ["none"] if reg.subscribe(R[op[1]], R[op[2]]) is None else ["other"]
            elif k == "only":
                res = ["none"] if reg.subscribe_only_to(R[op[1]], self._collection(op)) is None else ["other"]
            elif k == "mutate":
                # the caller changes ITS OWN collection (one it passed to subscribe_only_to earlier); the
                # registry must not notice.  Observed through a plain read of one subscriber's view.
                _, pid, kind, rs, who = op
                self._pool_obj(pid, kind, rs)
                res = ["set", sorted(self.idx[x] for x in reg.get_subscriptions(R[who]))]
            elif k == "unsubscribe":
                res = ["none"] if reg.unsubscribe(R[op[1]], R[op[2]]) is None else ["other"]
            elif k == "notify":
                res = ["none"] if reg.notify_subscribers(R[op[1]], float(op[2])) is None else ["other"]
            elif k == "kill":
                res = ["none"] if reg.kill_resource(R[op[1]]) is None else ["other"]
            elif k == "deregister":
                res = ["none"] if reg.deregister(R[op[1]], float(op[2])) is None else ["other"]
            elif k == "subscribers":
                res = ["set", sorted(self.idx[x] for x in reg.get_subscribers(R[op[1]]))]
            elif k == "subscriptions":
                res = ["set", sorted(self.idx[x] for x in reg.get_subscriptions(R[op[1]]))]
            elif k in ("get", "getdone"):
                q = self.heap[op[1]]
                item = q.get_nowait()
                if k == "getdone":
                    q.task_done()
                res = ["item", self._ev(item)]
            else:
                raise AssertionError(op)
        except AssertionError:
            raise
        except Exception as e:  # noqa: BLE001 - the exception class is the observation
            res = ["raised", self._exc(e)]
        return res, self.observe()


def run_ops(ops, probe=None):
    """Run a fixed op list; returns [(op, result, obs)] and the probe's verdict (None = fine)."""
    async def go():
        r = Runner()
        try:
            out = []
            for op in ops:
                if op[0] in ("get", "getdone") and op[1] >= len(r.heap):
                    continue            # (only after shrinking) no such queue object
                res, obs = r.apply(op)
                out.append((op, res, obs))
                if r.hung or has_cycle([tuple(e) for e in obs["watches"]]):
                    return out, None     # (the oracle flags this step; going on could spin forever)
            verdict = await probe(r) if probe else None
            return out, verdict
        finally:
            r.close()
    return asyncio.run(go())


# ---- the property, directly ---------------------------------------------------

def reaches(edges, a, b):
    """b reachable from a along >= 0 edges"""
    seen, todo = set(), [a]
    while todo:
        x = todo.pop()
        if x == b:
            return True
        if x in seen:
            continue
        seen.add(x)
        todo += [v for (u, v) in edges if u == x]
    return False


def has_cycle(edges):
    return any(reaches(edges, v, u) for (u, v) in edges)


def is_full(qobs):
    return qobs[3] > 0 and len(qobs[0]) >= qobs[3]


def oracle_step(before, op, res, after):
    """(signature, description) if the property fails on this step, else None."""
    k = op[0]
    w0 = [tuple(e) for e in before["watches"]]
    if res == ["raised", "Other:Hang"]:
        return (f"{k} does not terminate", f"{k} did not return within {WATCHDOG_S}s of CPU time (cycle check spinning on a cyclic graph)")
    # -- views are exact inverses, graph acyclic: after ANY operation
    if sorted([s, r] for r, s in after["subs"]) != after["watches"]:
        return ("views not inverse", f"after {k}: the two views are not exact inverses")
    if has_cycle([tuple(e) for e in after["watches"]]):
        return ("cycle", f"after {k}: the subscription graph has a cycle")
    # -- a subscription that would close a cycle is refused, registry unchanged
    if k in ("subscribe", "only"):
        s = op[1]
        if k == "subscribe":
            would = w0 + [(s, op[2])]
        else:
            would = [e for e in w0 if e[0] != s] + [(s, r) for r in op[2]]
        if has_cycle(would) and res != ["raised", "Cycle"]:
            return (f"{k}: cycle not refused", f"{k} would close a cycle but returned {res}")
        if res == ["raised", "Cycle"] and after != before:
            return (f"{k}: refused but changed", f"{k} was refused (cycle) but the registry changed")
    # -- notification: exactly once to each current subscriber with a live queue, nobody else, never fails
    if k == "notify":
        n, t = op[1], op[2]
        if res[0] == "raised":
            return ("notify raises " + res[1], f"notify_subscribers raised {res[1]}")
        qof = {r: q for r, q in before["queues"]}
        targets = {qof[sb] for r, sb in before["subs"] if r == n and sb in qof}
        if len(after["heap"]) != len(before["heap"]):
            return ("notify creates queue", "notify_subscribers created a queue")
        for q, (b, a) in enumerate(zip(before["heap"], after["heap"])):
            live = q in targets and not b[1] and not is_full(b)   # a full bounded queue cannot take the event
            if live:
                if a[0] != b[0] + [["R", n, t]]:
                    return ("notify: subscriber missed or duplicated",
                            f"live subscriber queue {q} did not receive exactly one event")
            elif a[0] != b[0]:
                return ("notify: delivered to non-subscriber",
                        f"queue {q} is not a live subscriber's queue but its contents changed")
            if a[1] != b[1]:
                return ("notify: shutdown flag changed", f"queue {q} shutdown flag changed")
        if (after["subs"], after["watches"], after["queues"]) != (before["subs"], before["watches"], before["queues"]):
            return ("notify changes registry", "notify_subscribers changed the subscription views")
    if k == "register" and res[0] == "raised":
        return ("register raises " + res[1], f"register raised {res[1]} (it notifies subscribers)")
    # -- deregister releases everything waiting on the resource's queue
    if k == "deregister":
        r = op[1]
        if res[0] == "raised":
            return ("deregister raises " + res[1], f"deregister raised {res[1]}")
        qof = {x: q for x, q in before["queues"]}
        if any(x == r for x, _ in after["queues"]):
            return ("deregister: queue kept", "the deregistered resource still has a queue")
        if r in qof:
            b, a = before["heap"][qof[r]], after["heap"][qof[r]]
            if not a[1] or a[0]:
                return ("deregister: old queue not shut down and empty",
                        "a getter on the old queue would keep waiting (not shut down, or items left)")
            if a[2] > b[2] - len(b[0]):
                return ("deregister: undelivered items still unfinished",
                        "queue.join() on the old queue would keep waiting for items nobody will ever take")
    return None


def oracle_sequence(trace, empty_obs):
    before = empty_obs
    for op, res, obs in trace:
        bad = oracle_step(before, op, res, obs)
        if bad:
            return bad
        before = obs
    return None


EMPTY = {"subs": [], "watches": [], "queues": [], "heap": []}


def make_probe(kind, target):
    """Park real waiters on resource `target`'s queue, deregister, and see that they are released."""
    async def probe(r: Runner):
        reg = r.reg
        res = r.res[target]
        q = reg._SUBSCRIPTION_QUEUES.get(res)
        if q is None or q._is_shutdown:
            return None
        waiters = []
        if kind == "getters":
            while not q.empty():           # behave like a consumer first
                q.get_nowait()
                q.task_done()
            waiters = [asyncio.ensure_future(q.get()) for _ in range(3)]
        elif kind == "full-getters":
            # consumers parked in get(); then, in one synchronous stretch, events arrive until the (bounded)
            # queue is full and the resource is deregistered: there is no room for the Kill marker
            while not q.empty():
                q.get_nowait()
                q.task_done()
            waiters = [asyncio.ensure_future(q.get()) for _ in range(2)]
            await asyncio.sleep(0)
            if any(w.done() for w in waiters):
                for w in waiters:
                    w.cancel()
                return None
            for i in range(q.maxsize if q.maxsize > 0 else 2):
                q.put_nowait(reg.ResourceEvent(resource=res, event_time=float(i)))
        else:
            # everything taken so far is accounted for; only undelivered items remain unfinished
            while q._unfinished_tasks > q.qsize():
                q.task_done()
            if q.qsize() == 0:
                q.put_nowait(reg.ResourceEvent(resource=res, event_time=0.0))
            waiters = [asyncio.ensure_future(q.join()) for _ in range(2)]
        if kind != "full-getters":
            await asyncio.sleep(0)
            if any(w.done() for w in waiters):
                for w in waiters:
                    w.cancel()
                return None               # not actually waiting; nothing to check
        try:
            reg.deregister(res, 999.0)
        except Exception as e:  # noqa: BLE001
            for w in waiters:
                w.cancel()
            return ("deregister raises " + type(e).__name__, f"deregister raised {e!r}")
        for _ in range(5):
            await asyncio.sleep(0)
        stuck = [w for w in waiters if not w.done()]
        # a consumer that comes to the old queue only now must not block either
        late = asyncio.ensure_future(q.get())
        for _ in range(3):
            await asyncio.sleep(0)
        late_stuck = not late.done()
        waiters = waiters + [late]
        for w in waiters:
            w.cancel()
            try:
                await w
            except BaseException:  # noqa: BLE001
                pass
        if stuck:
            return (f"deregister: {kind} still waiting",
                    f"{len(stuck)} task(s) blocked in queue.{'join' if kind == 'joiners' else 'get'}() were not released")
        if late_stuck:
            return (f"deregister: later get() blocks ({kind})",
                    "a get() on the deregistered resource's old queue blocks instead of raising QueueShutDown")
        return None
    return probe


# ---- Gallina ----------------------------------------------------------------

def c_ev(e):
    return "EKill" if e[0] == "K" else f"(ERes {e[1]} {e[2]})"


def c_natlist(xs):
    return "[" + ";".join(str(x) for x in xs) + "]"


def c_op(op):
    k = op[0]
    if k == "register":
        return f"(ORegister {op[1]} {op[2]} {op[3] if len(op) > 3 else 0})"
    if k == "subscribe":
        return f"(OSubscribe {op[1]} {op[2]})"
    if k == "only":
        return f"(OSubscribeOnly {op[1]} {c_natlist(op[2])})"
    if k == "mutate":        # for the registry this is just a read: the model state must not move
        return f"(OGetSubscriptions {op[4]})"
    if k == "unsubscribe":
        return f"(OUnsubscribe {op[1]} {op[2]})"
    if k == "notify":
        return f"(ONotify {op[1]} {op[2]})"
    if k == "kill":
        return f"(OKill {op[1]})"
    if k == "deregister":
        return f"(ODeregister {op[1]} {op[2]})"
    if k == "subscribers":
        return f"(OGetSubscribers {op[1]})"
    if k == "subscriptions":
        return f"(OGetSubscriptions {op[1]})"
    if k == "get":
        return f"(OGet {op[1]})"
    if k == "getdone":
        return f"(OGetDone {op[1]})"
    raise ValueError(op)


def c_res(res):
    k = res[0]
    if k == "none":
        return "RNone"
    if k == "queue":
        return f"(RQueue {res[1]})"
    if k == "item":
        return f"(RItem {c_ev(res[1])})"
    if k == "set":
        return f"(RSet {c_natlist(res[1])})"
    if k == "raised":
        x = res[1] if res[1] in ("Cycle", "KeyError", "QueueShutDown", "QueueEmpty", "ValueError") else "OtherExn"
        return f"(Raised {x})"
    return "(Raised OtherExn)"           # a non-None return value where None is expected


def c_edges(es):
    return "[" + ";".join(f"Ed {a} {b}" for a, b in es) + "]"


def c_obs(o):
    heap = "[" + ";".join("QO [" + ";".join(c_ev(e) for e in q[0]) + "] " + ("true" if q[1] else "false") + f" {q[2]} {q[3]}"
                          for q in o["heap"]) + "]"
    return f"(SO {c_edges(o['subs'])} {c_edges(o['watches'])} {c_edges(o['queues'])} {heap})"


def to_coq(trace):
    return "(CSeq [" + ";\n ".join(f"Step {c_op(op)} {c_res(res)} {c_obs(obs)}" for op, res, obs in trace) + "])%nat"


# ---- generators --------------------------------------------------------------

def all_ops(nres, times=(1,), nq=0, subsets=True):
    ops = []
    R = range(nres)
    for r in R:
        ops += [["register", r, t] for t in times]
        ops += [["register", r, times[0], 1]]          # with the caller's own queue of capacity 1
        ops += [["notify", r, t] for t in times]
        ops += [["deregister", r, t] for t in times]
        ops += [["kill", r]]
    for a in R:
        for b in R:
            ops.append(["subscribe", a, b])
            ops.append(["unsubscribe", a, b])
    if subsets:
        for a in R:
            for n in range(0, nres + 1):
                for sub in itertools.combinations(R, n):
                    ops.append(["only", a, list(sub)])
            for b in R:      # the same caller-owned set object handed over for different subscribers, then changed
                ops.append(["only", a, [b], ["pool", 0, "set"]])
        ops.append(["mutate", 0, "set", [], 0])
    for q in range(nq):
        ops += [["get", q], ["getdone", q]]
    return ops


class RandomSeq:
    """Draws the next operation looking at the real registry's current state, so that the
    interesting situations (cycle-closing subscriptions, notify after kill, redundant ops) are frequent."""

    def __init__(self, rng, nres, tclock):
        self.rng, self.nres, self.t = rng, nres, tclock
        self.prev = None
        self.pending = []      # queued follow-ups (bursts of notifications, kill/deregister while full)

    def tick(self):
        self.t += 1
        return self.t

    def next(self, obs):
        rng, n = self.rng, self.nres
        if self.prev is not None and rng.random() < 0.12:
            op = list(self.prev)
            if op[0] in ("register", "notify", "deregister") and rng.random() < 0.5:
                op[2] = self.tick()
            return op
        watches = [tuple(e) for e in obs["watches"]]
        registered = [r for r, _ in obs["queues"]]
        x = rng.random()
        r = rng.randrange(n)
        if self.pending:
            op = self.pending.pop()
            if op[0] in ("notify", "deregister"):
                op[2] = self.tick()
            self.prev = op
            return op
        if x < 0.16:
            op = ["register", r, self.tick(), rng.choice([0, 0, 0, 1, 1, 2])]
        elif x < 0.40:
            a, b = rng.randrange(n), rng.randrange(n)
            y = rng.random()
            if y < 0.35 and watches:
                # try to close a cycle: subscribe the far end of a chain to its near end
                u, v = rng.choice(watches)
                cands = [z for z in range(n) if reaches(watches, v, z)]
                a, b = rng.choice(cands), u
            elif y < 0.55 and watches:
                # extend a chain
                u, v = rng.choice(watches)
                a, b = (v, rng.randrange(n)) if rng.random() < 0.5 else (rng.randrange(n), u)
            op = ["subscribe", a, b]
        elif x < 0.52:
            k = rng.choice([0, 0, 1, 1, 2, 2, 3])
            rs = [rng.randrange(n) for _ in range(k)]
            if rng.random() < 0.3:
                rs = [z for z in rs if z != r]
            y = rng.random()
            if y < 0.35:
                op = ["only", r, rs, ["pool", rng.randrange(2), rng.choice(["set", "set", "list"])]]
            elif y < 0.5:
                op = ["only", r, rs, rng.choice(["set", "tuple"])]
            else:
                op = ["only", r, rs]
            if rng.random() < 0.25:
                kind = rng.choice(["set", "set", "list"])
                self.pending.append(["mutate", rng.randrange(2), kind,
                                     [rng.randrange(n) for _ in range(rng.choice([0, 1, 2]))], rng.randrange(n)])
        elif x < 0.60:
            if watches and rng.random() < 0.7:
                u, v = rng.choice(watches)
                op = ["unsubscribe", u, v]
            else:
                op = ["unsubscribe", rng.randrange(n), rng.randrange(n)]
        elif x < 0.76:
            if obs["subs"] and rng.random() < 0.7:
                r = rng.choice(obs["subs"])[0]
            op = ["notify", r, self.tick()]
            # a burst that fills bounded subscriber queues, sometimes followed by killing / deregistering
            # such a subscriber while its queue is full
            qof = {a: q for a, q in obs["queues"]}
            bounded = [sb for rr, sb in obs["subs"] if rr == r and sb in qof and obs["heap"][qof[sb]][3] > 0]
            if bounded and rng.random() < 0.6:
                victim = rng.choice(bounded)
                y = rng.random()
                if y < 0.35:
                    self.pending.append(["deregister", victim, 0])
                elif y < 0.6:
                    self.pending.append(["kill", victim])
                for _ in range(rng.choice([1, 2, 2])):
                    self.pending.append(["notify", r, 0])
        elif x < 0.81:
            if registered and rng.random() < 0.7:
                r = rng.choice(registered)
            op = ["kill", r]
        elif x < 0.86:
            if registered and rng.random() < 0.6:
                r = rng.choice(registered)
            op = ["deregister", r, self.tick()]
        elif x < 0.89:
            op = [rng.choice(["subscribers", "subscriptions"]), r]
        else:
            nq = len(obs["heap"])
            if nq == 0:
                op = ["register", r, self.tick(), rng.choice([0, 1, 2])]
            else:
                nonempty = [q for q in range(nq) if obs["heap"][q][0]]
                q = rng.choice(nonempty) if nonempty and rng.random() < 0.7 else rng.randrange(nq)
                op = [rng.choice(["get", "getdone", "getdone"]), q]
        self.prev = op
        return op


def random_trace(rng, length, nres):
    async def go():
        r = Runner()
        try:
            gen = RandomSeq(rng, nres, 0)
            obs = r.observe()
            out = []
            for _ in range(length):
                op = gen.next(obs)
                res, obs = r.apply(op)
                out.append((op, res, obs))
                if r.hung or has_cycle([tuple(e) for e in obs["watches"]]):
                    break
            return out
        finally:
            r.close()
    return asyncio.run(go())


# ---- one case ------------------------------------------------------------------

def nontrivial(trace):
    return any(o["watches"] for _, _, o in trace) and any(
        (op[0] == "notify" and any(q[0] for q in o["heap"])) or res == ["raised", "Cycle"] for op, res, o in trace)


def report(ctx: Ctx, ops, bad, probe_spec=None):
    sig = bad[0]
    seen = ctx.__dict__.setdefault("_c17_sigs", {})
    seen[sig] = seen.get(sig, 0) + 1
    if seen[sig] > 1:                  # shrink and report each kind of failure once; count the rest
        ctx.failures.append(Failure(signature=sig, what=bad[1], case={"ops": ops}))
        return

    def still(xs):
        tr, verdict = run_ops(xs, make_probe(*probe_spec) if probe_spec else None)
        b = oracle_sequence(tr, EMPTY) or verdict
        return bool(b) and b[0] == sig
    small = shrink_list(ops, still)
    tr, verdict = run_ops(small, make_probe(*probe_spec) if probe_spec else None)
    ctx.fail(Failure(signature=sig, what=bad[1],
                     case={"ops": small, "probe": list(probe_spec) if probe_spec else None},
                     observed=[[op, res] for op, res, _ in tr][-6:],
                     expected="see 'what'"))


def handle(ctx: Ctx, trace, cases, terms, bucket):
    ops = [op for op, _, _ in trace]
    bad = oracle_sequence(trace, EMPTY)
    if bad:
        report(ctx, ops, bad)
    ctx.note_case({"ops": ops}, nontrivial=nontrivial(trace))
    ctx.count(f"seqs:{bucket}")
    ctx.count("ops", len(trace))
    for op, res, _ in trace:
        ctx.count("op:" + op[0])
        if res[0] == "raised":
            ctx.count(f"raised:{op[0]}:{res[1]}")
    cases.append({"ops": ops})
    terms.append(to_coq(trace))


def exhaustive(ctx: Ctx, nres, depth, alphabet):
    """all sequences of exactly `depth` ops over `alphabet` (every prefix is compared, so shorter ones are covered)"""
    for seq in itertools.product(alphabet, repeat=depth):
        yield [list(o) for o in seq]


def run(ctx: Ctx):
    cases, terms = [], []
    HANGS[0] = 0
    # 0. corpus
    for c in corpus_cases("C17"):
        probe_spec = tuple(c["probe"]) if c.get("probe") else None
        tr, verdict = run_ops(c["ops"], make_probe(*probe_spec) if probe_spec else None)
        if verdict:
            report(ctx, c["ops"], verdict, probe_spec)
        handle(ctx, tr, cases, terms, "corpus")
    # 1. exhaustive short sequences
    if ctx.quick():
        plans = [(3, 2, all_ops(3, nq=1, subsets=False)), (2, 3, all_ops(2, nq=1))]
    else:
        plans = [(3, 3, all_ops(3, nq=1, subsets=False)), (3, 2, all_ops(3, times=(1, 2), nq=2)),
                 (2, 4, all_ops(2, nq=1, subsets=False)), (2, 3, all_ops(2, nq=2))]
    for nres, depth, alpha in plans:
        for ops in exhaustive(ctx, nres, depth, alpha):
            if HANGS[0] >= MAX_HANGS:
                break
            tr, _ = run_ops(ops)
            handle(ctx, tr, cases, terms, f"exhaustive:{nres}res:len{depth}")
    # 2. random sequences, state-aware bias
    nrand = 500 if ctx.quick() else 8000
    for i in range(nrand):
        if HANGS[0] >= MAX_HANGS:
            break
        length = ctx.rng.choice([5, 10, 20, 30, 40, 40])
        nres = ctx.rng.choice([2, 3, 4, 4, 4])
        tr = random_trace(ctx.rng, length, nres)
        handle(ctx, tr, cases, terms, "random")
    # 3. real waiters parked on a queue are released by deregister (oracle only)
    nprobe = 60 if ctx.quick() else 1000
    for i in range(nprobe):
        if HANGS[0] >= MAX_HANGS:
            ctx.notes.append(f"stopped generating after {HANGS[0]} non-terminating registry calls")
            break
        tr = random_trace(ctx.rng, ctx.rng.choice([3, 8, 15, 25]), 3)
        ops = [op for op, _, _ in tr]
        spec = (ctx.rng.choice(["getters", "joiners", "full-getters", "full-getters"]), ctx.rng.randrange(3))
        if not any(r == spec[1] for r, _ in tr[-1][2]["queues"]):
            ops.append(["register", spec[1], 500, ctx.rng.choice([0, 1, 2]) if spec[0] != "full-getters"
                        else ctx.rng.choice([1, 2])])
        _, verdict = run_ops(ops, make_probe(*spec))
        ctx.count("probe:" + spec[0])
        ctx.cases += 1
        if verdict:
            report(ctx, ops, verdict, spec)
    if ctx.model_ok:
        ctx.correspond("koreo.registry vs Registry.step, every prefix", "Corr_C17", cases, terms)


def replay(ctx: Ctx, data):
    case = data["case"] if "case" in data else data
    probe_spec = tuple(case["probe"]) if case.get("probe") else None
    tr, verdict = run_ops(case["ops"], make_probe(*probe_spec) if probe_spec else None)
    bad = oracle_sequence(tr, EMPTY) or verdict
    if bad:
        ctx.fail(Failure(signature=bad[0], what=bad[1], case=case,
                         observed=[[op, res] for op, res, _ in tr][-6:]))
    ctx.note_case(case, True)
    if ctx.model_ok:
        ctx.correspond("replay", "Corr_C17", [case], [to_coq(tr)])
