"""C01 — steps run only on Ok dependencies and see exactly their values
(src/koreo/workflow/reconcile.py) vs model/Workflow.v."""
from __future__ import annotations

import copy
import itertools
import json
import time

import wf_model as m
from common import Ctx, Failure, corpus_cases, eval_cases, shrink_list

COQ_TARGETS = ["props/P_C01.vo", "corr/Corr_C01.vo"]
PROOF_FILES = ["proofs/Workflow_proofs.v"]
RULE = ("Workflows built as real specs and prepared through the real cache (prepare_and_cache + prepare_workflow / "
        "prepare_value_function / prepare_resource_function): (i) an exhaustive grid 'outcome class of a dependency "
        "(Ok/Skip/DepSkip/Retry/PermFail/evaluation error) x shape of the dependent step (ref VF / ref RF / sub-workflow / "
        "refSwitch) x skipIf (none/false/true) x forEach (none / 2 items)'; (ii) random DAG workflows of 1..20 steps "
        "mixing ref, refSwitch, forEach, skipIf, sub-workflows (nested), conditions and state, inputs reading paths of "
        "earlier steps' values and of the trigger, with a per-workflow error budget (failing expressions, non-bool "
        "skipIf, non-list itemIn, unmatched switch) and workflows prepare rejects (duplicate label, out-of-order "
        "reference, missing function, broken sub-workflow) or whose prepared dependency lists were edited by hand. "
        "Reconciled with the real reconcile_workflow against the in-memory cluster; recorded: per-step outcomes, Result "
        "fields, every evaluation of Logic (path, target, inputs) and every API call with the step it was made under. "
        "non-trivial = >= 2 steps, >= 1 dependency edge and >= 1 evaluation of Logic; distinct by content")
ASSUMPTIONS = [
    "fault-free API and no timeouts (C09 covers those); every step task finishes",
    "a Function's result is a function of the inputs it receives (its ResourceFunction acts on its own object; the "
    "cluster is not changed by anyone else during the pass)",
    "theorems: step labels are pairwise distinct and every dependency names an earlier step (what prepare_workflow "
    "guarantees: duplicates / out-of-order references become ErrorSteps and the workflow then runs nothing); the "
    "prepared dependency list covers every step the expressions mention (C14)",
    "CEL evaluation of the generated expression shapes (paths into steps/parent/inputs/value, literals, list and map "
    "literals, 1/0) is modelled by Workflow.eval and exercised against celpy by every case",
    "outcome message/location prose is not modelled (class, Retry delay and values are)",
]
TRUSTED = ["harness/cluster.py in-memory API double", "harness/wf_model.py scenario realiser, the recording shims of "
           "koreo.workflow.reconcile module attributes (_reconcile_step_logic, _reconcile_steps, reconcile_workflow) and "
           "its function library (echo/bycls/null/res) as modelled by Corr_C01.std_fn_sem"]


# --------------------------------------------------------------------------------------------
# oracle: the property text on one observed run, independent of the Coq model
# --------------------------------------------------------------------------------------------

ERR = ("Retry", "PermFail")


def same(a, b) -> bool:
    """type-aware deep equality (True != 1)"""
    return json.dumps(a, sort_keys=True) == json.dumps(b, sort_keys=True)


def _head(path, prefix):
    return len(path) > len(prefix) and path[:len(prefix)] == prefix


def check_level(sc, o, steps, parent, outs_list, prefix, fails):
    """the clauses of C01 for the steps of one (sub-)workflow run whose recorded path prefix is `prefix`"""
    labels = [s["label"] for s in steps]
    if len(set(labels)) != len(labels):
        return
    outs = {l: out for l, out, _ in outs_list}
    sim = m.simulate(sc, steps, parent)
    truth = {} if sim.get("not_ready") else sim["outcomes"]
    trace = [t for t in o["trace"] if _head(t["path"], prefix)]
    calls = [c for c in o["calls"] if _head(c["path"], prefix)]

    def bad(sig, what, step):
        fails.append((sig, f"step {step['label']} (under {prefix}): {what}", step["label"]))

    for s in steps:
        l = s["label"]
        if l not in outs:
            continue
        mine = [t for t in trace if t["path"][len(prefix)][0] == l]
        direct = [t for t in mine if len(t["path"]) == len(prefix) + 1]
        my_calls = [c for c in calls if c["path"][len(prefix)][0] == l]
        refs = sorted(m.step_refs(s))
        # GROUND TRUTH (not the reported outcome): the class the generator forced on this step — the class its
        # function returns on these inputs / error iff an item is Retry or PermFail / the combination of a
        # sub-workflow's inner steps — computed by the plain-Python reference run of the scenario.
        if l in truth:
            want_cls, got_cls = truth[l][0], outs[l]["cls"]
            if want_cls != got_cls and not (want_cls in ERR and got_cls in ERR):
                if got_cls == "Ok":
                    bad("step reported Ok although its Logic did not finish Ok",
                        f"reported Ok {outs[l].get('value')!r}, but what was forced on its Logic makes it {want_cls}", s)
                else:
                    bad(f"step outcome class is not the one forced on its Logic ({want_cls} expected)",
                        f"reported {got_cls}, expected {want_cls}", s)
            elif want_cls == "Ok" and not same(outs[l].get("value"), truth[l][1]):
                # value integrity: at the end of the pass the step's reported value is still what its Logic returned
                bad("step's reported value is not what its Logic returned (changed during the pass, or results "
                    "assembled in the wrong order)",
                    f"reported {outs[l].get('value')!r}, its Logic returned {truth[l][1]!r}", s)
        not_ok = [r for r in refs if r not in outs or outs[r]["cls"] != "Ok" or truth.get(r, ("Ok",))[0] != "Ok"]
        if not not_ok and any(r in truth and truth[r][0] == "Ok" and outs[r]["cls"] != "Ok" for r in refs):
            continue          # a referenced step is mis-reported (flagged there); nothing sound to demand here
        if not_ok:
            # "If any referenced step was skipped, is waiting or failed, the step is reported as a
            #  dependency-skip and its Logic is never evaluated (no API call is made on its behalf)"
            if mine:
                bad("Logic evaluated although a referenced step is not Ok",
                    f"references {not_ok} (reported {[outs.get(r, {}).get('cls') for r in not_ok]}, by what was forced on "
                    f"them {[truth.get(r, ('?',))[0] for r in not_ok]}) but Logic was evaluated: "
                    f"{[t['tgt'] for t in mine]}", s)
            if my_calls:
                bad("API call made on behalf of a step whose dependency is not Ok",
                    f"calls {[(c['method'], c['name']) for c in my_calls]}", s)
            if outs[l]["cls"] != "DepSkip":
                bad("step with a non-Ok dependency is not reported as DepSkip",
                    f"references {not_ok} but outcome is {outs[l]['cls']}", s)
            continue
        # "exactly those steps' return values": what a referenced step RETURNED is taken from the reference run
        # (every function of the library returns a known function of its inputs), not from what is reported at
        # the end of the pass — an aliased / mutated value would otherwise be its own witness
        env = {"steps": {r: (truth[r][1] if truth.get(r, ("?",))[0] == "Ok" else outs[r].get("value")) for r in refs},
               "parent": parent}
        try:
            base = m.py_eval(["M", s["inputs"]], env) if s.get("inputs") else {}
        except m.EvalError:
            if mine:
                bad("Logic evaluated although the step's inputs cannot be evaluated", f"{[t['tgt'] for t in mine]}", s)
            continue
        skip = False
        if s.get("skip") is not None:
            try:
                skip = m.py_eval(s["skip"], env)
            except m.EvalError:
                skip = "error"
        if skip is True:
            # "a step whose skipIf is true is skipped the same way"
            if mine:
                bad("Logic evaluated although skipIf is true", f"{[t['tgt'] for t in mine]}", s)
            if my_calls:
                bad("API call made on behalf of a skipped step", f"{[(c['method'], c['name']) for c in my_calls]}", s)
            if outs[l]["cls"] != "Skip":
                bad("step whose skipIf is true is not reported as Skip", f"outcome is {outs[l]['cls']}", s)
            continue
        if skip is not False:
            continue          # non-bool / failing skipIf: not C01's subject
        # ---- the gate is open: which evaluations of Logic are allowed, and with which inputs
        if s.get("foreach") is not None:
            try:
                items = m.py_eval(s["foreach"][0], env)
            except m.EvalError:
                items = "error"
            if not isinstance(items, list):
                if mine:
                    bad("Logic evaluated although forEach.itemIn is not a list", f"{[t['tgt'] for t in mine]}", s)
                continue
            expected = []
            for i, it in enumerate(items):
                ii = copy.deepcopy(base)
                ii[s["foreach"][1]] = it
                expected.append((i, ii))
        else:
            expected = [(None, base)]
        allowed = {json.dumps(i) for i, _ in expected}
        for t in direct:
            if json.dumps(t["path"][-1][1]) not in allowed:
                bad("Logic evaluated for a forEach index that is not an item", f"index {t['path'][-1][1]} of {len(expected)}", s)
        for idx, want in expected:
            here = [t for t in direct if t["path"][-1][1] == idx]
            lg = s["logic"]
            if lg[0] == "switch":
                # "a refSwitch evaluates exactly the one selected case"
                sel = None
                try:
                    v = m.py_eval(lg[1], {**env, "inputs": want})
                except m.EvalError:
                    v = None
                if isinstance(v, str):
                    for case, target, is_default in lg[2]:
                        if case == v:
                            sel = target
                if sel is None and isinstance(v, (str, int)) and not isinstance(v, bool):
                    for case, target, is_default in lg[2]:
                        if is_default:
                            sel = target
                if sel is None:
                    if here:
                        bad("refSwitch evaluated a case although none is selected", f"switch value {v!r}: {[t['tgt'] for t in here]}", s)
                    continue
                if len(here) != 1 or here[0]["tgt"] != list(sel):
                    bad("refSwitch did not evaluate exactly the selected case",
                        f"switch value {v!r} selects {sel}, evaluated {[t['tgt'] for t in here]}", s)
                    continue
            else:
                if len(here) > 1:
                    bad("Logic evaluated more than once for one step / item", f"{len(here)} evaluations at index {idx}", s)
                if s.get("foreach") is not None and len(here) != 1:
                    bad("forEach did not evaluate Logic exactly once per item", f"{len(here)} evaluations for item {idx}", s)
                if s.get("foreach") is None and len(here) == 0:
                    # every referenced step is Ok, the inputs evaluate, skipIf is false: the step must see those
                    # values, i.e. its Logic is evaluated on them
                    bad("Logic not evaluated although every referenced step is Ok and skipIf is false",
                        f"outcome {outs[l]['cls']}, expected an evaluation on {want!r}", s)
                if here and here[0]["tgt"] != list(lg):
                    bad("a different Logic than the referenced one was evaluated", f"{here[0]['tgt']} instead of {lg}", s)
            for t in here:
                # "it receives exactly those steps' return values mapped through its inputs"
                if not same(t["inputs"], want):
                    bad("Logic did not receive exactly the mapped inputs" + (" (forEach item)" if idx is not None else ""),
                        f"received {t['inputs']!r}, expected {want!r}", s)
                for c in t.get("calls", []):
                    if not (isinstance(want, dict) and c[1] == want.get("name")):
                        bad("API call on an object that is not the step's", f"{c}", s)
                # nested: the sub-workflow run under this evaluation obeys the same clauses
                if t["tgt"][0] == "sub" and t["tgt"][1] in sc.get("subs", {}):
                    key = json.dumps(t["path"])
                    sub_outs = o["nested_outcomes"].get(key, [])
                    check_level(sc, o, sc["subs"][t["tgt"][1]]["steps"], t["inputs"], sub_outs, t["path"], fails)
                    # "sub-workflow Ok => its state is the step's value"
                    nres = o["nested_results"].get(key)
                    if nres is not None and idx is None and nres["result"]["cls"] == "Ok":
                        if outs[l]["cls"] != "Ok" or not same(outs[l].get("value"), nres["state"]):
                            bad("Ok sub-workflow step's value is not the sub-workflow's state",
                                f"value {outs[l].get('value')!r}, state {nres['state']!r}", s)
        # every API call under this step belongs to one of its evaluations
        for c in my_calls:
            if not any(t["path"] == c["path"] and t["tgt"][0] == "fn" and t["tgt"][1] in m.RES_FNS for t in mine):
                bad("API call that belongs to no evaluation of the step's Logic", f"{(c['method'], c['name'], c['path'])}", s)


def oracle(sc, o):
    """-> list of (signature, what, label)"""
    fails = []
    if "raised" in o["top"]:
        return [("reconcile_workflow raised " + o["top"]["raised"], o["top"]["msg"], None)]
    if o["prepared"]["ready"] is not None:
        # steps not ready: nothing runs
        if o["trace"] or o["calls"]:
            fails.append(("Logic evaluated although the workflow's steps are not ready",
                          f"{[t['tgt'] for t in o['trace']]} calls {[(c['method'], c['name']) for c in o['calls']]}", None))
        # a Workflow in which every `steps.<label>` reference (expressions ROOTED at `steps`) names an earlier step,
        # labels are distinct and every Logic exists must be run: its steps see their dependencies' values
        if not sc.get("edit") and not m.simulate(sc).get("not_ready"):
            fails.append(("valid workflow rejected at prepare: a step got a dependency its expressions do not have",
                          f"steps_ready is {o['prepared']['ready']}; prepared steps {o['prepared']['steps']}", None))
        return fails
    if sc.get("edit"):
        return fails
    check_level(sc, o, sc["steps"], sc["trigger"], o["outcomes"], [], fails)
    sim = m.simulate(sc)
    if not sim.get("not_ready") and not same(o["top"]["state"], sim["state"]):
        fails.append(("published state is not what the steps' Logic returned", 
                      f"state {o['top']['state']!r}, expected {sim['state']!r}", None))
    for c in o["calls"]:
        if not c["path"]:
            fails.append(("API call outside any step", f"{(c['method'], c['name'])}", None))
    return fails


# --------------------------------------------------------------------------------------------
# cases
# --------------------------------------------------------------------------------------------

def grid_scenarios():
    """dependency outcome class x dependent shape x skipIf x forEach"""
    C = m.C
    sub = {"steps": [{"label": "in00", "inputs": [["p", ["P", []]]], "logic": ["fn", "echo"],
                      "state": [["inner", ["V", []]]]},
                     {"label": "in01", "inputs": [["name", ["P", ["n0"]]], ["q", ["S", "in00", ["got"]]]],
                      "logic": ["fn", "res"]}], "needs": ["n0"]}
    shapes = {
        "vf": lambda: (["fn", "echo"], []),
        "rf": lambda: (["fn", "res"], [["name", C("obj-dep")]]),
        "sub": lambda: (["sub", "sub-g"], [["n0", C("obj-dep-n0")]]),
        "switch": lambda: (["switch", ["S", "src", ["got", "sel"]],
                            [["one", ["fn", "echo"], False], ["two", ["fn", "res"], True]]], [["name", C("obj-dep")]]),
    }
    for cls, shape, skip, fe, exists in itertools.product(
            m.CLS_WORDS, shapes, [None, False, True], [False, True], [False, True]):
        if exists and shape == "vf":
            continue
        logic, extra = shapes[shape]()
        dep = {"label": "dep", "inputs": [["x", ["S", "src", ["got", "v"]]]] + extra, "logic": logic,
               "cond": ["Dep", "the dependent"], "state": [["d", ["V", []]]]}
        if skip is not None:
            dep["skip"] = ["S", "src", ["got", "t" if skip else "f"]]
        if fe:
            key = "name" if shape == "rf" else ("n0" if shape == "sub" else "item")
            items = ["obj-dep-0", "obj-dep-1"] if key != "item" else [1, "x"]
            if shape == "switch":
                key, items = "name", ["obj-dep-0", "obj-dep-1"]
            dep["foreach"] = [C(items), key]
            dep["inputs"] = [kv for kv in dep["inputs"] if kv[0] != key]
        sc = {"name": "wf-main", "trigger": {"spec": {"y": 1}}, "subs": {"sub-g": copy.deepcopy(sub)},
              "existing": (["obj-dep", "obj-dep-0", "obj-dep-n0"] if exists else []), "edit": None, "broken": None,
              "steps": [
                  {"label": "src", "inputs": [["cls", C(cls)], ["v", C(17)], ["t", C(True)], ["f", C(False)],
                                              ["sel", C("two" if shape != "switch" or exists else "one")]],
                   "logic": ["fn", "bycls"]},
                  dep,
                  {"label": "tail", "inputs": [["d", ["S", "dep", []]]], "logic": ["fn", "echo"]}],
              "cell": f"dep={cls} shape={shape} skip={skip} forEach={fe} exists={exists}"}
        yield sc


def special_scenarios():
    """families aimed at hidden state / special combinations"""
    C = m.C
    base = {"name": "wf-main", "trigger": {"spec": {"y": 1}}, "subs": {}, "existing": [], "edit": None, "broken": None}
    src_inputs = [["cls", C("ok")], ["lol", C([[1, 2], [3], ["x", "y"]])], ["mp", C({"a": 1, "b": {"c": 2}})],
                  ["txt", C("Ab-Cd")], ["n", C(5)]]
    # (1) value integrity: an earlier-listed dependent applies a koreo CEL helper to (part of) the source's value;
    #     later-listed dependents, the source's own reported value and its published state must be untouched
    helpers = {
        "flatten": ["F", ["S", "src", ["got", "lol"]]],
        "flatten-discarded": ["U", "flatten", [["S", "src", ["got", "lol"]]], C(1)],
        "overlay": ["U", "overlay", [["S", "src", ["got", "mp"]], C({"b": {"zz": 1}, "a": 9})], C(1)],
        "to_json": ["U", "to_json", [["S", "src", ["got"]]], C(1)],
        "lower": ["U", "lower", [["S", "src", ["got", "txt"]]], C(1)],
        "split": ["U", "split", [["S", "src", ["got", "txt"]], C("-")], C(1)],
    }
    for hname, hexpr in helpers.items():
        for cls in ("ok", "retry7"):
            sc = copy.deepcopy(base)
            sc["steps"] = [
                {"label": "src", "inputs": [[k, (C(cls) if k == "cls" else e)] for k, e in src_inputs], "logic": ["fn", "bycls"],
                 "state": [["src", ["V", []]]]},
                {"label": "user", "inputs": [["h", copy.deepcopy(hexpr)]], "logic": ["fn", "echo"]},
                {"label": "later", "inputs": [["all", ["S", "src", ["got"]]], ["lol", ["S", "src", ["got", "lol"]]]],
                 "logic": ["fn", "echo"], "state": [["later", ["V", ["got"]]]]},
                {"label": "last", "inputs": [["first", ["S", "src", ["got", "lol"]]], ["u", ["S", "user", []]]],
                 "foreach": [["S", "src", ["got", "lol"]], "item"], "logic": ["fn", "echo"]}]
            sc["cell"] = f"integrity helper={hname} src={cls}"
            yield sc
    # (2) references that sit ONLY inside a macro body / index / literal / call argument / behind has()
    for form in ("mac", "idx", "fld", "fl", "macf", "has"):
        for cls in m.CLS_WORDS:
            for site in ("inputs", "skip", "foreach"):
                def dress(e):
                    return ["H", e[1], e[2], C("dflt")] if form == "has" else ["W", form, e]
                sc = copy.deepcopy(base)
                dep = {"label": "dep", "inputs": [["k", C(1)]], "logic": ["fn", "echo"]}
                if site == "inputs":
                    dep["inputs"].append(["v", dress(["S", "src", ["got", "n"]])])
                elif site == "skip":
                    dep["skip"] = dress(["S", "src", ["got", "f"]])
                else:
                    dep["foreach"] = [dress(["S", "src", ["got", "lol"]]), "item"]
                sc["steps"] = [{"label": "src", "inputs": [[k, (C(cls) if k == "cls" else e)] for k, e in src_inputs] + [["f", C(False)]],
                                "logic": ["fn", "bycls"]}, dep,
                               {"label": "tail", "inputs": [["d", ["S", "dep", []]]], "logic": ["fn", "echo"]}]
                sc["cell"] = f"hidden-ref form={form} site={site} src={cls}"
                yield sc
    # (2z) paths over parent / inputs / value that merely CONTAIN a segment named `steps` (or `num_steps`, `steps_total`)
    #      followed by the label of an existing / a later / an unknown step are not references
    trig = {"spec": {"steps": {l: {"image": f"img-{l}", "flag": False, "lst": [1, 2], "sel": "one"}
                               for l in ("other", "later", "build")},
                     "num_steps": {"other": 3}, "steps_total": 2}}
    for lab in ("other", "later", "build"):
        for cls in ("ok", "skip", "retry7", "permfail"):
            for site in ("inputs", "inputs-num", "skip", "foreach", "switch", "switch-inputs", "state"):
                sc = copy.deepcopy(base)
                sc["trigger"] = copy.deepcopy(trig)
                dep = {"label": "dep", "inputs": [["k", C(1)]], "logic": ["fn", "echo"]}
                if site == "inputs":
                    dep["inputs"].append(["img", ["P", ["spec", "steps", lab, "image"]]])
                elif site == "inputs-num":
                    dep["inputs"] += [["n", ["P", ["spec", "num_steps", "other"]]], ["t", ["P", ["spec", "steps_total"]]]]
                elif site == "skip":
                    dep["skip"] = ["P", ["spec", "steps", lab, "flag"]]
                elif site == "foreach":
                    dep["foreach"] = [["P", ["spec", "steps", lab, "lst"]], "item"]
                elif site == "switch":
                    dep["logic"] = ["switch", ["P", ["spec", "steps", lab, "sel"]], [["one", ["fn", "echo"], False]]]
                elif site == "switch-inputs":
                    dep["inputs"].append(["cfg", C({"steps": {lab: "one"}})])
                    dep["logic"] = ["switch", ["I", ["cfg", "steps", lab]], [["one", ["fn", "echo"], False]]]
                else:
                    dep["inputs"].append(["steps", C({lab: 5})])
                    dep["state"] = [["s", ["V", ["got", "steps", lab]]]]
                sc["steps"] = [{"label": "other", "inputs": [["cls", C(cls)]], "logic": ["fn", "bycls"]}, dep,
                               {"label": "later", "inputs": [["d", ["S", "dep", []]]], "logic": ["fn", "echo"]}]
                sc["cell"] = f"steps-segment label={lab} site={site} other={cls}"
                yield sc
    # (2y) labels over the whole CRD alphabet (^\\w+$, 3..45 chars): digit-leading, all digits, underscores only,
    #      45 characters, mixed case — referenced as steps.x where that is legal, else steps['x'] / steps["x"]
    for lab in ("2fa_setup", "1st_pass", "007", "___", "_a1", "Mixed_Case9", "x" * 45, "9" * 45):
        for cls in ("ok", "skip", "retry7", "permfail"):
            for site in ("inputs", "skip", "foreach", "switch"):
                sc = copy.deepcopy(base)
                dep = {"label": "dep", "inputs": [["k", C(1)]], "logic": ["fn", "echo"]}
                if site == "inputs":
                    dep["inputs"].append(["v", ["S", lab, ["got", "n"]]])
                elif site == "skip":
                    dep["skip"] = ["S", lab, ["got", "f"]]
                elif site == "foreach":
                    dep["foreach"] = [["S", lab, ["got", "lol"]], "item"]
                else:
                    dep["logic"] = ["switch", ["S", lab, ["got", "sel"]], [["one", ["fn", "echo"], False]]]
                sc["steps"] = [{"label": lab, "inputs": [[k, (C(cls) if k == "cls" else e)] for k, e in src_inputs]
                                + [["f", C(False)], ["sel", C("one")]], "logic": ["fn", "bycls"]}, dep,
                               {"label": "000", "inputs": [["d", ["S", "dep", []]], ["w", ["H", lab, ["got", "n"], C("dflt")]]],
                                "logic": ["fn", "echo"]}]
                sc["cell"] = f"labels label={lab[:12]} site={site} src={cls}"
                yield sc
    # (2x) forEach whose inputs mapping ALSO defines the key named by inputKey (static / computed): the item wins
    for shadow in (C("static"), ["S", "src", ["got", "n"]], ["P", ["spec", "y"]]):
        for logic, key, items in ((["fn", "echo"], "item", ["a", "b", "c"]), (["fn", "bycls"], "cls", ["ok", "skip", "ok"]),
                                  (["fn", "bycls"], "cls", ["ok", "retry7"]),
                                  (["switch", ["I", ["item"]], [["one", ["fn", "echo"], False], ["two", ["fn", "null"], False]]],
                                   "item", ["one", "two", "one"])):
            sc = copy.deepcopy(base)
            sc["steps"] = [{"label": "src", "inputs": [[k, e] for k, e in src_inputs], "logic": ["fn", "bycls"]},
                           {"label": "fan", "inputs": [["w", C(1)], [key, copy.deepcopy(shadow)], ["cls", C("ok")]][: 3 if key != "cls" else 2],
                            "foreach": [C(items), key], "logic": copy.deepcopy(logic), "state": [["fan", ["V", []]]]},
                           {"label": "tail", "inputs": [["d", ["S", "fan", []]]], "logic": ["fn", "echo"]}]
            sc["cell"] = f"foreach-shadowed-key key={key} shadow={shadow[0]} items={'+'.join(items)}"
            yield sc
    # (2a) `steps` used AS A WHOLE: it must hold exactly the referenced steps (not more: no other step's, no other
    #      run's, no other workflow's values)
    for which in ("aaa", "bbb", "both", "none"):
        refs_in = {"aaa": [["x", ["S", "aaa", ["got", "v"]]]], "bbb": [["y", ["S", "bbb", ["got", "v"]]]],
                   "both": [["x", ["S", "aaa", ["got", "v"]]], ["y", ["S", "bbb", ["got", "v"]]]], "none": []}[which]
        whole = [["seen", ["SA"]], ["n", ["SZ"]], ["has_a", ["SI", "aaa"]], ["has_b", ["SI", "bbb"]], ["has_z", ["SI", "zzz"]]]
        sc = copy.deepcopy(base)
        sc["steps"] = [{"label": "aaa", "inputs": [["v", C(1)]], "logic": ["fn", "echo"]},
                       {"label": "bbb", "inputs": [["v", C(2)]], "logic": ["fn", "echo"]},
                       {"label": "ccc", "inputs": [["v", ["S", "bbb", ["got", "v"]]], ["w", ["S", "aaa", ["got"]]]], "logic": ["fn", "echo"]},
                       {"label": "ddd", "inputs": refs_in + whole, "logic": ["fn", "echo"], "state": [["d", ["V", ["got", "seen"]]]]},
                       {"label": "eee", "inputs": [["k", ["S", "ccc", ["got", "v"]]], ["seen", ["SA"]]],
                        "skip": ["SI", "aaa"], "logic": ["fn", "echo"]},
                       {"label": "fff", "inputs": [["k", ["S", "ddd", []]], ["sel", C("one")]],
                        "logic": ["switch", ["SZ"], [["one", ["fn", "echo"], True]]]}]
        sc["cell"] = f"whole-steps refs={which}"
        yield sc
    # (2b) composite Logic that does not finish Ok: a sub-workflow whose inner steps are all skipped / waiting /
    #      failed, a forEach with one non-Ok item — each with a dependent
    for inner in (["skip"], ["skip", "skip"], ["depskip"], ["retry7"], ["ok", "permfail"], ["skip", "ok"], ["ok"]):
        sc = copy.deepcopy(base)
        sc["subs"] = {"sub-c": {"steps": [{"label": f"in{i:02d}", "inputs": [["cls", C(w)], ["p", ["P", []]]], "logic": ["fn", "bycls"],
                                            "state": [[f"s{i}", ["V", ["got", "cls"]]]]} for i, w in enumerate(inner)]
                                + [{"label": "inzz", "inputs": [["a", ["S", "in00", []]]], "logic": ["fn", "echo"]}]}}
        sc["steps"] = [{"label": "child", "inputs": [["k", C(1)]], "logic": ["sub", "sub-c"]},
                       {"label": "after", "inputs": [["c", ["S", "child", []]]], "logic": ["fn", "echo"]}]
        sc["cell"] = f"composite sub inner={'+'.join(inner)}"
        yield sc
    for items in (["ok", "retry7", "ok"], ["ok", "ok", "retry30"], ["skip", "depskip"], ["ok", "permfail"], ["retry7", "permfail"],
                  ["retry7"], ["permfail"], ["skip"], ["depskip"], ["ok"], ["err"]):      # incl. single-item lists
        sc = copy.deepcopy(base)
        sc["steps"] = [{"label": "fan", "inputs": [["w", C(1)]], "foreach": [C(items), "cls"], "logic": ["fn", "bycls"]},
                       {"label": "after", "inputs": [["c", ["S", "fan", []]]], "logic": ["fn", "echo"]}]
        sc["cell"] = f"composite forEach items={'+'.join(items)}"
        yield sc
    # (3) refSwitch x forEach with switchOn on the item; (4) forEach with more than 10 items
    for n in (3, 12):
        for variant in ("sel", "kind"):
            sels = [["one", "two", "three", "zzz"][i % 4] for i in range(n)]
            sc = copy.deepcopy(base)
            sc["steps"] = [{"label": "fan", "inputs": [["cls", C("ok")], ["w", C("x")]],
                            "foreach": [C(sels if variant == "sel" else [{"kind": c, "n": i} for i, c in enumerate(sels)]),
                                        "sel" if variant == "sel" else "item"],
                            "logic": ["switch", ["I", ["sel"] if variant == "sel" else ["item", "kind"]],
                                      [["one", ["fn", "echo"], False], ["two", ["fn", "bycls"], False], ["three", ["fn", "null"], True]]],
                            "state": [["fan", ["V", []]]]},
                           {"label": "tail", "inputs": [["d", ["S", "fan", []]]], "logic": ["fn", "echo"]}]
            sc["cell"] = f"switch-per-item n={n} {variant}"
            yield sc
    for n in (11, 13, 15):
        for logic, key, items in ((["fn", "echo"], "item", [f"it{i}" for i in range(n)]),
                                  (["fn", "res"], "name", [f"obj-many-{i}" for i in range(n)])):
            for existing in ([], items[::2]) if key == "name" else ([],):
                sc = copy.deepcopy(base)
                sc["existing"] = list(existing) + (items if key == "name" and existing else [])
                sc["steps"] = [{"label": "many", "inputs": [["w", C(1)]], "foreach": [C(items), key], "logic": logic,
                                "state": [["many", ["V", []]]]},
                               {"label": "tail", "inputs": [["d", ["S", "many", []]]], "logic": ["fn", "echo"]}]
                sc["cell"] = f"forEach n={n} {logic[1]}"
                yield sc


def scenarios(ctx: Ctx):
    for c in corpus_cases("C01"):
        yield c
    # the special families exist because an independently seeded change needed them: they ALWAYS run in full,
    # at every tier (deterministic); only the grid and the random workflows are sampled at quick tier
    for sc in special_scenarios():
        yield sc
    grid = list(grid_scenarios())
    if ctx.quick():
        ctx.rng.shuffle(grid)
        grid = grid[:60]
    for sc in grid:
        yield sc
    for _ in range(100 if ctx.quick() else 4000):
        yield m.rand_scenario(ctx.rng)


def valid_steps(steps):
    seen = set()
    for s in steps:
        if s["label"] in seen or any(r not in seen for r in m.step_refs(s)):
            return False
        seen.add(s["label"])
    return True


def shrink(sc, sig):
    """drop steps while the same oracle failure remains"""
    def still(steps):
        if not steps or not valid_steps(steps):
            return False
        c = copy.deepcopy(sc)
        c["steps"] = copy.deepcopy(steps)
        o = m.run(c)
        return any(f[0] == sig for f in oracle(c, o))
    if sc.get("broken") or not valid_steps(sc["steps"]):
        return sc
    small = copy.deepcopy(sc)
    small["steps"] = shrink_list(sc["steps"], still)
    return small


def run_one(ctx: Ctx, sc, do_shrink=True):
    o = m.run(sc)
    fails = [] if m.shares_objects(o) else oracle(sc, o)
    seen = set()
    for sig, what, _ in fails:
        if sig in seen:
            continue
        seen.add(sig)
        small = shrink(sc, sig) if (do_shrink and len(seen) <= 2) else sc
        o2 = m.run(small) if small is not sc else o
        ctx.fail(Failure(signature=sig, what=what, case=small,
                         observed={"outcomes": o2["outcomes"], "trace": o2["trace"],
                                   "calls": [(c["method"], c["name"], c["path"]) for c in o2["calls"]],
                                   "result": o2["top"]}))
    return o


def correspond(ctx: Ctx, name, cases, terms, shard=40, jobs=4):
    """ctx.correspond with smaller shards (each case is a whole workflow run: ~70 ms in coqc)"""
    t0 = time.time()
    bad, err = eval_cases("Corr_C01", terms, ctx.workdir / "coq", shard=shard, jobs=jobs)
    ctx.traces += len(terms) if not err else 0
    ctx.count(f"corr:{name}:cases", len(terms))
    ctx.dist[f"corr:{name}:secs"] = round(time.time() - t0, 1)
    if err:
        ctx.corr_errors.append(f"{name}: {err}")
    for i in sorted(bad):
        ctx.mismatch(name, cases[i])
    return bad


def run(ctx: Ctx):
    cases, terms = [], []
    for sc in scenarios(ctx):
        o = run_one(ctx, sc)
        if "raised" in o["top"]:
            continue
        if m.shares_objects(o):
            ctx.count("discarded:two-evaluations-share-an-object")      # outside the hypothesis (generator slip)
            continue
        n_edges = sum(len(m.step_refs(s)) for s in sc["steps"])
        ctx.note_case({"steps": sc["steps"], "subs": sc.get("subs"), "existing": sc.get("existing"), "trigger": sc["trigger"]},
                      nontrivial=len(sc["steps"]) >= 2 and n_edges >= 1 and len(o["trace"]) >= 1)
        ctx.count("kind:" + (sc["cell"].split(" ")[0] if "cell" in sc and not sc["cell"].startswith("dep=") else
                             ("grid" if "cell" in sc else "random")))
        ctx.count(f"steps:{min(len(sc['steps']), 20)}")
        ctx.count("result:" + o["top"]["result"]["cls"])
        ctx.count("broken:" + str(sc.get("broken")))
        for _, out, _ in o["outcomes"]:
            ctx.count("step-outcome:" + out["cls"])
        ctx.count("evaluations-of-logic", len(o["trace"]))
        ctx.count("nested-evaluations", len([t for t in o["trace"] if len(t["path"]) > 1]))
        ctx.count("api-calls", len(o["calls"]))
        for s in sc["steps"]:
            ctx.count("logic:" + s["logic"][0] + (":" + s["logic"][1] if s["logic"][0] != "switch" and s["logic"][1] in m.FUNCTIONS else ""))
            if s.get("foreach"):
                ctx.count("forEach")
            if s.get("skip") is not None:
                ctx.count("skipIf")
        cases.append(sc)
        terms.append(m.c_case(sc, o))
    if ctx.model_ok:
        correspond(ctx, "reconcile_workflow vs Workflow.run_workflow", cases, terms)


def replay(ctx: Ctx, data):
    sc = data["case"] if "case" in data else data
    o = run_one(ctx, sc, do_shrink=False)
    ctx.note_case(sc, True)
    if ctx.model_ok and "raised" not in o["top"]:
        correspond(ctx, "replay", [sc], [m.c_case(sc, o)])
