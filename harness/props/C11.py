"""C11 — static values in definitions reach results and resources unchanged.

Real code: koreo.cel.encoder.encode_cel / convert_bools, koreo.cel.prepare.prepare_expression,
koreo.cel.evaluation.evaluate, koreo.value_function.{prepare,reconcile}; third party: cel-python
0.3.0 (lark grammar + celstr un-escaping).  Models: coq/model/Encode.v (encoder), coq/model/CelLit.v
(lexer / parser / literal evaluation of the texts the encoder emits and of near misses).
"""
from __future__ import annotations

import asyncio
import copy
import json
import math
import re
import struct
from fractions import Fraction

import common
from common import (Ctx, Failure, cjson, clist, copt, cpair, cstr, cz, corpus_cases, float_dyadic,
                    shrink_list)

COQ_TARGETS = ["props/P_C11.vo", "corr/Corr_C11.vo"]
PROOF_FILES = ["proofs/Encode_proofs.v"]
RULE = ("JSON values built from an adversarial alphabet (quotes, backslashes, \\n \\r \\t, other C0 controls, DEL, "
        "NEL, U+2028, blanks, digits, e E . + - _, inf/nan, non-ASCII incl. non-ASCII digits and astral characters), "
        "numerals drawn from the documented grammar and near misses of it, boundary integers (+-2^63), finite floats "
        "from random bit patterns, nested lists/maps with special keys; each value is encoded, compiled and evaluated "
        "by the real code (directly, as map key, inside a list, as the return / locals of a real ValueFunction, and as "
        "the resource of a real ResourceFunction whose POST body is read off an in-memory API double; also in the "
        "every position of every ordered combination of two / three inline and overlayRef (ValueFunction) overlays "
        "(POST and PATCH body), in create.overlay (each with other static values in resource / labels / the other "
        "overlays that must arrive too), and in the inputs / state of a step of a "
        "real one-step Workflow; on the UPDATE path: object created, drifted at one other path, PATCH body read, "
        "with the literal also under a literally written ownerReferences key; and through the real cache: a "
        "ResourceFunction / Workflow with a ValueFunction dependency offered twice with different static values, "
        "then re-prepared by koreo after the dependency is updated); maps holding Python-equal but JSON-different "
        "twin leaves (1 / true / 1.0, 0 / false, [1] / [true] ...) side by side or in nested maps, compared type-exactly; "
        "static metadata.ownerReferences lists (absent, empty, 1, 2+ entries with distinct / equal / no uids, one equal to "
        "the parent) of a ResourceFunction that is owned in the parent's namespace, owned in another namespace, unowned, or "
        "adopted by a later PATCH: every written entry must arrive in order, the parent's reference appended exactly when owned there; "
        "map keys drawn also from near misses of the three x-koreo-* directive names (only the three exact names may "
        "be missing from an object sent to the cluster); "
        "encoder outputs plus random mutations of them are lexed/parsed/evaluated by real celpy and by the model. "
        "A case is non-trivial when it contains a character that needs quoting, a numeral look-alike or a container; "
        "distinct by content")
ASSUMPTIONS = [
    "string VALUES do not start with '=' (those are CEL expressions by definition); keys may",
    "integers are int64; floats are finite; a numeral string with no fraction/exponent denotes an int64 and one "
    "with fraction/exponent denotes a finite double (otherwise CEL itself cannot hold the number)",
    "repr(float) is a numeral with fraction or exponent and float(repr(x)) == x (Section hypotheses fprint_numeral / "
    "fprint_parse; both are re-checked by the model on every float text CPython produced in a run)",
    "lark/celpy tokenisation, LALR parse and celstr/IntType/DoubleType evaluation of literal texts are as modelled "
    "in CelLit.v (hand-written from their sources; validated only by the correspondence check, which also feeds "
    "mutated texts; texts outside the modelled fragment are counted as skipped, not as agreement)",
    "no lone surrogates in strings (they have no UTF-8 form); the sign of a float zero is not represented",
]
TRUSTED = ["Python restatement of norm() and of the comparison in the oracle (type-exact, except that a numeral "
           "string may arrive as an int or float of equal value)"]

try:                    # the ResourceFunction / POST-body route needs the API double harness/cluster.py
    import cluster as _cluster  # noqa: F401
    import drivers as _drivers  # noqa: F401
    RF_AVAILABLE = True
except Exception:       # pragma: no cover
    RF_AVAILABLE = False

NUMERAL = re.compile(r"-?[0-9]+(\.[0-9]+)?([eE][+-]?[0-9]+)?")      # the documented grammar, restated by hand
INT_NUMERAL = re.compile(r"-?[0-9]+")

_ENV = None
_LOOP = None


def env():
    global _ENV
    if _ENV is None:
        import celpy
        _ENV = celpy.Environment()
    return _ENV


def loop():
    global _LOOP
    if _LOOP is None:
        _LOOP = asyncio.new_event_loop()
    return _LOOP


# ---- running the real code ---------------------------------------------------------------------

def real_encode(v):
    from koreo.cel.encoder import encode_cel
    return encode_cel(v)


def json_shaped(v):
    if v is None or isinstance(v, (bool, str)):
        return not isinstance(v, str) or _utf8_ok(v)
    if isinstance(v, int):
        return True
    if isinstance(v, float):
        return math.isfinite(v)
    if isinstance(v, list):
        return all(json_shaped(x) for x in v)
    if isinstance(v, dict):
        return all(type(k) is str and _utf8_ok(k) and json_shaped(x) for k, x in v.items())
    return False


def _utf8_ok(s):
    try:
        s.encode("utf-8")
        return True
    except UnicodeEncodeError:
        return False


def real_eval_text(text):
    """compile + evaluate + convert_bools of a CEL text -> ("val", v) | ("parse",) | ("eval",) | ("other",) | ("raise",)"""
    import celpy
    from koreo.cel.encoder import convert_bools
    from koreo.cel.evaluation import evaluate
    from koreo.cel.functions import koreo_cel_functions
    from koreo.result import PermFail
    try:
        ast = env().compile(text)
    except celpy.CELParseError:
        return ("parse",)
    except AssertionError:       # lark's get_context on a position-less BOOL_LIT token (see notes)
        return ("parse",)
    prog = env().program(ast, functions=koreo_cel_functions)
    try:
        out = evaluate(prog, {}, "c11")
    except Exception:
        # evaluate() itself raised: celpy's tree_dump fails with IndexError while an evaluation error (of
        # `1[2]`, or of a bad octal escape in `{"\858":{}}`) is being reported; see notes.  The model may
        # decline the text or call it an evaluation error.
        return ("raise",)
    if isinstance(out, PermFail):
        return ("eval",)
    v = convert_bools(out)
    if not json_shaped(v):
        return ("other",)
    return ("val", v)


def real_roundtrip(v):
    """prepare_expression + evaluate + convert_bools -> ("ok", value) | ("prepfail"|"evalfail"|"raises", info)"""
    from koreo.cel.encoder import convert_bools
    from koreo.cel.evaluation import evaluate
    from koreo.cel.prepare import prepare_expression
    from koreo.result import PermFail
    try:
        prog = prepare_expression(env(), v, "c11")
    except Exception as e:
        return ("raises", type(e).__name__)
    if prog is None:
        return ("none", None)
    if isinstance(prog, PermFail):
        return ("prepfail", None)
    out = evaluate(prog, {}, "c11")
    if isinstance(out, PermFail):
        return ("evalfail", None)
    return ("ok", convert_bools(out))


def real_value_function(block, v):
    """A real ValueFunction whose `return` (block="return") or `locals` (block="locals") holds the literal
    under key "v"; returns ("ok", delivered value) or a failure class."""
    from koreo import registry
    from koreo.cel.encoder import convert_bools
    from koreo.result import is_unwrapped_ok
    from koreo.value_function import prepare, reconcile
    import celpy

    spec = {"return": {"v": v}} if block == "return" else {"locals": {"v": v}, "return": {"v": "=locals.v"}}

    async def go():
        prepared = await prepare.prepare_value_function(cache_key="c11", spec=spec)
        if not is_unwrapped_ok(prepared):
            return ("prepfail", None)
        fn, _ = prepared
        out = await reconcile.reconcile_value_function(location="c11", function=fn,
                                                       inputs=celpy.json_to_cel({}))
        if not is_unwrapped_ok(out):
            return ("evalfail", None)
        plain = convert_bools(out)
        if not isinstance(plain, dict) or "v" not in plain or len(plain) != 1:
            return ("shape", plain)
        return ("ok", plain["v"])

    try:
        return loop().run_until_complete(go())
    except Exception as e:
        return ("raises", type(e).__name__)
    finally:
        if hasattr(registry, "_reset_registries"):
            registry._reset_registries()


def real_resource_function_post(v):
    """A real ResourceFunction whose `resource` holds the literal under spec.v, reconciled against the in-memory
    API double: returns ("ok", the value under spec.v in the POSTed body) or a failure class."""
    import drivers
    drivers.reset_all()
    spec = {"apiConfig": {"apiVersion": "example.dev/v1", "kind": "Widget", "plural": "widgets", "name": "w",
                          "namespace": "default", "owned": False},
            "resource": {"metadata": {"labels": dict(LABELS)}, "spec": {"v": v}},
            "create": {"delay": 1}}
    try:
        p = drivers.run_async(drivers.prepare_rf("rf-c11", spec))
        fn, err = drivers.unwrap_prepared(p)
        if fn is None:
            return ("prepfail", None)
        cl = drivers.Cluster()
        drivers.run_async(drivers.reconcile_rf(fn, {}, cl))
        posts = [c for c in cl.calls if c["method"] == "POST"]
        if not posts:
            return ("evalfail", None)
        body = posts[0]["body"]
        if not isinstance(body, dict) or not isinstance(body.get("spec"), dict) or set(body["spec"]) != {"v"}:
            return ("shape", body)
        for k, x in LABELS.items():
            if _at(body, ("metadata", "labels", k)) != ("ok", x):
                return ("sibling-static-value-lost-from-POST-body:metadata.labels." + k, None)
        return ("ok", body["spec"]["v"])
    except Exception as e:
        return ("raises", type(e).__name__)
    finally:
        drivers.reset_all()


RF_API = {"apiVersion": "example.dev/v1", "kind": "Widget", "plural": "widgets", "name": "w",
          "namespace": "default", "owned": False}
# other static values written next to the literal under test; they must arrive as written too
SIDE = {"base": "from resource", "o2": ["second", 2, None], "o3": "third \\ \"x\""}


def _rf_reconcile(spec, value_functions=None):
    """prepare + reconcile a real ResourceFunction against the API double; -> ("ok", POST body) | failure class"""
    import drivers

    async def go():
        from koreo import cache
        from koreo.value_function.prepare import prepare_value_function
        from koreo.value_function.structure import ValueFunction
        for name, vf_spec in (value_functions or {}).items():
            p = await cache.prepare_and_cache(ValueFunction, prepare_value_function,
                                              {"name": name, "resourceVersion": "1"}, vf_spec)
            if not isinstance(p, ValueFunction):
                return ("prepfail", None)
        fn, err = drivers.unwrap_prepared(await drivers.prepare_rf("rf-c11", spec))
        if fn is None:
            return ("prepfail", None)
        cl = drivers.Cluster()
        await drivers.reconcile_rf(fn, {}, cl)
        posts = [c for c in cl.calls if c["method"] == "POST"]
        if not posts:
            return ("evalfail", None)
        return ("ok", posts[0]["body"])

    drivers.reset_all()
    try:
        return drivers.run_async(go())
    except Exception as e:
        return ("raises", type(e).__name__)
    finally:
        drivers.reset_all()


def _at(body, path):
    for k in path:
        if not isinstance(body, dict) or k not in body:
            return ("missing", None)
        body = body[k]
    return ("ok", body)


def _rf_observe(spec, sides, value_functions=None):
    """-> ("ok", value at spec.v of the POST body); ("side", which) if one of the other static values written in
    resource / later overlays did not arrive as written"""
    st, body = _rf_reconcile(spec, value_functions)
    if st != "ok":
        return (st, body)
    st2, got = _at(body, ("spec", "v"))
    if st2 != "ok":
        return ("missing-from-POST-body", None)
    for path, want in sides:
        st3, other = _at(body, path)
        if st3 != "ok" or delivered_ok(want, other) is not None:
            return ("sibling-static-value-lost:" + ".".join(path), other)
    return ("ok", got)


DIRECTIVES = ("x-koreo-compare-as-set", "x-koreo-compare-as-map", "x-koreo-compare-last-applied")
# keys that look like the three documented directive names but are ordinary user data
NEAR_DIRECTIVE_KEYS = ["x-koreo-team", "x-koreo-note", "x-koreo-", "x-koreo", "x-koreo-compare-as-setx",
                       "x-koreo-compare-as-set ", " x-koreo-compare-as-map", "X-KOREO-COMPARE-AS-SET",
                       "x_koreo_compare_as_set", "my-x-koreo-compare-as-set", "x-koreo-compare-as-set-not",
                       "x-koreo-compare-last-applied.", "x-koreo-compare", "x-koreo-compare-as-",
                       "koreo-compare-as-map", "x-koreo-compare-as-map/v2"]
CHAIN_SIDES = [{"x-koreo-note": "kept", "n": 1, "l": [{"x-koreo-team": "in a list item"}]},
               ["second", 2, None], "third \\ \"x\""]
LABELS = {"x-koreo-team": "platform", "x-koreo-": "bare prefix", "tier": "backend"}


def strip_exact_directives(v):
    """what a ResourceFunction may legitimately leave out of the object it sends: exactly the three documented
    directive keys (at any depth), nothing else"""
    if isinstance(v, dict):
        return {k: strip_exact_directives(x) for k, x in v.items() if k not in DIRECTIVES}
    if isinstance(v, list):
        return [strip_exact_directives(x) for x in v]
    return v


def chain_route(kinds, pos):
    return "rf-overlays:" + ",".join(kinds) + f"@{pos}"


def parse_chain_route(route):
    kinds, pos = route[len("rf-overlays:"):].split("@")
    return tuple(kinds.split(",")), int(pos)


CHAIN_ROUTES = tuple(chain_route(kinds, pos)
                     for n in (2, 3)
                     for kinds in __import__("itertools").product(("inline", "ref"), repeat=n)
                     for pos in range(n))


def _check_body(body, v, sides, what):
    st2, got = _at(body, ("spec", "v"))
    if st2 != "ok":
        return (f"missing-from-{what}-body", None)
    for path, want in sides:
        st3, other = _at(body, path)
        if st3 != "ok" or delivered_ok(strip_exact_directives(want), other) is not None:
            return (f"sibling-static-value-lost-from-{what}-body:" + ".".join(path), other)
    return ("ok", got)


def real_rf_overlay_chain(kinds, pos, v):
    """spec.overlays = an ordered combination of inline overlays and overlayRef (ValueFunction) overlays; the
    overlay at position `pos` writes the literal to spec.v, every other one writes its own static value to
    spec.s<i>, `resource` writes spec.base and metadata.labels.  The POST body must carry all of them; then the
    stored object drifts at spec.base and the PATCH body must carry all of them too."""
    import drivers
    overlays, vfs = [], {}
    sides = [(("spec", "base"), SIDE["base"])] + [(("metadata", "labels", k), x) for k, x in LABELS.items()]
    for i, k in enumerate(kinds):
        key, val = ("v", v) if i == pos else (f"s{i}", CHAIN_SIDES[i])
        if k == "inline":
            overlays.append({"overlay": {"spec": {key: val}}})
        else:
            vfs[f"c11-ov-{i}"] = {"return": {"spec": {key: val}}}
            overlays.append({"overlayRef": {"kind": "ValueFunction", "name": f"c11-ov-{i}"}})
        if i != pos:
            sides.append((("spec", f"s{i}"), val))
    spec = {"apiConfig": dict(RF_API),
            "resource": {"metadata": {"labels": dict(LABELS)}, "spec": {"base": SIDE["base"]}},
            "overlays": overlays, "create": {"delay": 1}}

    async def go():
        from koreo import cache
        from koreo.value_function.prepare import prepare_value_function
        from koreo.value_function.structure import ValueFunction
        for name, vf_spec in vfs.items():
            p = await cache.prepare_and_cache(ValueFunction, prepare_value_function,
                                              {"name": name, "resourceVersion": "1"}, vf_spec)
            if not isinstance(p, ValueFunction):
                return ("prepfail", None, None)
        fn, err = drivers.unwrap_prepared(await drivers.prepare_rf("rf-c11", spec))
        if fn is None:
            return ("prepfail", None, None)
        cl = drivers.Cluster()
        await drivers.reconcile_rf(fn, {}, cl)
        posts = [c for c in cl.calls if c["method"] == "POST"]
        if not posts:
            return ("evalfail", None, None)
        patch_body = None
        try:
            obj = next(iter(cl.objects.values()))
            obj["spec"]["base"] = "drifted"
            await drivers.reconcile_rf(fn, {}, cl)
            patches = [c for c in cl.calls if c["method"] == "PATCH"]
            if len(patches) == 1:
                patch_body = patches[0]["body"]
        except Exception as e:       # comparison trouble on the update path is C04/C05's matter
            NOT_OBSERVABLE[f"rf-overlays (PATCH half): raises {type(e).__name__}"] = \
                NOT_OBSERVABLE.get(f"rf-overlays (PATCH half): raises {type(e).__name__}", 0) + 1
        return ("ok", posts[0]["body"], patch_body)

    drivers.reset_all()
    try:
        st, post_body, patch_body = drivers.run_async(go())
    except Exception as e:
        return ("raises", type(e).__name__)
    finally:
        drivers.reset_all()
    if st != "ok":
        return (st, None)
    r = _check_body(post_body, v, sides, "POST")
    if r[0] != "ok" or patch_body is None:
        return r
    r2 = _check_body(patch_body, v, sides, "PATCH")
    if r2[0] != "ok" or delivered_ok(strip_exact_directives(v), r2[1]) is not None:
        return r2
    return r


def real_rf_create_overlay(v):
    spec = {"apiConfig": dict(RF_API), "resource": {"spec": {"base": SIDE["base"]}},
            "overlays": [{"overlay": {"spec": {"o2": SIDE["o2"]}}}],
            "create": {"delay": 1, "overlay": {"spec": {"v": v}}}}
    return _rf_observe(spec, [(("spec", "base"), SIDE["base"]), (("spec", "o2"), SIDE["o2"])])


OWNER_REFS = [{"apiVersion": "v1", "kind": "Other", "name": "o", "uid": "u-1"}]


def real_rf_patch(where, v):
    """UPDATE path: the object is created (POST), then drifts at ONE other path (a sibling of a literally written
    `ownerReferences` key: in spec.template.metadata for where="nested", in metadata.labels for where="metadata"),
    so the next pass issues a PATCH; the literal is at spec.v and under spec.template.metadata.ownerReferences,
    a literal owner-reference list under metadata.ownerReferences (owned: false).  -> ("ok", spec.v of the PATCH
    body) | failure class; ("n/a", why) when no PATCH could be observed (comparison matters belong to C04/C05)."""
    import drivers
    spec = {"apiConfig": dict(RF_API),
            "resource": {"metadata": {"labels": {"drift": "target"}, "ownerReferences": OWNER_REFS},
                         "spec": {"v": v, "base": SIDE["base"],
                                  "template": {"metadata": {"ownerReferences": v, "drift": "target"}}}},
            "create": {"delay": 1}}

    async def go():
        fn, err = drivers.unwrap_prepared(await drivers.prepare_rf("rf-c11", spec))
        if fn is None:
            return ("prepfail", None)
        cl = drivers.Cluster()
        await drivers.reconcile_rf(fn, {}, cl)
        if [c["method"] for c in cl.calls] != ["GET", "POST"] or len(cl.objects) != 1:
            return ("n/a", "no create")
        obj = next(iter(cl.objects.values()))
        try:
            if where == "nested":
                obj["spec"]["template"]["metadata"]["drift"] = "drifted"
            else:
                obj["metadata"]["labels"]["drift"] = "drifted"
        except (KeyError, TypeError):
            return ("n/a", "stored object has another shape")
        await drivers.reconcile_rf(fn, {}, cl)
        patches = [c for c in cl.calls if c["method"] == "PATCH"]
        if len(patches) != 1:
            return ("n/a", "no patch")
        return ("ok", patches[0]["body"])

    drivers.reset_all()
    try:
        st, body = drivers.run_async(go())
    except Exception as e:
        return ("n/a", "raises " + type(e).__name__)
    finally:
        drivers.reset_all()
    if st != "ok":
        return (st, body)
    st2, got = _at(body, ("spec", "v"))
    if st2 != "ok":
        return ("missing-from-PATCH-body", None)
    for path, want in [(("spec", "template", "metadata", "ownerReferences"), v),
                       (("metadata", "ownerReferences"), OWNER_REFS),
                       (("spec", "base"), SIDE["base"]),
                       (("spec", "template", "metadata", "drift"), "target"),
                       (("metadata", "labels", "drift"), "target")]:
        st3, other = _at(body, path)
        if st3 != "ok" or delivered_ok(strip_exact_directives(want), other) is not None:
            kind = "literal-lost-from-PATCH-body:" if want is v else "sibling-static-value-lost-from-PATCH-body:"
            return (kind + ".".join(path), other)
    return ("ok", got)


PARENT = {"apiVersion": "v1", "kind": "Parent", "name": "parent", "uid": "uid-parent",
          "blockOwnerDeletion": True, "controller": False}
OWNERSHIPS = ("owned-same-ns", "owned-other-ns", "unowned", "adopt")
REF_VARIANTS = ("absent", "empty", "one", "two-distinct-uids", "two-equal-uids", "two-without-uid",
                "three-mixed", "includes-the-parent")
OWNER_REF_ROUTES = tuple(f"rf-owner-refs:{o}:{r}" for o in OWNERSHIPS for r in REF_VARIANTS)


def static_owner_refs(variant, v):
    """the literally written metadata.ownerReferences list of the variant (None = key not written); the literal
    under test rides along as an extra field of the first entry"""
    def ref(kind, name, uid=None, **extra):
        r = {"apiVersion": "v1", "kind": kind, "name": name}
        if uid is not None:
            r["uid"] = uid
        r.update(extra)
        return r
    return {
        "absent": None,
        "empty": [],
        "one": [ref("ConfigMap", "first", "uid-a", note=v)],
        "two-distinct-uids": [ref("ConfigMap", "first", "uid-a", note=v), ref("Secret", "second", "uid-b")],
        "two-equal-uids": [ref("ConfigMap", "first", "uid-a", note=v), ref("Secret", "second", "uid-a")],
        "two-without-uid": [ref("ConfigMap", "first", note=v), ref("Secret", "second")],
        "three-mixed": [ref("ConfigMap", "first", "uid-a", note=v), ref("Secret", "second"),
                        ref("Widget", "third", "uid-a"), ref("Widget", "fourth")],
        "includes-the-parent": [ref("ConfigMap", "first", "uid-a", note=v),
                                ref("Parent", "parent", "uid-parent", controller=False)],
    }[variant]


def real_rf_owner_refs(ownership, variant, v):
    """A ResourceFunction whose static `resource` writes metadata.ownerReferences (0, 1, 2+ entries; distinct, equal
    or no uids) and the literal at spec.v, created as an owned resource in the parent's namespace / in another
    namespace / unowned; "adopt" = created while the parent is in another namespace, then reconciled with the
    parent in the same namespace, which PATCHes the parent in.  Every literally written entry must arrive, in
    order; the parent's reference is appended exactly when the resource is owned in the parent's namespace and no
    entry carries the parent's uid.  -> ("ok", spec.v) | failure class"""
    import drivers
    refs = static_owner_refs(variant, v)
    metadata = {"labels": dict(LABELS)}
    if refs is not None:
        metadata["ownerReferences"] = refs
    spec = {"apiConfig": {**RF_API, "owned": ownership != "unowned"},
            "resource": {"metadata": metadata, "spec": {"v": v, "base": SIDE["base"]}},
            "create": {"delay": 1}}
    same = ("default", dict(PARENT))
    other = ("elsewhere", dict(PARENT))

    def expected(owned_here):
        want = strip_exact_directives(refs) if refs is not None else None
        if owned_here and not any(r.get("uid") == PARENT["uid"] for r in (refs or [])):
            want = (want or []) + [dict(PARENT)]
        return want

    async def go():
        fn, err = drivers.unwrap_prepared(await drivers.prepare_rf("rf-c11", spec))
        if fn is None:
            return ("prepfail", None)
        cl = drivers.Cluster()
        first_owner = same if ownership in ("owned-same-ns", "unowned") else other
        await drivers.reconcile_rf(fn, {}, cl, owner=first_owner)
        posts = [c for c in cl.calls if c["method"] == "POST"]
        if not posts:
            return ("evalfail", None)
        out = [("POST", posts[0]["body"], expected(ownership == "owned-same-ns"))]
        if ownership == "adopt":
            try:
                await drivers.reconcile_rf(fn, {}, cl, owner=same)
                patches = [c for c in cl.calls if c["method"] == "PATCH"]
                if len(patches) == 1:
                    out.append(("PATCH", patches[0]["body"], expected(True)))
                elif variant != "includes-the-parent":
                    return ("the-parent-is-not-patched-in", None)
            except Exception as e:
                NOT_OBSERVABLE[f"rf-owner-refs (PATCH half): raises {type(e).__name__}"] = \
                    NOT_OBSERVABLE.get(f"rf-owner-refs (PATCH half): raises {type(e).__name__}", 0) + 1
        return ("ok", out)

    drivers.reset_all()
    try:
        st, out = drivers.run_async(go())
    except Exception as e:
        return ("raises", type(e).__name__)
    finally:
        drivers.reset_all()
    if st != "ok":
        return (st, out)
    got_v = None
    for what, body, want_refs in out:
        st2, got = _at(body, ("spec", "v"))
        if st2 != "ok":
            return (f"missing-from-{what}-body", None)
        got_v = got if got_v is None else got_v
        st3, got_refs = _at(body, ("metadata", "ownerReferences"))
        if want_refs is None:
            if st3 == "ok":
                return (f"unwritten-ownerReferences-in-{what}-body", got_refs)
        elif st3 != "ok" or delivered_ok(want_refs, got_refs) is not None:
            return (f"static-ownerReferences-not-as-written-in-{what}-body", got_refs)
        for k, x in LABELS.items():
            if _at(body, ("metadata", "labels", k)) != ("ok", x):
                return (f"sibling-static-value-lost-from-{what}-body:metadata.labels." + k, None)
        if what == "PATCH" and delivered_ok(strip_exact_directives(v), got) is not None:
            return ("ok", got)
    return ("ok", got_v)


def real_cache_reprepare(kind, v):
    """Through the real cache: a dependency V (ValueFunction) and a definition F that references it (kind="rf": a
    ResourceFunction with V as overlayRef; kind="wf": a Workflow whose step calls V) are offered with
    prepare_and_cache; F is offered again with NEW static values (new resourceVersion); then V is offered again (new
    resourceVersion) and the loop is yielded to until koreo has re-prepared F.  At each stage the definition
    currently in force is evaluated; the literal is {"gen": <generation>, "lit": v}.
    -> ("ok", value delivered by the LAST stage with "gen" checked) | failure class"""
    import drivers

    def lit(gen):
        return {"gen": gen, "lit": v}

    async def go():
        import celpy
        from koreo import cache
        from koreo.cel.encoder import convert_bools
        from koreo.resource_function.prepare import prepare_resource_function
        from koreo.resource_function.structure import ResourceFunction
        from koreo.value_function.prepare import prepare_value_function
        from koreo.value_function.structure import ValueFunction
        from koreo.workflow.prepare import prepare_workflow
        from koreo.workflow.reconcile import reconcile_workflow
        from koreo.workflow.structure import Workflow
        owner = ("default", {"apiVersion": "v1", "kind": "Parent", "name": "parent", "uid": "uid-parent",
                             "blockOwnerDeletion": True, "controller": False})
        if kind == "rf":
            cls, prep, name = ResourceFunction, prepare_resource_function, "c11-cached-rf"
            dep_spec = {"return": {"spec": {"dep": "=inputs.tag"}}}

            def f_spec(gen):
                return {"apiConfig": dict(RF_API), "resource": {"spec": {"v": lit(gen)}},
                        "overlays": [{"overlayRef": {"kind": "ValueFunction", "name": "c11-dep"},
                                      "inputs": {"tag": "static tag"}}],
                        "create": {"delay": 1}, "return": {"v": lit(gen)}}
        else:
            cls, prep, name = Workflow, prepare_workflow, "c11-cached-wf"
            dep_spec = {"return": {"got": "=inputs"}}

            def f_spec(gen):
                return {"steps": [{"label": "lit", "ref": {"kind": "ValueFunction", "name": "c11-dep"},
                                   "inputs": {"v": lit(gen)}, "state": {"v": lit(gen)}}]}

        async def offer_dep(rv):
            p = await cache.prepare_and_cache(ValueFunction, prepare_value_function,
                                              {"name": "c11-dep", "resourceVersion": rv}, copy.deepcopy(dep_spec))
            return isinstance(p, ValueFunction)

        async def evaluate_current():
            """every place the literal of the definition in force shows up: [(where, value)]"""
            f = cache.get_resource_from_cache(resource_class=cls, cache_key=name)
            if not isinstance(f, cls):
                return None
            if kind == "rf":
                cl = drivers.Cluster()
                await drivers.reconcile_rf(f, {}, cl)
                posts = [c for c in cl.calls if c["method"] == "POST"]
                if not posts:
                    return None
                body = posts[0]["body"]
                out = [("POST body spec.v", _at(body, ("spec", "v")))]
                ann = _at(body, ("metadata", "annotations", "koreo.dev/last-applied-configuration"))
                if ann[0] == "ok":
                    out.append(("last-applied annotation spec.v", _at(json.loads(ann[1]), ("spec", "v"))))
                return out
            res = await reconcile_workflow(api=drivers.Cluster(), workflow_key=name, owner=owner,
                                           trigger=celpy.json_to_cel({}), workflow=f)
            if not isinstance(res.result, list):
                return None
            r = convert_bools(res.result)
            return [("step result got.v", _at(r[0], ("got", "v")) if r else ("missing", None)),
                    ("workflow state v", _at(convert_bools(res.state), ("v",)))]

        def judge(stage, gen, obs):
            if obs is None:
                return ("evalfail", None)
            for where, (st, got) in obs:
                if st != "ok":
                    return (f"{stage}: missing-from-{where}", None)
                if isinstance(got, dict) and got.get("gen") != gen:
                    return (f"{stage}: {where} shows the static values of generation {got.get('gen')!r} "
                            f"instead of {gen}", got)
                if not isinstance(got, dict) or set(got) != {"gen", "lit"}:
                    return (f"{stage}: shape", got)
            return None

        if not await offer_dep("1"):
            return ("prepfail", None)
        for gen in (1, 2):
            p = await cache.prepare_and_cache(cls, prep, {"name": name, "resourceVersion": str(gen)}, f_spec(gen))
            if not isinstance(p, cls):
                return ("prepfail", None)
            bad = judge(f"after offering generation {gen}", gen, await evaluate_current())
            if bad:
                return bad
        before = cache.get_resource_from_cache(resource_class=cls, cache_key=name)
        if not await offer_dep("2"):
            return ("prepfail", None)
        reprepared = False
        for _ in range(80):
            await asyncio.sleep(0)
            if cache.get_resource_from_cache(resource_class=cls, cache_key=name) is not before:
                reprepared = True
                for _ in range(10):
                    await asyncio.sleep(0)
                break
        if not reprepared:
            return ("n/a", "the definition was not re-prepared")
        obs = await evaluate_current()
        bad = judge("after its dependency was updated (re-prepared from the cache)", 2, obs)
        if bad:
            return bad
        return ("ok", obs[0][1][1]["lit"], [o[1][1]["lit"] for o in obs[1:]])

    drivers.reset_all()
    try:
        r = drivers.run_async(go())
    except Exception as e:
        return ("raises", type(e).__name__)
    finally:
        drivers.reset_all()
    if r[0] != "ok":
        return r
    want = strip_exact_directives(v) if kind == "rf" else v
    for other in r[2]:                       # the same literal seen at the other observation points
        if delivered_ok(want, other) is not None:
            return ("ok", other)
    return ("ok", r[1])


def real_workflow(block, v):
    """a one-step real Workflow: the literal in the step's `inputs` (read back from the echo function's result)
    or in its `state` (read back from the Workflow's state)"""
    import drivers

    async def go():
        import celpy
        from koreo import cache
        from koreo.value_function.prepare import prepare_value_function
        from koreo.value_function.structure import ValueFunction
        from koreo.workflow.prepare import prepare_workflow
        from koreo.workflow.reconcile import reconcile_workflow
        from koreo.workflow.structure import Workflow
        p = await cache.prepare_and_cache(ValueFunction, prepare_value_function,
                                          {"name": "c11-echo", "resourceVersion": "1"},
                                          {"return": {"got": "=inputs"}})
        if not isinstance(p, ValueFunction):
            return ("prepfail", None)
        step = {"label": "lit", "ref": {"kind": "ValueFunction", "name": "c11-echo"}, "inputs": {"side": SIDE["o3"]}}
        step["inputs" if block == "inputs" else "state"] = (
            {"v": v, "side": SIDE["o3"]} if block == "inputs" else {"v": v})
        wf = await cache.prepare_and_cache(Workflow, prepare_workflow, {"name": "c11-wf", "resourceVersion": "1"},
                                           {"steps": [step]})
        if not isinstance(wf, Workflow):
            return ("prepfail", None)
        owner = ("default", {"apiVersion": "v1", "kind": "Parent", "name": "parent", "uid": "uid-parent",
                             "blockOwnerDeletion": True, "controller": False})
        res = await reconcile_workflow(api=drivers.Cluster(), workflow_key="c11-wf", owner=owner,
                                       trigger=celpy.json_to_cel({}), workflow=wf)
        from koreo.cel.encoder import convert_bools
        if not isinstance(res.result, list):
            return ("evalfail", None)
        if block == "inputs":
            out = convert_bools(res.result)
            if len(out) != 1 or not isinstance(out[0], dict) or not isinstance(out[0].get("got"), dict):
                return ("shape", out)
            got = out[0]["got"]
            if got.get("side") != SIDE["o3"]:
                return ("sibling-static-value-lost:inputs.side", got.get("side"))
        else:
            if res.state_errors:
                return ("evalfail", None)
            got = convert_bools(res.state)
        if not isinstance(got, dict) or "v" not in got:
            return ("missing-from-" + block, None)
        return ("ok", got["v"])

    drivers.reset_all()
    try:
        return drivers.run_async(go())
    except Exception as e:
        return ("raises", type(e).__name__)
    finally:
        drivers.reset_all()


# ---- the property, restated (independent of the model) ---------------------------------------------

def is_numeral(s):
    return isinstance(s, str) and NUMERAL.fullmatch(s) is not None


def numeral_in_range(s):
    if INT_NUMERAL.fullmatch(s):
        return -2 ** 63 <= int(s) < 2 ** 63
    try:
        return math.isfinite(float(s))
    except (ValueError, OverflowError):
        return False


def hypotheses_hold(v, key=False):
    """the quantifier of the property + the stated range hypothesis"""
    if isinstance(v, str):
        if not _utf8_ok(v):
            return False
        if key:
            return True
        if v.startswith("="):
            return False
        return numeral_in_range(v) if is_numeral(v) else True
    if isinstance(v, bool) or v is None:
        return True
    if isinstance(v, int):
        return -2 ** 63 <= v < 2 ** 63
    if isinstance(v, float):
        return math.isfinite(v)
    if isinstance(v, list):
        return all(hypotheses_hold(x) for x in v)
    if isinstance(v, dict):
        return all(hypotheses_hold(k, key=True) and hypotheses_hold(x) for k, x in v.items())
    return False


def delivered_ok(want, got, path="$"):
    """None if `got` is `want` as the property demands, else (path, reason)."""
    if isinstance(want, str):
        if is_numeral(want):
            # the documented exception: delivered as that number.  Accept an int or a float of equal value
            # (exact decimal value, or the nearest double).
            if type(got) is int and Fraction(got) == Fraction(want):
                return None
            if type(got) is float and (got == float(want) or
                                       (math.isfinite(got) and Fraction(got) == Fraction(want))):
                return None
            return (path, "numeral string not delivered as that number")
        if type(got) is not str:
            return (path, "string delivered as " + type(got).__name__)
        if got != want:
            return (path, "string changed")
        return None
    if want is None or isinstance(want, bool):
        return None if (got is want) else (path, f"{want!r} delivered as {type(got).__name__}")
    if isinstance(want, int):
        return None if (type(got) is int and got == want) else (path, "integer changed")
    if isinstance(want, float):
        return None if (type(got) is float and got == want) else (path, "float changed")
    if isinstance(want, list):
        if type(got) is not list or len(got) != len(want):
            return (path, "list structure changed")
        for i, (a, b) in enumerate(zip(want, got)):
            r = delivered_ok(a, b, f"{path}[{i}]")
            if r:
                return r
        return None
    if isinstance(want, dict):
        if type(got) is not dict:
            return (path, "map structure changed")
        if set(got.keys()) != set(want.keys()) or len(got) != len(want) or \
                any(type(k) is not str for k in got):
            return (path, "map keys changed")
        for k in want:
            r = delivered_ok(want[k], got[k], f"{path}.{k!r}")
            if r:
                return r
        return None
    return (path, "unsupported")


# ---- generators ----------------------------------------------------------------------------------

ALPHA = ['"', '"', '\\', '\\', '\n', '\r', '\t', '\x00', '\x01', '\x07', '\x08', '\x0b', '\x0c', '\x1b', '\x1f',
         '\x7f', '\x85', '\u2028', '\u2029', ' ', ' ', '0', '1', '2', '7', '8', '9', 'e', 'E', '.', '+', '-', '_',
         'inf', 'nan', 'Infinity', 'a', 'n', 'r', 't', 'x', 'u', 'U', 'b', 'f', 'v', "'", '=', '{', '}', '[', ']',
         ',', ':', '\u00e9', '\u0663', '\uff11', '\uff12', '\U0001f600', '\U0001d7d8', '\ufeff', '\u00a0', '\u07ff',
         '\u0800', '\uffff', '\U0010ffff', 'true', 'false', 'null', '"""', '\\"', '\\n', '\\\\', '\\x41', '\\101',
         '\\u0041', '0x1F', '/', '*', '#', '%', '$', '\x80', '\xff']

FIXED_STRINGS = [
    "", " ", "a", "This is a plain old string.", 'This is a "test."', 'This is a """test."""',
    "a\\nb", 'a\n"b', 'a\n"', '\n"""', "inf", "nan", "Infinity", "-inf", "-Infinity", "NaN", " 12", "1 ", "\t1",
    "1\n", "1_000", "+5", "\u0663", "\uff11\uff12", "5.", ".5", "1e5", "1E-5", "1e+5", "-0", "007", "-0.0", "1.0",
    "12", "-12", "1e", "e5", "1.e5", "--1", "1-", "0x1F", "1u", "true", "false", "null", "True", "None", '"', '""',
    '"""', "\\", "\\\\", '\\"', "back\\", "\\x41", "\\101", "\\u0041", "\\U00000041", "\\999", "a\rb", "a\tb",
    "a\x00b", "\x7f", "\x85", " ", "x\\", '\\"\\', "'", "r\"x\"", "b'x'", "9223372036854775807",
    "-9223372036854775808", "9223372036854775808", "-9223372036854775809", "1e308", "1e309", "1e-400",
    "1.7976931348623157e308", "1.7976931348623159e308", "4.9e-324", "2.4703282292062327e-324",
    "2.4703282292062328e-324", "0.1", "123456789012345678901234567890", "0.30000000000000004", "1e22", "1e23",
    "9007199254740993", "9007199254740993.0", "00", "0e0", "-0e-0", "1.5e", "1.5e+", "1..5", "1.5.5", "1e5e5", "- 1",
    "-", ".", "e", "=1 + 1", "==", "=",
]

BOUNDARY_INTS = [0, 1, -1, 7, 10, -10, 2 ** 31, -2 ** 31, 2 ** 53, 2 ** 53 + 1, 2 ** 63 - 1, -2 ** 63, 2 ** 62,
                 10 ** 18, -10 ** 18, 1010, 999999999999]
OUT_OF_RANGE_INTS = [2 ** 63, -2 ** 63 - 1, 2 ** 64, 10 ** 30]
FIXED_FLOATS = [0.0, 1.0, -1.0, 0.1, 99.3, 82.34, 1e16, 1e-5, 1e22, 1e23, 5e-324, 2.2250738585072014e-308,
                1.7976931348623157e308, 123456789.125, 1.5e-7, -2.5, 9.0, 3.2, 1e15, 123456789012345680.0, 0.5]


def adv_string(rng, maxlen=None):
    n = rng.choice([0, 1, 1, 2, 2, 3, 3, 4, 5, 6, 8, 12, 20]) if maxlen is None else rng.randint(0, maxlen)
    return "".join(rng.choice(ALPHA) for _ in range(n))


def rand_unicode_string(rng):
    n = rng.randint(1, 8)
    out = []
    for _ in range(n):
        r = rng.random()
        if r < 0.3:
            cp = rng.randint(0, 0x7f)
        elif r < 0.5:
            cp = rng.randint(0x80, 0x7ff)
        elif r < 0.8:
            cp = rng.randint(0x800, 0xffff)
            if 0xd800 <= cp <= 0xdfff:
                cp = 0x20ac
        else:
            cp = rng.randint(0x10000, 0x10ffff)
        out.append(chr(cp))
    return "".join(out)


def rand_digits(rng, lo=1, hi=6):
    return "".join(rng.choice("0123456789") for _ in range(rng.randint(lo, hi)))


def numeral_like(rng):
    """a numeral of the documented grammar, or a near miss of one"""
    s = rng.choice(["", "", "-"]) + rng.choice([rand_digits(rng), rand_digits(rng, 1, 2), "0", rand_digits(rng, 15, 25)])
    if rng.random() < 0.5:
        s += "." + rand_digits(rng, 1, rng.choice([2, 6, 20]))
    if rng.random() < 0.4:
        s += rng.choice("eE") + rng.choice(["", "+", "-"]) + rng.choice(
            [rand_digits(rng, 1, 2), rand_digits(rng, 1, 2), str(rng.randint(290, 330)), str(rng.randint(0, 25))])
    if rng.random() < 0.35:                       # near miss: one edit
        i = rng.randint(0, len(s))
        edit = rng.choice(["ins", "ins", "del", "rep"])
        c = rng.choice([" ", "_", "+", "-", ".", "e", "E", "\u0663", "\uff11", "x", "\t", "\n", "0", "9", "u", "'"])
        if edit == "ins":
            s = s[:i] + c + s[i:]
        elif edit == "del" and s:
            i = min(i, len(s) - 1)
            s = s[:i] + s[i + 1:]
        elif s:
            i = min(i, len(s) - 1)
            s = s[:i] + c + s[i + 1:]
    return s


def rand_float(rng):
    while True:
        r = rng.random()
        if r < 0.3:
            x = rng.choice(FIXED_FLOATS) * rng.choice([1, -1])
        elif r < 0.7:
            x = struct.unpack("<d", struct.pack("<Q", rng.getrandbits(64)))[0]
        elif r < 0.85:
            x = round(rng.uniform(-1000, 1000), rng.randint(0, 6))
        else:
            x = float(rng.randint(-10 ** 6, 10 ** 6)) * 10.0 ** rng.randint(-30, 30)
        if math.isfinite(x):
            return x


def rand_scalar(rng):
    r = rng.random()
    if r < 0.45:
        return rand_string(rng)
    if r < 0.6:
        return rng.choice(BOUNDARY_INTS) if rng.random() < 0.5 else rng.randint(-10 ** 7, 10 ** 7)
    if r < 0.75:
        return rand_float(rng)
    if r < 0.85:
        return rng.choice([True, False])
    if r < 0.9:
        return None
    return numeral_like(rng)


def rand_string(rng, allow_eq=False):
    r = rng.random()
    if r < 0.6:
        s = adv_string(rng)
    elif r < 0.75:
        s = rng.choice(FIXED_STRINGS)
    elif r < 0.9:
        s = numeral_like(rng)
    else:
        s = rand_unicode_string(rng)
    if s.startswith("=") and not allow_eq:
        s = "x" + s
    return s


def rand_value(rng, depth=0):
    r = rng.random()
    if depth >= 3 or r < 0.5:
        return rand_scalar(rng)
    if r < 0.75:
        return [rand_value(rng, depth + 1) for _ in range(rng.choice([0, 1, 2, 3, 5]))]
    d = {}
    for _ in range(rng.choice([0, 1, 2, 3, 4])):
        d[rand_key(rng)] = rand_value(rng, depth + 1)
    return d


def rand_key(rng):
    r = rng.random()
    if r < 0.12:
        return rng.choice(NEAR_DIRECTIVE_KEYS)          # user data that merely looks like a directive
    if r < 0.14:
        return rng.choice(DIRECTIVES)                   # the real names, here as plain data
    return rand_string(rng, allow_eq=True)


def directive_like_value(rng):
    """maps whose keys are near misses of the three directive names (and now and then the names themselves), at
    several depths and inside list items"""
    def leaf():
        return rng.choice(["kept", 1, True, None, ["a", "b"], {"k": "v"}, 2.5, "12", []])

    def level(depth):
        d = {}
        for _ in range(rng.choice([1, 2, 3])):
            k = rng.choice(NEAR_DIRECTIVE_KEYS) if rng.random() < 0.8 else rng.choice(["plain", "a", "name"])
            r = rng.random()
            if depth < 3 and r < 0.3:
                d[k] = level(depth + 1)
            elif depth < 3 and r < 0.5:
                d[k] = [level(depth + 1), leaf()]
            else:
                d[k] = leaf()
        if rng.random() < 0.15:
            d[rng.choice(DIRECTIVES)] = rng.choice([["a"], [], ["plain", "name"]])
        return d
    return level(0)


# leaves that are equal for Python's == / hash but are different JSON values: an implementation that de-duplicates,
# caches or looks up static values by Python equality delivers one twin with the other's value AND type
TWINS = [(1, True), (0, False), (1, 1.0), (0, 0.0), (2, 2.0), (-1, -1.0), (1000, 1e3), (True, 1.0), (False, 0.0),
         ([1], [True]), ([0], [False]), ([1, 2], [1.0, 2.0]), ([{"a": 1}], [{"a": True}]), ([[0]], [[False]]),
         (-0.0, 0), (2 ** 53, float(2 ** 53))]
TWIN_ROUTES = ("direct", "vf-return", "vf-locals", "rf-post", "rf-overlays:inline,inline@0", "rf-create-overlay",
               "rf-overlays:ref,inline@0", "rf-overlays:inline,ref,inline@1", "wf-step-state", "rf-patch-nested")


def twin_value(rng):
    """a map holding one or more twin pairs: in the same map, or one twin in a nested map / list visited earlier or
    later, in either order, among unrelated leaves"""
    d = {}
    fillers = ["x", 7, None, "1", "true", 2.5, [], {}]
    slots = []
    for i in range(rng.choice([1, 1, 2, 3])):
        a, b = rng.choice(TWINS)
        if rng.random() < 0.5:
            a, b = b, a
        shape = rng.choice(["same", "same", "nested-first", "nested-second", "both-nested", "deep"])
        ka, kb = f"t{i}a", f"t{i}b"
        if shape == "same":
            slots += [(ka, a), (kb, b)]
        elif shape == "nested-first":
            slots += [(ka, {"in": a, "f": rng.choice(fillers)}), (kb, b)]
        elif shape == "nested-second":
            slots += [(ka, a), (kb, {"f": rng.choice(fillers), "in": b})]
        elif shape == "both-nested":
            slots += [(ka, {"in": a}), (kb, {"in": b})]
        else:
            slots += [(ka, {"m": {"n": {"in": a}}}), (kb, b)]
    for j in range(rng.choice([0, 1, 2])):
        slots.insert(rng.randint(0, len(slots)), (f"f{j}", rng.choice(fillers)))
    if rng.random() < 0.3:
        rng.shuffle(slots)
    for k, x in slots:
        d[k] = x
    return d


MUT_CHARS = ['"', '"', '\\', '\\', '\n', ' ', ',', ':', '[', ']', '{', '}', '0', '1', '8', '9', '.', 'e', 'E', '+',
             '-', 'n', 'r', 't', 'x', 'u', 'a', '7', 'f', "'", '\r', '\t', 'true', 'null', '""', '"""', '\\"',
             '\\\\', '\\x4', '\\12', '\u00e9', '\u0663', '_', 'false', '\\n', '\x0c', '\x01', '/', '(', '!']


def mutate(rng, text):
    s = text
    for _ in range(rng.choice([1, 1, 1, 2, 3])):
        op = rng.choice(["ins", "ins", "del", "rep", "dup", "trunc", "swap"])
        i = rng.randint(0, len(s))
        c = rng.choice(MUT_CHARS)
        if op == "ins":
            s = s[:i] + c + s[i:]
        elif op == "del" and s:
            i = min(i, len(s) - 1)
            s = s[:i] + s[i + 1:]
        elif op == "rep" and s:
            i = min(i, len(s) - 1)
            s = s[:i] + c + s[i + 1:]
        elif op == "dup" and s:
            j = min(len(s), i + rng.randint(1, 3))
            s = s[:j] + s[i:j] + s[j:]
        elif op == "trunc" and s:
            s = s[:i] if rng.random() < 0.5 else s[i:]
        elif op == "swap" and len(s) > 1:
            i = min(i, len(s) - 2)
            s = s[:i] + s[i + 1] + s[i] + s[i + 2:]
    return s


def random_text(rng):
    return "".join(rng.choice(MUT_CHARS) for _ in range(rng.randint(1, 10)))


# ---- Gallina ---------------------------------------------------------------------------------------

def floats_of(v, acc):
    if isinstance(v, float):
        acc.append(v)
    elif isinstance(v, list):
        for x in v:
            floats_of(x, acc)
    elif isinstance(v, dict):
        for x in v.values():
            floats_of(x, acc)
    return acc


def modelable(v):
    """values the json model can express: str keys, finite floats, no negative zero, valid UTF-8"""
    if isinstance(v, float):
        return math.isfinite(v) and not (v == 0 and math.copysign(1, v) < 0)
    if isinstance(v, str):
        return _utf8_ok(v)
    if isinstance(v, list):
        return all(modelable(x) for x in v)
    if isinstance(v, dict):
        return all(type(k) is str and _utf8_ok(k) and modelable(x) for k, x in v.items())
    return v is None or isinstance(v, (bool, int))


def c_dy(x):
    m, e = float_dyadic(x)
    return cpair(cz(m), cz(e))


def term_encode(v, out):
    tb = []
    seen = set()
    for x in floats_of(v, []):
        if x not in seen:
            seen.add(x)
            tb.append(cpair(c_dy(x), cstr(repr(x))))
    return f"CEncode {cjson(v)} [{'; '.join(tb)}] {cstr(out)}"


def term_eval(text, obs, image=False):
    o = {"parse": "OParse", "eval": "OEval", "other": "OOther", "raise": "ORaise"}.get(obs[0])
    if o is None:
        o = f"(OVal {cjson(obs[1])})"
    return f"{'CEvalImg' if image else 'CEval'} {cstr(text)} {o}"


# ---- checking one value --------------------------------------------------------------------------------

def nontrivial_value(v):
    if isinstance(v, (list, dict)):
        return len(v) > 0
    if isinstance(v, str):
        return bool(re.search(r'["\\\x00-\x1f\x7f=]|[^\x00-\x7f]|^[\s+\-.0-9]|inf|nan', v, re.I))
    return isinstance(v, float)


def value_class(v):
    if isinstance(v, str):
        if is_numeral(v):
            return "numeral-string"
        if re.search(r"[\\]", v):
            return "string-with-backslash"
        if re.search(r"[\x00-\x1f\x7f]", v):
            return "string-with-control"
        if '"' in v:
            return "string-with-quote"
        if re.fullmatch(r"\s*[+-]?(inf|infinity|nan)\s*", v, re.I):
            return "string-inf-nan"
        try:
            float(v)
            return "string-python-number-lookalike"
        except ValueError:
            pass
        return "string"
    if isinstance(v, bool):
        return "bool"
    if v is None:
        return "null"
    if isinstance(v, int):
        return "int"
    if isinstance(v, float):
        return "float"
    if isinstance(v, list):
        return "list"
    return "map"


def find_culprit(want, got):
    """the smallest sub-value of `want` that is not delivered (for the failure signature)"""
    r = delivered_ok(want, got)
    if r is None:
        return None
    if isinstance(want, list) and type(got) is list and len(got) == len(want):
        for a, b in zip(want, got):
            c = find_culprit(a, b)
            if c:
                return c
    if isinstance(want, dict) and type(got) is dict:
        if set(want) != set(got):
            bad = [k for k in want if k not in got]
            return ("key", bad[0] if bad else None, r[1])
        for k in want:
            c = find_culprit(want[k], got[k])
            if c:
                return c
    return ("value", want, r[1])


BASE_ROUTES = ("direct", "vf-return", "vf-locals") + (("rf-post",) if RF_AVAILABLE else ())
# routes through a whole ResourceFunction pipeline / Workflow (a few ms each): the literal in the first of
# two / three inline overlays, in create.overlay, in a ValueFunction overlay's return, in step inputs / state
OTHER_ROUTES = (("rf-patch-nested", "rf-create-overlay", "cache-rf-reprepare", "wf-step-inputs", "rf-patch-metadata",
                 "cache-wf-reprepare", "wf-step-state") if RF_AVAILABLE else ())
EXTRA_ROUTES = OTHER_ROUTES + ((CHAIN_ROUTES + OWNER_REF_ROUTES) if RF_AVAILABLE else ())
ROUTES = BASE_ROUTES + EXTRA_ROUTES
# routes whose observation is an object sent to the cluster: the three exact directive keys are stripped by design
STRIPPING_ROUTES = ("rf-post", "rf-create-overlay", "rf-patch-nested", "rf-patch-metadata", "cache-rf-reprepare")


def strips_directives(route):
    return route in STRIPPING_ROUTES or route.startswith(("rf-overlays:", "rf-owner-refs:"))


def routes_for(k):
    """all base routes, two of the other extra routes, two of the 32 overlay-chain routes and one of the 32
    owner-reference routes in rotation
    (the corpus gets every route)"""
    if not EXTRA_ROUTES:
        return BASE_ROUTES
    n, m = len(OTHER_ROUTES), len(CHAIN_ROUTES)
    return (BASE_ROUTES + tuple(OTHER_ROUTES[(2 * k + j) % n] for j in (0, 1))
            + tuple(CHAIN_ROUTES[(2 * k + j * 11) % m] for j in (0, 1))
            + (OWNER_REF_ROUTES[(5 * k) % len(OWNER_REF_ROUTES)],))


ALREADY_SHRUNK: set = set()
NOT_OBSERVABLE: dict = {}     # route: reason -> count (reported in the evidence distribution)


def describe(v):
    """class of a (shrunk) literal for failure signatures"""
    if isinstance(v, list):
        return "list[" + describe(v[0]) + "]" if len(v) == 1 else "list"
    if isinstance(v, dict):
        if len(v) == 1:
            (k, x), = v.items()
            return "map{key " + value_class(k) + ": " + describe(x) + "}"
        return "map"
    return value_class(v)


def deliver(route, v):
    if route == "direct":
        return real_roundtrip(v)
    if route == "vf-return":
        return real_value_function("return", v)
    if route == "vf-locals":
        return real_value_function("locals", v)
    if route == "rf-post":
        return real_resource_function_post(v)
    if route.startswith("rf-overlays:"):
        return real_rf_overlay_chain(*parse_chain_route(route), v)
    if route.startswith("rf-owner-refs:"):
        _, ownership, variant = route.split(":")
        return real_rf_owner_refs(ownership, variant, v)
    if route == "rf-create-overlay":
        return real_rf_create_overlay(v)
    if route == "rf-patch-nested":
        return real_rf_patch("nested", v)
    if route == "rf-patch-metadata":
        return real_rf_patch("metadata", v)
    if route == "cache-rf-reprepare":
        return real_cache_reprepare("rf", v)[:2]
    if route == "cache-wf-reprepare":
        return real_cache_reprepare("wf", v)[:2]
    if route == "wf-step-inputs":
        return real_workflow("inputs", v)
    if route == "wf-step-state":
        return real_workflow("state", v)
    raise ValueError(route)


def wrap(shape, v):
    if shape == "value":
        return v
    if shape == "key":
        return {v: 1}
    if shape == "list":
        return [v, "z"]
    if shape == "mapval":
        return {"k": v}
    raise ValueError(shape)


def route_fails(route, v):
    """None if the property holds for literal v along this route, else (signature, what, observed)"""
    if route == "direct" and not v:
        return None   # prepare_expression treats a falsy spec as absent; the blocks never pass one alone
    st, got = deliver(route, v)
    if st == "n/a":
        NOT_OBSERVABLE[f"{route}: {got}"] = NOT_OBSERVABLE.get(f"{route}: {got}", 0) + 1
        return None       # the route could not observe anything for this literal (not a C11 matter); counted
    if st != "ok":
        if "generation" in st:
            return (f"{route} -> stale static values " + st.split(":")[0],
                    f"{st} (literal under test: {describe(v)})", [st, got])
        if st.startswith(("missing-from-", "sibling-static-value-lost", "literal-lost-from-",
                          "static-ownerReferences-not-as-written", "unwritten-ownerReferences",
                          "the-parent-is-not-patched-in")) \
                or ": missing-from-" in st:
            # the pipeline drops a whole static value, whatever the literal is
            return (f"{route} -> {st}", f"a static value written in the definition does not reach the "
                                        f"object / result: {st} (literal under test: {describe(v)})", [st, got])
        return (f"{route}: {describe(v)} -> {st}", f"literal is not delivered at all: {st} {got!r}", [st, got])
    bad = find_culprit(strip_exact_directives(v) if strips_directives(route) else v, got)
    if bad is None:
        return None
    kind, sub, reason = bad
    cls = "map key" if kind == "key" else value_class(sub)
    return (f"{route}: {cls}: {reason}", f"{reason} (at {cls} {sub!r})", got)


def vsize(v):
    if isinstance(v, str):
        return 1 + len(v)
    if isinstance(v, list):
        return 1 + sum(vsize(x) for x in v)
    if isinstance(v, dict):
        return 1 + sum(vsize(k) + vsize(x) for k, x in v.items())
    return 1


def shrink_value(v, fails, budget=400):
    """greedy structural shrink of a failing literal; `fails(v)` -> bool.  Every accepted step strictly
    decreases vsize, and at most `budget` candidates are tried."""
    tried = [0]

    def ok(c):
        tried[0] += 1
        if tried[0] > budget:
            return False
        try:
            return fails(c)
        except Exception:
            return False

    changed = True
    while changed and tried[0] <= budget:
        changed = False
        cands = []
        if isinstance(v, list):
            cands += list(v) + [v[:i] + v[i + 1:] for i in range(len(v))]
        elif isinstance(v, dict):
            cands += list(v.values()) + [{k: x for k, x in v.items() if k != d} for d in v]
            cands += [{k: 1} for k in v]
        for c in cands:
            if vsize(c) < vsize(v) and ok(c):
                v, changed = c, True
                break
    if isinstance(v, str):
        v = "".join(shrink_list(list(v), lambda cs: ok("".join(cs))))
    elif isinstance(v, dict) and len(v) == 1:
        (k, x), = v.items()
        v = {"".join(shrink_list(list(k), lambda cs: ok({"".join(cs): x}))): x}
    elif isinstance(v, list):
        for i, x in enumerate(v):
            if isinstance(x, str):
                v = v[:i] + ["".join(shrink_list(list(x), lambda cs: ok(v[:i] + ["".join(cs)] + v[i + 1:])))] + v[i + 1:]
    return v


def check_value(ctx: Ctx, v, routes=ROUTES):
    """oracle on one literal along the given routes"""
    if not hypotheses_hold(v):
        ctx.count("oracle:skipped-outside-hypotheses")
        return
    for route in routes:
        if route != "direct" and not isinstance(v, (dict, list, str, int, float, bool, type(None))):
            continue
        r = route_fails(route, v)
        ctx.count(f"oracle:{route}")
        if r:
            sig, what, got = r

            def fails(c, route=route, sig=sig):
                if not hypotheses_hold(c):
                    return False
                rr = route_fails(route, c)
                return rr is not None and rr[0].split(" -> ")[-1].split(": ")[-1] == sig.split(" -> ")[-1].split(": ")[-1]
            if sig in ALREADY_SHRUNK:        # one shrunk witness per signature is enough; keep the run short
                small, rr = v, r
            else:
                ALREADY_SHRUNK.add(sig)
                small = shrink_value(v, fails)
                rr = route_fails(route, small) or r
                ALREADY_SHRUNK.add(rr[0])
            sig, what = rr[0], rr[1]
            ctx.fail(Failure(signature=sig, what=what, case={"kind": "value", "value": small, "route": route},
                             observed=rr[2], expected="norm(value): the literal itself (numeral strings as numbers)"))


# ---- run -------------------------------------------------------------------------------------------------

def gen_values(ctx: Ctx):
    """(value, routes) stream"""
    rng = ctx.rng
    quick = ctx.quick()
    for c in corpus_cases("C11"):
        if c.get("kind") == "value":
            yield c["value"], ROUTES
    n = 0
    for s in FIXED_STRINGS:
        for shape in ("value", "key", "list", "mapval"):
            if s.startswith("=") and shape != "key":
                continue
            n += 1
            yield wrap(shape, s), (ROUTES if shape == "value" and not quick else routes_for(n))
    for n, i in enumerate(BOUNDARY_INTS + OUT_OF_RANGE_INTS):
        yield [i], routes_for(n)
    for n, x in enumerate(FIXED_FLOATS):
        yield x, routes_for(n)
        yield {"f": [x, -x]}, ("direct",)
    # the unit tests' pinned literals
    yield {"a_string": "testing", "a_quoted_string": 'you should "test"', "an_int_str": "29", "a_float": 82.34,
           "complex_list": ["a", 2, "4", 3.2, "53.4", True, False], "none": None, "empty_list": [], "e": {}}, ROUTES
    n_str = 700 if quick else 9000
    for k in range(n_str):
        s = rand_string(rng, allow_eq=False)
        shape = ("value", "key", "list", "mapval")[k % 4]
        yield wrap(shape, s), (routes_for(k // 3) if k % 3 == 0 else ("direct",))
    n_val = 500 if quick else 6000
    for k in range(n_val):
        v = rand_value(rng)
        yield v, (routes_for(k // 4) if k % 4 == 0 else ("direct",))
    n_f = 150 if quick else 4000
    for _ in range(n_f):
        yield [rand_float(rng)], ("direct",)
    # keys that look like koreo's comparison directives but are user data
    yield {k: f"value of {k}" for k in NEAR_DIRECTIVE_KEYS}, ROUTES
    yield {"items": [{k: i} for i, k in enumerate(NEAR_DIRECTIVE_KEYS)], "deep": {"x-koreo-team": {"x-koreo-": [1]}}}, ROUTES
    yield {"x-koreo-compare-as-set": ["plain"], "plain": ["b", "a"], "x-koreo-team": "t"}, ROUTES
    for k in range(60 if quick else 1500):
        yield directive_like_value(rng), routes_for(k)
    # Python-equal twins (1 / true / 1.0 ...) side by side in one block, along the overlay-style routes
    twin_routes = tuple(r for r in TWIN_ROUTES if r in ROUTES)
    for a, b in TWINS:
        yield {"first": a, "second": b}, twin_routes
        yield {"first": b, "nest": {"second": a}}, twin_routes
    for _ in range(120 if quick else 2500):
        yield twin_value(rng), twin_routes


def run(ctx: Ctx):
    rng = ctx.rng
    enc_cases, enc_terms = [], []
    ev_cases, ev_terms = [], []
    num_cases, num_terms = [], []
    texts = []
    images = set()          # encode_cel outputs of values meeting the hypotheses: the model must judge these

    # regression corpus of texts first
    for c in corpus_cases("C11"):
        if c.get("kind") == "text":
            texts.append(c["text"])

    for v, routes in gen_values(ctx):
        case = {"kind": "value", "value": v}
        ctx.note_case(case, nontrivial=nontrivial_value(v) or (isinstance(v, (list, dict)) and any(
            nontrivial_value(x) for x in (v if isinstance(v, list) else list(v) + list(v.values())))))
        ctx.count("value:" + value_class(v))
        check_value(ctx, v, routes)
        try:
            out = real_encode(v)
        except Exception as e:
            ctx.fail(Failure(signature=f"encode_cel raises {type(e).__name__}", what=repr(e), case=case))
            continue
        if modelable(v) and _utf8_ok(out):
            enc_cases.append(case)
            enc_terms.append(term_encode(v, out))
        else:
            ctx.count("corr:encode:not-modelable(-0.0)")
        texts.append(out)
        if out and hypotheses_hold(v):
            images.add(out)

    # CelLit: encoder outputs, mutations of them, random texts over the alphabet
    base = [t for t in texts if t and len(t) < 400]
    n_mut = 1500 if ctx.quick() else 30000
    for k in range(n_mut):
        texts.append(mutate(rng, rng.choice(base)) if k % 5 else random_text(rng))
    seen = set()
    for t in texts:
        if t in seen or not _utf8_ok(t):
            continue
        seen.add(t)
        try:
            obs = real_eval_text(t)
        except Exception as e:
            ctx.count(f"corr:eval:real-raises-{type(e).__name__}")
            continue
        ctx.count("eval-obs:" + obs[0])
        ev_cases.append({"kind": "text", "text": t})
        ev_terms.append(term_eval(t, obs, image=t in images))
        if t in images:
            ctx.count("corr:eval:encoder-images")
        ctx.cases += 1

    # numerals: recogniser, float(), int()
    nums = [s for s in FIXED_STRINGS] + [numeral_like(rng) for _ in range(600 if ctx.quick() else 15000)]
    for s in dict.fromkeys(nums):
        if not _utf8_ok(s):
            continue
        plain = bool(s) and real_encode(s) == s and not s.startswith("=")
        kind = None
        if plain:
            o = real_eval_text(s)
            kind = "KFloat" if (o[0] == "other" or (o[0] == "val" and type(o[1]) is float)) else "KInt"   # other = inf
        if s and not s.startswith("="):
            num_cases.append({"kind": "numeral", "text": s})
            num_terms.append(f"CNumeral {cstr(s)} {copt(kind, str)}")
        if re.fullmatch(r"-?([0-9]+\.?[0-9]*|\.[0-9]+)([eE][+-]?[0-9]+)?", s):
            x = float(s)
            num_cases.append({"kind": "float", "text": s})
            num_terms.append(f"CFloat {cstr(s)} {copt(x if math.isfinite(x) else None, c_dy)}")
        if re.fullmatch(r"-?[0-9]+", s):
            num_cases.append({"kind": "int", "text": s})
            num_terms.append(f"CInt {cstr(s)} {cz(int(s))}")
        ctx.cases += 1

    for k, n in sorted(NOT_OBSERVABLE.items()):
        ctx.count("oracle:not-observable:" + k, n)
    NOT_OBSERVABLE.clear()
    ALREADY_SHRUNK.clear()

    if ctx.model_ok:
        ctx.correspond("encode_cel vs Encode.encode (byte for byte) + repr(float) laws", "Corr_C11",
                       enc_cases, enc_terms)
        ctx.correspond("celpy compile+evaluate vs CelLit.eval_lit (encoder outputs and mutated texts)", "Corr_C11",
                       ev_cases, ev_terms)
        ctx.correspond("numeral recogniser / float() / int() vs model", "Corr_C11", num_cases, num_terms)
        oof, err = common.eval_cases("Corr_C11", ev_terms, ctx.workdir / "coq-frag", check_fn="in_fragment")
        if err:
            ctx.corr_errors.append("in_fragment: " + err)
        ctx.count("corr:eval:skipped-outside-model-fragment", len(oof))
        ctx.count("corr:eval:judged", len(ev_terms) - len(oof))
        ctx.notes.append({"celit_fragment": {"texts": len(ev_terms), "skipped": len(oof)}})


def replay(ctx: Ctx, data):
    case = data["case"] if "case" in data else data
    if case.get("kind") == "value":
        v = case["value"]
        routes = (case["route"],) if case.get("route") else ROUTES
        check_value(ctx, v, routes)
        ctx.note_case(case, True)
        if ctx.model_ok and modelable(v):
            out = real_encode(v)
            ctx.correspond("replay encode", "Corr_C11", [case], [term_encode(v, out)])
            ctx.correspond("replay eval", "Corr_C11", [case], [term_eval(out, real_eval_text(out))])
    elif case.get("kind") == "text":
        ctx.note_case(case, True)
        if ctx.model_ok:
            ctx.correspond("replay eval", "Corr_C11", [case], [term_eval(case["text"], real_eval_text(case["text"]))])
