"""C09 — Workflow reconcile contains faults, stays truthful, and recovers
(src/koreo/workflow/reconcile.py, src/koreo/resource_function/reconcile/__init__.py, kind_lookup.py)
vs model/Faults.v.

What happens for every generated Workflow W (3-8 steps: ValueFunctions, ResourceFunctions with
patch / recreate / never / readonly / deleteIfExists / create-disabled behaviour, dependencies between
them, forEach steps, sub-workflow steps, a refSwitch) and initial cluster content:

1. REFERENCE RUN: fault-free passes of the real `reconcile_workflow` (real prepare_* through the real
   cache, in-memory cluster, virtual-time loop) until quiescent.
2. FAULT RUNS: for every pass p of the reference run, every API-call index i of that pass and every
   fault kind (plain Exception before the effect, kr8s.ServerError before the effect, Exception after
   the effect, ServerError after the effect, HTTP 404 / 409 / 500, hang, CancelledError, a falsy
   exception object): p fault-free passes, one pass with the fault at call i, then fault-free passes.
   Every mutating call also gets a fault that answers LATE (the other runnable steps have finished by then).
   (thorough: fault PAIRS in one pass, injected latencies.)
   ORACLE on the faulted pass (property text, independent of the model): returns normally; virtual
   duration <= STEP_TIMEOUT; the step owning the faulted call is Retry or PermFail; no step that
   (transitively) needs a non-Ok step had its Logic invoked or made an API call; overall outcome is
   Retry or PermFail; no condition with reason "Ready" whose step / workflow is not Ok (at every
   nesting level).  ORACLE on recovery: after the faults stop, R+2 fault-free passes (R = length of the
   reference run) end quiescent with the same cluster snapshot and the same Result (overall outcome,
   per-step outcomes, conditions, state, resource ids) as the run that never saw a fault.
3. CORRESPONDENCE (Corr_C09): every reconcile_workflow / _reconcile_steps / _for_each_reconciler
   invocation observed in 1-2 is replayed in the Coq model from the observed END STATE of each task
   (captured by wrapping the coroutines the tasks run): classification, conditions, overall outcome,
   dependency-gate propagation and invocation trace.  Separately, single ResourceFunction scenarios
   (harness/rf_model.py) are run under every (GET fault x mutation fault) plan and compared with
   `reconcile_rf_faulty` (result, calls, cluster content afterwards).
"""
from __future__ import annotations

import asyncio
import contextvars
import copy
import json
import re

import drivers
import rf_model as m
import vloop
from cluster import Cluster, server_error
from common import (Ctx, Failure, cbool, cjson, clist, cnat, copt, cpair, cstr, cz, corpus_cases, jsonable)

COQ_TARGETS = ["props/P_C09.vo", "corr/Corr_C09.vo"]
PROOF_FILES = ["proofs/Faults_proofs.v"]
RULE = ("generated Workflows of 3-8 steps (ValueFunctions; ResourceFunctions with update patch/recreate/never, readonly, "
        "deleteIfExists, create disabled; inputs wired to earlier steps; forEach over ResourceFunctions and over "
        "sub-workflows; sub-workflow steps with state; a refSwitch; step conditions) x initial cluster (empty / "
        "converged with some objects drifted or removed) x EVERY pass of the fault-free run x EVERY API-call index of "
        "that pass x 10 fault kinds; thorough adds fault pairs and latencies. Plus rf_model scenarios x every "
        "(GET fault, mutation fault) plan. A case is one reconcile pass; non-trivial = a fault fired in it; distinct by "
        "(workflow, initial cluster, pass, call index, kind)")
ASSUMPTIONS = [
    "the single-function fault MODEL (reconcile_rf_faulty) and its correspondence cover exception objects whose str() "
    "returns: load_api_resource / _create_api_resource format the exception inside their handlers, so an unprintable one "
    "leaves the function as the error its __str__ raised (the workflow layer then reports Retry 60; exercised by the "
    "workflow-level fault runs and oracle, which include the unprintable object at every call)",
    "step results are never result.Ok INSTANCES (functions return bare values); checked on every observed result",
    "asyncio.TaskGroup / asyncio.timeout semantics (a raising task or the timeout cancels every unfinished task of the "
    "group; TaskGroup exits only when all its tasks are done) are observed under the virtual-time loop, not proved; the "
    "theorems quantify over every assignment of end states / every abort plan instead",
    "each API call takes effect fully or not at all (true of the in-memory cluster: no await between gate and effect)",
    "a 404 answer to the GET is the API's ordinary 'absent' answer: the step then behaves as for an absent object "
    "(accepted reading; only observable difference: a deleteIfExists function reports Ok for one pass)",
    "single-ResourceFunction recovery (C09_recover_rf_partial) is proved for every comparator; that the never-faulted run "
    "becomes quiescent (the object meets the target after one pass) is C04's theorem and a hypothesis here",
    "whole-workflow convergence after faults stop and the STEP_TIMEOUT bound are OBSERVED only",
]
TRUSTED = ["harness/cluster.py in-memory API double with per-call fault / latency injection",
           "harness/vloop.py virtual-time event loop (asyncio.SelectorEventLoop with a virtual clock)",
           "instrumentation: wrappers around koreo.workflow.reconcile.{reconcile_workflow,_reconcile_steps,_reconcile_step,"
           "_reconcile_step_logic,_for_each_reconciler} that only record how each coroutine ended",
           "harness/rf_model.py scenario realiser"]

STEP_TIMEOUT = 10.0            # written by hand: the property's bound
OWNER = ("ns1", {"apiVersion": "v1", "kind": "Parent", "name": "parent", "uid": "uid-parent",
                 "blockOwnerDeletion": True, "controller": False})
NS = "ns1"
MAXP = 9


class Falsy(Exception):
    """an exception object whose truth value is False"""
    def __bool__(self):
        return False


class StrRaises(Exception):
    """an exception whose __str__ raises"""
    def __str__(self):
        raise RuntimeError("__str__ of the injected exception failed")


def _kr8s(name, *a):
    import kr8s
    return getattr(kr8s, name)(*a)


# realistic exception OBJECTS an API layer can raise: with and without args, non-string args, empty text, OSError /
# TimeoutError subclasses, kr8s errors (ServerError without a response, NotFoundError, APITimeoutError), a group, and
# one whose __str__ raises.  Kinds "x:<name>" raise it before the call takes effect, "xa:<name>" after.
EXC_POOL = {
    "noargs": lambda: Exception(),
    "timeout": lambda: asyncio.TimeoutError(),                  # bare, as asyncio.wait_for raises it
    "connreset": lambda: ConnectionResetError(),
    "oserror": lambda: OSError(104, "Connection reset by peer"),
    "intarg": lambda: Exception(5),
    "objargs": lambda: RuntimeError({"code": 1}, ["x"]),
    "emptystr": lambda: Exception(""),
    "keyerror": lambda: KeyError("metadata"),
    "valueerror": lambda: ValueError(),
    "srv_noresp": lambda: _kr8s("ServerError", "no response"),
    "notfound": lambda: _kr8s("NotFoundError", "gone"),
    "apitimeout": lambda: _kr8s("APITimeoutError", "timed out"),
    "group": lambda: ExceptionGroup("several", [ValueError(1), OSError()]),
    "strraises": lambda: StrRaises("x"),
}
POOL_KINDS = [f"x:{n}" for n in EXC_POOL] + [f"xa:{n}" for n in EXC_POOL]
# answers that MEAN "the object is absent" when given to the GET (accepted reading, see notes)
ABSENT_ANSWERS = ("http404", "x:notfound", "xa:notfound")


def c_fault(kind):
    """Gallina fault of the single-function model"""
    if kind is not None and kind.startswith(("x:", "xa:")):
        after = cbool(kind.startswith("xa:"))
        return f"(FSrv 404%Z {after})" if kind.endswith(":notfound") else f"(FExc {after})"
    return C_FAULT[kind]


def mk_fault(kind: str):
    if kind.startswith("x:"):
        return ("exc_before", EXC_POOL[kind[2:]]())
    if kind.startswith("xa:"):
        return ("exc_after", EXC_POOL[kind[3:]]())
    return {
        "exc": lambda: ("exc_before", Exception("injected")),
        "srv500": lambda: ("exc_before", server_error(500)),
        "exc_after": lambda: ("exc_after", Exception("injected late")),
        "srv_after": lambda: ("exc_after", server_error(500)),
        "http404": lambda: ("http", 404),
        "http409": lambda: ("http", 409),
        "http500": lambda: ("http", 500),
        "hang": lambda: ("hang",),
        "cancel": lambda: ("exc_before", asyncio.CancelledError()),
        "falsy": lambda: ("exc_before", Falsy("falsy")),
    }[kind]()


KINDS = ["exc", "srv500", "exc_after", "srv_after", "http404", "http409", "http500", "hang", "cancel", "falsy"]

# Gallina fault for the single-function model
C_FAULT = {None: "FNone", "exc": "(FExc false)", "falsy": "(FExc false)", "srv500": "(FSrv 500%Z false)",
           "exc_after": "(FExc true)", "srv_after": "(FSrv 500%Z true)", "http404": "(FSrv 404%Z false)",
           "http409": "(FSrv 409%Z false)", "http500": "(FSrv 500%Z false)", "hang": "FHang", "cancel": "FCancelled"}


# =============================================================================================
# workflow generator
# =============================================================================================

def _kind(tag):
    return f"Cn{tag}"


def _plural(tag):
    return _kind(tag).lower() + "s"


def rf_spec(tag, name_expr, variant, size_expr="=inputs.size"):
    api = {"apiVersion": "example.dev/v1", "kind": _kind(tag), "plural": _plural(tag), "name": name_expr,
           "namespace": NS, "owned": True}
    spec = {"apiConfig": api, "resource": {"spec": {"size": size_expr, "tag": "t" + str(tag)}},
            "create": {"delay": 7}, "update": {"patch": {"delay": 9}},
            "return": {"n": "=resource.spec.size", "ref": "=resource.metadata.name"}}
    if variant == "recreate":
        spec["update"] = {"recreate": {"delay": 11}}
    elif variant == "never":
        spec["update"] = {"never": {}}
    elif variant == "readonly":
        api["readonly"] = True
        spec["create"] = {"enabled": False}
    elif variant == "nocreate":
        spec["create"] = {"enabled": False}
    elif variant == "die":
        api["deleteIfExists"] = True
        spec["return"] = {"n": 0, "ref": "gone"}
    return spec


def gen_workflow(rng, nsteps=None, allow_sub=True, script=None):
    """-> case dict {fns, subs, wf, owners}.  owners: plural -> [top-level label, inner label or None].
    `script`: optional list forcing the kind of each step ("vf", "rf:<variant>", "fe", "sub", "fesub", "switch", "vfdep")."""
    nsteps = len(script) if script else (nsteps or rng.choice([3, 4, 5, 6, 7, 8]))
    uid = rng.randrange(10 ** 6)
    fns, subs, steps, owners, prims = {}, {}, [], {}, {}
    producers, listers = [], []
    used_sub = used_fe = used_switch = False
    rf_creators = []        # ResourceFunction steps that create their object (a faulted POST makes them PermFail)

    def dep_n(k):
        """an expression giving an int from an earlier step (or a literal)"""
        if producers and rng.random() < 0.75:
            return f"=steps.{rng.choice(producers)}.n"
        return rng.choice([1, 2, 3])

    for k in range(nsteps):
        label = f"st{k}"
        tag = f"{uid}x{k}"
        r = rng.random()
        step = {"label": label}
        forced = script[k] if script else None
        if forced:
            r = {"vf": 0.0, "rf": 0.3, "rford": 0.3, "fe": 0.6, "sub": 0.8, "fesub": 0.8, "switch": 0.9, "vfdep": 0.95}[forced.split(":")[0]]
            if forced == "switch":
                used_sub = True
            if forced == "vfdep":
                used_sub = used_switch = True
        if (k == 0 and not forced) or r < 0.2:
            fn = f"vf-{tag}"
            ret = {"n": rng.choice([1, 2, 3]), "items": rng.choice([[1, 2], [3], [1, 2, 3]])}
            if producers and rng.random() < 0.6:
                ret["n"] = "=inputs.a + 1"
                step["inputs"] = {"a": f"=steps.{rng.choice(producers)}.n"}
            fns[fn] = {"kind": "ValueFunction", "spec": {"return": ret}}
            step["ref"] = {"kind": "ValueFunction", "name": fn}
            producers.append(label)
            listers.append(label)
        elif r < 0.55:
            variant = rng.choice(["patch", "patch", "patch", "recreate", "never", "readonly", "nocreate", "die"])
            if forced and ":" in forced:
                variant = forced.split(":")[1]
            elif forced == "rford":
                variant = "patch"
            fn = f"rf-{tag}"
            name = f"o{k}" if rng.random() < 0.6 else f'="o{k}-" + string(inputs.size)'
            fns[fn] = {"kind": "ResourceFunction", "spec": rf_spec(tag, name, variant)}
            step["ref"] = {"kind": "ResourceFunction", "name": fn}
            step["inputs"] = {"size": dep_n(k)}
            ord_only = (forced == "rford") if forced else (bool(rf_creators) and rng.random() < 0.3)
            if ord_only and (rf_creators or producers):
                # ORDERING-ONLY dependency: the step references an earlier step but needs no value from it
                dep = rng.choice(rf_creators or producers)
                step["inputs"] = {"size": rng.choice([1, 2, 3])}
                if rng.random() < 0.6:
                    step["inputs"]["seen"] = f"=has(steps.{dep}.n)"
                else:
                    step["skipIf"] = f"=has(steps.{dep}.nope)"
                variant = variant + "+ord"
            owners[_plural(tag)] = [label, None]
            prims[_plural(tag)] = variant
            producers.append(label)
            if variant.split("+")[0] in ("patch", "recreate", "never"):
                rf_creators.append(label)
        elif r < 0.7 and not used_fe:
            used_fe = True
            fn = f"rf-{tag}"
            fns[fn] = {"kind": "ResourceFunction",
                       "spec": rf_spec(tag, f'="o{k}-" + string(inputs.item)', rng.choice(["patch", "patch", "recreate"]),
                                       size_expr="=inputs.item")}
            step["ref"] = {"kind": "ResourceFunction", "name": fn}
            step["forEach"] = {"itemIn": f"=steps.{rng.choice(listers)}.items" if listers and rng.random() < 0.7 else "=[1, 2]",
                               "inputKey": "item"}
            step["inputs"] = {"size": 1}
            owners[_plural(tag)] = [label, None]
            prims[_plural(tag)] = "foreach"
        elif r < 0.88 and allow_sub and not used_sub:
            used_sub = True
            sub = f"sub-{tag}"
            fn1, fn2 = f"rf-{tag}", f"vf-{tag}"
            fns[fn1] = {"kind": "ResourceFunction",
                        "spec": rf_spec(tag, f'="u{k}-" + string(inputs.size)', rng.choice(["patch", "recreate"]))}
            fns[fn2] = {"kind": "ValueFunction", "spec": {"return": {"n": "=inputs.a + 10"}}}
            sub_steps = [
                {"label": "inner_rf", "ref": {"kind": "ResourceFunction", "name": fn1}, "inputs": {"size": "=parent.size"},
                 "condition": {"type": f"Inner{k}", "name": "inner object"}},
                {"label": "inner_vf", "ref": {"kind": "ValueFunction", "name": fn2}, "inputs": {"a": "=steps.inner_rf.n"},
                 "state": {"n": "=value.n"}},
            ]
            if rng.random() < 0.4:
                sub_steps.insert(0, {"label": "inner_first", "ref": {"kind": "ValueFunction", "name": fn2}, "inputs": {"a": 0}})
            subs[sub] = {"steps": sub_steps}
            step["ref"] = {"kind": "Workflow", "name": sub}
            owners[_plural(tag)] = [label, "inner_rf"]
            prims[_plural(tag)] = "sub"
            if listers and (rng.random() < 0.4 if not forced else forced == "fesub"):
                step["forEach"] = {"itemIn": f"=steps.{rng.choice(listers)}.items", "inputKey": "size"}
                step["inputs"] = {"other": 1}
                prims[_plural(tag)] = "foreach-sub"
            else:
                step["inputs"] = {"size": dep_n(k)}
                producers.append(label)
        elif not used_switch and producers:
            used_switch = True
            fn1, fn2 = f"rf-{tag}", f"vf-{tag}"
            fns[fn1] = {"kind": "ResourceFunction", "spec": rf_spec(tag, f"o{k}", "patch")}
            fns[fn2] = {"kind": "ValueFunction", "spec": {"return": {"n": 0}}}
            step["refSwitch"] = {"switchOn": "=inputs.size > 1 ? 'big' : 'small'",
                                 "cases": [{"case": "big", "kind": "ResourceFunction", "name": fn1},
                                           {"case": "small", "kind": "ValueFunction", "name": fn2, "default": True}]}
            step["inputs"] = {"size": dep_n(k)}
            owners[_plural(tag)] = [label, None]
            prims[_plural(tag)] = "switch"
            producers.append(label)
        else:
            fn = f"vf-{tag}"
            fns[fn] = {"kind": "ValueFunction", "spec": {"return": {"n": "=inputs.a * 2", "items": [1, 2]}}}
            step["ref"] = {"kind": "ValueFunction", "name": fn}
            step["inputs"] = {"a": dep_n(k)}
            if rf_creators and rng.random() < 0.3:
                step["inputs"] = {"a": 2, "seen": f"=has(steps.{rng.choice(rf_creators)}.n)"}     # ordering-only
            producers.append(label)
            listers.append(label)
        if rng.random() < 0.45 and "forEach" not in step:
            step["condition"] = {"type": f"Cond{k}", "name": f"thing {k}"}
        if rng.random() < 0.3 and label in producers:
            step["state"] = {f"seen{k}": "=value.n"}
        if rng.random() < 0.08 and "skipIf" not in step:
            step["skipIf"] = "=false"
        steps.append(step)
    return {"fns": fns, "subs": subs, "wf": {"steps": steps}, "owners": owners, "prims": prims, "uid": uid}


# =============================================================================================
# building and instrumented running
# =============================================================================================

async def _build(case):
    from koreo import cache
    from koreo.value_function.structure import ValueFunction
    from koreo.value_function.prepare import prepare_value_function
    from koreo.resource_function.structure import ResourceFunction
    from koreo.resource_function.prepare import prepare_resource_function
    from koreo.workflow.structure import Workflow
    from koreo.workflow.prepare import prepare_workflow

    async def put(cls, prep, name, spec):
        return await cache.prepare_and_cache(cls, prep, {"name": name, "resourceVersion": "1"}, copy.deepcopy(spec))

    for name, f in case["fns"].items():
        if f["kind"] == "ValueFunction":
            await put(ValueFunction, prepare_value_function, name, f["spec"])
        else:
            await put(ResourceFunction, prepare_resource_function, name, f["spec"])
    for name, spec in case["subs"].items():
        await put(Workflow, prepare_workflow, name, spec)
    return await put(Workflow, prepare_workflow, "wf-" + str(case["uid"]), case["wf"])


def build(case):
    from koreo import result
    drivers.reset_all()
    wf, _ = vloop.run(_build(case))
    drivers.reset_all()
    if not hasattr(wf, "steps") or not result.is_ok(wf.steps_ready):
        return None
    return wf


_cur_wf = contextvars.ContextVar("c09_wf", default=None)
_cur_inv = contextvars.ContextVar("c09_inv", default=None)
_cur_step = contextvars.ContextVar("c09_step", default=None)
_cur_fe = contextvars.ContextVar("c09_fe", default=None)
_ITEM = re.compile(r"\[(\d+)\]$")


class Recorder:
    """Wraps the coroutines of koreo.workflow.reconcile; records how each one ended."""

    def __init__(self):
        self.wfs = []       # one per reconcile_workflow invocation (outermost first)
        self.invs = []      # one per _reconcile_steps invocation
        self.fes = []       # one per _for_each_reconciler invocation

    def install(self):
        import koreo.workflow.reconcile as R
        self.R = R
        self.orig = {n: getattr(R, n) for n in ("reconcile_workflow", "_reconcile_steps", "_reconcile_step",
                                                "_reconcile_step_logic", "_for_each_reconciler")}
        rec, orig = self, self.orig

        async def reconcile_workflow(**kw):
            w = {"workflow": kw["workflow"], "inv": None, "result": None, "raised": None, "depth": 0,
                 "parent_step": _cur_step.get()}
            parent = _cur_wf.get()
            if parent is not None:
                w["depth"] = parent["depth"] + 1
            rec.wfs.append(w)
            tok = _cur_wf.set(w)
            try:
                res = await orig["reconcile_workflow"](**kw)
                w["result"] = res
                return res
            except BaseException as e:
                w["raised"] = type(e).__name__
                raise
            finally:
                _cur_wf.reset(tok)

        async def _reconcile_steps(**kw):
            inv = {"steps": list(kw["steps"]), "ends": {}, "tasks": {}, "logic": set(), "ret": None, "raised": None}
            rec.invs.append(inv)
            w = _cur_wf.get()
            if w is not None:
                w["inv"] = inv
            tok = _cur_inv.set(inv)
            tokf = _cur_fe.set(None)
            try:
                ret = await orig["_reconcile_steps"](**kw)
                inv["ret"] = ret
                return ret
            except BaseException as e:
                inv["raised"] = type(e).__name__
                raise
            finally:
                _cur_inv.reset(tok)
                _cur_fe.reset(tokf)

        async def _reconcile_step(**kw):
            inv = _cur_inv.get()
            label = kw["step"].label
            tok = _cur_step.set((inv, label))
            tok2 = _cur_fe.set(None)
            try:
                r = await orig["_reconcile_step"](**kw)
                if inv is not None:
                    inv["ends"][label] = ("F", r.result)
                return r
            except asyncio.CancelledError:
                if inv is not None:
                    inv["ends"][label] = ("C",)
                raise
            except BaseException as e:
                if inv is not None:
                    inv["ends"][label] = ("E", bool(e))
                raise
            finally:
                _cur_step.reset(tok)
                _cur_fe.reset(tok2)

        async def _reconcile_step_logic(**kw):
            cs = _cur_step.get()
            if cs is not None and cs[0] is not None:
                cs[0]["logic"].add(cs[1])
            fe = _cur_fe.get()
            idx = None
            if fe is not None:
                mt = _ITEM.search(kw["location"])
                if mt and kw["location"] == f"{fe['location']}[{mt.group(1)}]":
                    idx = int(mt.group(1))
            # an item task is the outermost _reconcile_step_logic of its task: nested calls see fe reset
            tok = _cur_fe.set(None) if idx is not None else None
            try:
                r = await orig["_reconcile_step_logic"](**kw)
                if idx is not None:
                    fe["ends"][idx] = ("F", r.result)
                return r
            except asyncio.CancelledError:
                if idx is not None:
                    fe["ends"][idx] = ("C",)
                raise
            except BaseException as e:
                if idx is not None:
                    fe["ends"][idx] = ("E", bool(e))
                raise
            finally:
                if tok is not None:
                    _cur_fe.reset(tok)

        async def _for_each_reconciler(**kw):
            cs = _cur_step.get()
            if cs is not None and cs[0] is not None:
                cs[0]["logic"].add(cs[1])
            fe = {"label": kw["step"].label, "location": kw["location"], "ends": {}, "tasks": {}, "n": None, "ret": None,
                  "raised": None}
            rec.fes.append(fe)
            tok = _cur_fe.set(fe)
            try:
                r = await orig["_for_each_reconciler"](**kw)
                fe["ret"] = r
                return r
            except BaseException as e:
                fe["raised"] = type(e).__name__
                raise
            finally:
                _cur_fe.reset(tok)

        # the Task objects themselves: the END STATE of a task is what task.cancelled() / task.exception() say
        # afterwards, which is NOT always how its coroutine ended (a coroutine that swallows a cancellation and
        # returns while a second cancel request is pending leaves a CANCELLED task: "cancelled right before coro stops")
        self.orig_create_task = asyncio.TaskGroup.create_task

        def create_task(tg, coro, *, name=None, context=None):
            t = rec.orig_create_task(tg, coro, name=name, context=context)
            fe, inv = _cur_fe.get(), _cur_inv.get()
            if fe is not None:
                fe["tasks"][name] = t
            elif inv is not None:
                inv["tasks"][name] = t
            return t
        asyncio.TaskGroup.create_task = create_task

        for n, f in (("reconcile_workflow", reconcile_workflow), ("_reconcile_steps", _reconcile_steps),
                     ("_reconcile_step", _reconcile_step), ("_reconcile_step_logic", _reconcile_step_logic),
                     ("_for_each_reconciler", _for_each_reconciler)):
            setattr(R, n, f)
        return self

    def uninstall(self):
        for n, f in self.orig.items():
            setattr(self.R, n, f)
        asyncio.TaskGroup.create_task = self.orig_create_task

    @staticmethod
    def task_end(t):
        if not t.done() or t.cancelled():
            return ("C",)
        e = t.exception()
        if e is not None:
            try:
                str(e)
                printable = True
            except Exception:       # noqa: BLE001 - the exception object's own __str__ raises
                printable = False
            return ("E", printable)
        return ("F", t.result().result)

    def settle(self):
        """replace the coroutine-level ends by the end states of the Task objects; count disagreements"""
        self.disagree = 0
        for inv in self.invs:
            coro = inv["ends"]
            inv["coro_ends"] = coro
            inv["ends"] = {name: self.task_end(t) for name, t in inv["tasks"].items()}
            self.disagree += sum(1 for k, v in inv["ends"].items() if (coro.get(k) or ("C",))[0] != v[0])
        for fe in self.fes:
            coro = fe["ends"]
            fe["coro_ends"] = coro
            ends = {}
            for name, t in fe["tasks"].items():
                ends[int(name.rsplit("-", 1)[1])] = self.task_end(t)
            fe["ends"] = ends
            self.disagree += sum(1 for k, v in ends.items() if (coro.get(k) or ("C",))[0] != v[0])


def run_pass(wf, cluster: Cluster, key="wfkey"):
    """One reconcile pass on a fresh virtual-time loop.  -> dict(obs)"""
    import celpy
    rec = Recorder().install()
    n0 = len(cluster.calls)
    base = cluster.n

    async def go():
        return await rec.R.reconcile_workflow(api=cluster, workflow_key=key, owner=OWNER,
                                              trigger=celpy.json_to_cel({"kind": "Trigger"}), workflow=wf)
    escaped = None
    res = None
    t = None
    try:
        res, t = vloop.run(go())
    except BaseException as e:      # noqa: BLE001 - the class is the observation
        if isinstance(e, (KeyboardInterrupt, SystemExit)):
            raise
        escaped = type(e).__name__
    finally:
        rec.uninstall()
        rec.settle()
    return {"res": res, "t": t, "escaped": escaped, "rec": rec, "calls": cluster.calls[n0:], "base": base}


# ---- canonical views -------------------------------------------------------------------------

def canon_oc(o):
    """outcome object / bare value -> {'cls','delay','value'}"""
    c = drivers.canon_outcome(o)
    return {"cls": c["cls"], "delay": c.get("delay"), "value": c.get("value") if c["cls"] == "Ok" else None}


def canon_result(res):
    return {"overall": canon_oc(res.result),
            "conditions": [[c["type"], c["reason"]] for c in res.conditions],
            "state": drivers.to_py(res.state), "state_errors": sorted(res.state_errors),
            "resource_ids": jsonable(res.resource_ids)}


def step_outcomes(w):
    """per-step canonical outcomes of a reconcile_workflow record (None if unavailable)"""
    inv = w["inv"]
    if inv is None or inv["ret"] is None:
        return None
    return {label: canon_oc(sr.result) for label, sr in inv["ret"][0].items()}


def deps_of(step):
    return list(getattr(step, "dynamic_input_keys", []) or [])


def closure(steps):
    """label -> set of labels it transitively needs"""
    need = {}
    for s in steps:
        acc = set()
        for d in deps_of(s):
            acc.add(d)
            acc |= need.get(d, set())
        need[s.label] = acc
    return need


# =============================================================================================
# oracle
# =============================================================================================

def escape_problem(escaped, what_faulted, tag):
    """(signature, what) for a pass that did not return normally"""
    if "strraises" in what_faulted and escaped != "Deadlock":
        # the signature under which this escape was repaired (known_findings.json "fixed"): a fixed entry
        # suppresses nothing, so a regression is reported as an ordinary VIOLATION
        return ("exception whose __str__ raises escapes reconcile_workflow",
                f"{escaped} escaped reconcile_workflow ({what_faulted}; {tag})")
    if escaped == "Deadlock":
        return (f"reconcile_workflow never returns: deadlock ({what_faulted})",
                f"the event loop went idle with reconcile_workflow still pending: nothing can ever complete it ({tag})")
    return (f"exception escapes reconcile_workflow ({what_faulted})", f"{escaped} escaped reconcile_workflow ({tag})")


def oracle_pass(case, obs, faults_fired, tag):
    """The property text on one faulted pass.  -> list of (signature, what)"""
    out = []
    kinds = sorted({k for (_i, k) in faults_fired})
    if obs["escaped"]:
        out.append(escape_problem(obs["escaped"], "+".join(kinds) or "no fault", tag))
        return out
    res, rec = obs["res"], obs["rec"]
    if obs["t"] is None or obs["t"] > STEP_TIMEOUT + 1e-6:
        out.append(("pass exceeds STEP_TIMEOUT", f"virtual duration {obs['t']} > {STEP_TIMEOUT} ({tag})"))
    owners = case["owners"]
    top = rec.wfs[0] if rec.wfs else None
    top_out = step_outcomes(top) if top else None
    fired_calls = [c for c in obs["calls"] if c.get("fault")]
    kind_of = dict(faults_fired)

    def absent_answer(c):
        return c["method"] == "GET" and kind_of.get(c["i"]) in ABSENT_ANSWERS
    lenient = all(absent_answer(c) for c in fired_calls)
    if fired_calls and top_out is not None and not lenient:
        for c in fired_calls:
            if absent_answer(c):
                continue
            own = owners.get(c["endpoint"])
            if not own:
                continue
            o = top_out.get(own[0])
            if o is None or o["cls"] not in ("Retry", "PermFail"):
                out.append(("affected step is not Retry/PermFail",
                            f"step {own[0]} owning faulted {c['method']} {c['endpoint']}/{c['name']} ({c.get('fault')}) "
                            f"is {o and o['cls']} ({tag})"))
            if own[1] is not None:
                for w in rec.wfs[1:]:
                    if w["parent_step"] and w["parent_step"][1] == own[0] and case["prims"].get(c["endpoint"]) == "sub":
                        io = step_outcomes(w)
                        if io is not None and io.get(own[1], {}).get("cls") not in ("Retry", "PermFail"):
                            out.append(("affected inner step is not Retry/PermFail",
                                        f"inner step {own[1]} is {io.get(own[1])} ({tag})"))
        if canon_oc(res.result)["cls"] not in ("Retry", "PermFail"):
            out.append(("overall outcome is Ok/Skip although a step faulted",
                        f"overall {canon_oc(res.result)['cls']} ({tag})"))
    # dependents not run; truthful conditions — at every nesting level
    for depth_i, w in enumerate(rec.wfs):
        inv = w["inv"]
        so = step_outcomes(w)
        if inv is None or so is None:
            continue
        need = closure(inv["steps"])
        for s in inv["steps"]:
            bad = [d for d in need[s.label] if so.get(d, {}).get("cls") != "Ok"]
            if not bad:
                continue
            if s.label in inv["logic"]:
                out.append(("dependent of a non-Ok step had its Logic invoked",
                            f"step {s.label} ran although {bad} not Ok ({tag})"))
            if w is rec.wfs[0]:
                mine = [c for c in obs["calls"] if (owners.get(c["endpoint"]) or [None])[0] == s.label]
                if mine:
                    out.append(("dependent of a non-Ok step made API calls",
                                f"step {s.label} made {[(c['method'], c['name']) for c in mine]} although {bad} not Ok ({tag})"))
            if so.get(s.label, {}).get("cls") == "Ok":
                out.append(("dependent of a non-Ok step is reported Ok", f"step {s.label} ({tag})"))
        r = w["result"]
        if r is None:
            continue
        by_type = {}
        for s in inv["steps"]:
            if getattr(s, "condition", None):
                by_type[s.condition.type_] = s.label
        overall_ok = canon_oc(r.result)["cls"] == "Ok"
        for c in r.conditions:
            if c["reason"] != "Ready":
                continue
            lab = by_type.get(c["type"])
            if lab is not None:
                if so.get(lab, {}).get("cls") != "Ok":
                    out.append(("condition claims Ready for a step that is not Ok",
                                f"condition {c['type']} Ready but step {lab} is {so.get(lab, {}).get('cls')} ({tag})"))
            elif not overall_ok:
                out.append(("condition claims Ready although the workflow is not Ok",
                            f"condition type={c['type']} reason=Ready, overall {canon_oc(r.result)['cls']} ({tag})"))
    return out


# =============================================================================================
# Gallina printers
# =============================================================================================

CLS = {"Ok": "OOk", "Retry": "ORetry", "PermFail": "OPermFail", "Skip": "OSkip", "DepSkip": "ODepSkip"}


def c_oc(o):
    return "{| oc_cls := %s; oc_delay := %s; oc_value := %s |}" % (
        CLS[o["cls"]], copt(o["delay"], cz), copt_json(o["value"]) if o["cls"] == "Ok" else "None")


def copt_json(v):
    return f"(Some {cjson(v)})"


def c_sres(o):
    k = o["cls"]
    if k == "Ok":
        return f"(UVal {cjson(o['value'])})"
    if k == "Retry":
        return f"(UOut (Retry {cz(o['delay'])} None None))"
    return f"(UOut ({k} None None))"


def c_tend(e):
    if e is None or e[0] == "C":
        return "Cancelled"
    if e[0] == "E":
        return "Excepted"
    return f"(Finished {c_sres(canon_oc(e[1]))})"


def c_otend(e):
    if e is None or e[0] == "C":
        return "OCancelled"
    if e[0] == "E":
        return "OExcepted"
    return f"(OFinished {c_oc(canon_oc(e[1]))})"


def c_wsteps(steps):
    idx = {s.label: i for i, s in enumerate(steps)}
    out = []
    for s in steps:
        deps = [idx[d] for d in deps_of(s)]
        cond = s.condition.type_ if getattr(s, "condition", None) else None
        out.append("{| w_deps := %s; w_cond := %s |}" % (clist(deps, cnat), copt(cond, cstr)))
    return "[" + "; ".join(out) + "]"


def terms_of_pass(obs, ctx=None):
    """Correspondence terms for every invocation recorded in one pass."""
    from koreo import result
    terms = []
    rec = obs["rec"]
    for w in rec.wfs:
        inv = w["inv"]
        if inv is None:
            continue
        steps = inv["steps"]
        if any(not hasattr(s, "dynamic_input_keys") for s in steps):
            continue
        ends = [inv["ends"].get(s.label) for s in steps]
        for e in ends:
            if e is not None and e[0] == "F" and isinstance(e[1], result.Ok) and ctx is not None:
                ctx.notes.append("a step returned a result.Ok instance (assumption 'raw' violated)")
        raised = w["result"] is None
        if raised:
            wobs = "{| wo_raised := true; wo_outcomes := []; wo_conds := []; wo_overall := %s |}" % c_oc(
                {"cls": "Skip", "delay": None, "value": None})
        else:
            r = w["result"]
            so = step_outcomes(w)
            wobs = "{| wo_raised := false; wo_outcomes := %s; wo_conds := %s; wo_overall := %s |}" % (
                clist([so[s.label] for s in steps if s.label in so], c_oc),
                clist([(c["type"], c["reason"]) for c in r.conditions], lambda p: cpair(cstr(p[0]), cstr(p[1]))),
                c_oc(canon_oc(r.result)))
        terms.append(("steps", f"CSteps {c_wsteps(steps)} {clist(ends, c_tend)} {wobs}"))
        # gate / trace
        plans, trace = [], []
        for i, (s, e) in enumerate(zip(steps, ends)):
            called = s.label in inv["logic"]
            gate_passed = called or (e is not None and e[0] == "F" and canon_oc(e[1])["cls"] != "DepSkip")
            if gate_passed:
                trace.append(i)
                plans.append("{| p_abort := false; p_logic := %s |}" % c_tend(e))
            else:
                abort = e is None or e[0] == "C"
                plans.append("{| p_abort := %s; p_logic := Cancelled |}" % cbool(abort))
        terms.append(("gate", f"CGate {c_wsteps(steps)} {clist(plans, str)} {clist(ends, c_otend)} {clist(trace, cnat)}"))
    for fe in rec.fes:
        if fe["ret"] is None and fe["raised"] is None:
            continue
        if not fe["ends"] and fe["ret"] is not None:
            continue            # empty / failed iterator: no tasks were made
        n = max(fe["ends"]) + 1 if fe["ends"] else 0
        if fe["ret"] is not None:
            val = fe["ret"].result
            if isinstance(val, list):
                n = max(n, len(val))
        ends = [fe["ends"].get(i) for i in range(n)]
        if fe["ret"] is None:
            if fe["raised"] == "CancelledError":
                continue        # the forEach step itself was cancelled while waiting: no classification happened
            terms.append(("foreach", f"CForEach {clist(ends, c_tend)} true {c_oc({'cls': 'Skip', 'delay': None, 'value': None})}"))
            continue
        o = canon_oc(fe["ret"].result)
        if o["cls"] == "Ok" and isinstance(o["value"], list):
            vals = list(o["value"])
            for i, e in enumerate(ends):
                if e is not None and e[0] == "F" and canon_oc(e[1])["cls"] in ("Skip", "DepSkip") and i < len(vals):
                    vals[i] = "<skip>"
            o = {"cls": "Ok", "delay": None, "value": vals}
        terms.append(("foreach", f"CForEach {clist(ends, c_tend)} false {c_oc(o)}"))
    return terms


# =============================================================================================
# fault runs of one workflow
# =============================================================================================

def perturb(rng, snapshot_objects):
    """initial cluster content derived from a converged one: keep / drift / remove each object"""
    out = {}
    for k, v in snapshot_objects.items():
        r = rng.random()
        if r < 0.25:
            out[k] = copy.deepcopy(v)
        elif r < 0.8:
            o = copy.deepcopy(v)
            if isinstance(o.get("spec"), dict):
                o["spec"]["size"] = 99
            else:
                o["spec"] = {"size": 99}
            out[k] = o
    return out


def reference_run(wf, initial):
    """fault-free passes until quiescent.  -> list of per-pass dicts; None = not quiescent within MAXP passes;
    a str = a pass escaped / deadlocked (the exception class name)"""
    cl = Cluster()
    cl.objects = copy.deepcopy(initial)
    passes = []
    for p in range(MAXP):
        before = copy.deepcopy(cl.objects)
        obs = run_pass(wf, cl)
        if obs["escaped"]:
            return obs["escaped"]          # a str: the fault-free pass itself did not return normally
        entry = {"before": before, "calls": [(c["method"], c["endpoint"], c["name"]) for c in obs["calls"]],
                 "canon": canon_result(obs["res"]), "steps": step_outcomes(obs["rec"].wfs[0]), "obs": obs,
                 "after": copy.deepcopy(cl.objects)}
        passes.append(entry)
        if (len(passes) >= 2 and not any(c[0] != "GET" for c in entry["calls"])
                and passes[-2]["canon"] == entry["canon"] and passes[-2]["after"] == entry["after"]):
            return passes
    return None


def seed_objects(case):
    """objects some variants need to exist beforehand (readonly / nocreate / deleteIfExists)"""
    out = {}
    for name, f in case["fns"].items():
        if f["kind"] != "ResourceFunction":
            continue
        api = f["spec"]["apiConfig"]
        nm = api["name"]
        if nm.startswith("="):
            continue
        if api.get("readonly") or api.get("deleteIfExists") or f["spec"].get("create", {}).get("enabled") is False:
            out[(api["plural"], NS, nm)] = {"apiVersion": api["apiVersion"], "kind": api["kind"],
                                            "metadata": {"name": nm, "namespace": NS}, "spec": {"size": 5, "tag": "seeded"}}
    return out


def fault_run(case, wf, ref, p, faults, latency=None):
    """p fault-free passes (taken from the reference run), one pass with `faults` {index: kind}, then
    fault-free passes.  -> (obs of the faulted pass, fired list, recovery dict)"""
    cl = Cluster()
    cl.objects = copy.deepcopy(ref[p]["before"])
    cl.faults = {i: mk_fault(k) for i, k in faults.items()}
    cl.latency = dict(latency or {})
    obs = run_pass(wf, cl)
    fired = [(c["i"], faults[c["i"]]) for c in obs["calls"] if c.get("fault")]
    cl.faults, cl.latency = {}, {}
    cl.n = 10 ** 6          # indices of later passes never meet a fault entry
    rec_obs = []
    final = None
    for _ in range(len(ref) + 2):
        o2 = run_pass(wf, cl)
        rec_obs.append(o2)
        if o2["escaped"]:
            break
        final = {"canon": canon_result(o2["res"]), "steps": step_outcomes(o2["rec"].wfs[0]),
                 "mut": [c for c in o2["calls"] if c["method"] != "GET"], "snapshot": copy.deepcopy(cl.objects)}
        if not final["mut"] and final["snapshot"] == ref[-1]["after"] and final["canon"] == ref[-1]["canon"]:
            break       # at the never-faulted fixpoint: passes are deterministic, nothing further can change
    return obs, fired, {"passes": rec_obs, "final": final}


def check_recovery(ref, rec, tag):
    out = []
    last = ref[-1]
    fin = rec["final"]
    esc = [o["escaped"] for o in rec["passes"] if o["escaped"]]
    if fin is None or esc:
        if "Deadlock" in esc:
            out.append(("reconcile_workflow never returns: deadlock (fault-free pass after a fault)", f"({tag})"))
        else:
            out.append(("exception escapes a fault-free pass after a fault", f"{esc} ({tag})"))
        return out
    if fin["mut"]:
        out.append(("not quiescent after faults stopped",
                    f"pass {len(rec['passes'])} after the fault still mutates: "
                    f"{[(c['method'], c['endpoint'], c['name']) for c in fin['mut']]} ({tag})"))
    if fin["snapshot"] != last["after"]:
        diff = sorted(set(map(str, fin["snapshot"])) ^ set(map(str, last["after"]))) or \
            [str(k) for k in fin["snapshot"] if fin["snapshot"][k] != last["after"].get(k)]
        out.append(("cluster contents differ from the never-faulted run", f"objects {diff[:4]} ({tag})"))
    if fin["canon"] != last["canon"] or fin["steps"] != last["steps"]:
        out.append(("final Result differs from the never-faulted run",
                    f"{fin['canon']['overall']['cls']} vs {last['canon']['overall']['cls']} ({tag})"))
    return out


def explore_workflow(ctx: Ctx, case, cases, terms, budget):
    """all fault placements for one workflow + initial content.  Returns number of fault runs done."""
    wf = build(case)
    if wf is None:
        ctx.count("wf:prepare-failed")
        return 0
    initial = {tuple(k): v for k, v in case.get("initial_items", [])}
    ref = reference_run(wf, initial)
    if isinstance(ref, str):
        sig, what = escape_problem(ref, "no fault", "fault-free pass of the reference run")
        ctx.fail(Failure(signature=sig, what=what, case=slim(case)))
        ctx.count("wf:reference-escaped")
        return 0
    if ref is None:
        ctx.count("wf:reference-not-quiescent")
        return 0
    ctx.count(f"wf:ref-passes:{len(ref)}")
    ctx.count(f"wf:steps:{len(case['wf']['steps'])}")
    ctx.count("wf:final:" + ref[-1]["canon"]["overall"]["cls"])
    for pe in ref:                      # the fault-free passes are correspondence cases too
        for kind, t in terms_of_pass(pe["obs"], ctx):
            cases.append({"uid": case["uid"], "kind": kind, "fault": None})
            terms.append((kind, t))
        for sig, what in oracle_pass(case, pe["obs"], [], "fault-free pass"):
            ctx.fail(Failure(signature=sig, what=what, case=slim(case)))
    plan = case.get("plan")
    if plan is None:
        plan = []
        for p, pe in enumerate(ref):
            for i in range(len(pe["calls"])):
                for k in KINDS:
                    plan.append({"p": p, "faults": {str(i): k}})
        # a raising / failing mutation that answers LATE: every other runnable step has finished by then
        late = [{"p": p, "faults": {str(i): k}, "latency": {str(i): 1.0}}
                for p, pe in enumerate(ref) for i, c in enumerate(pe["calls"]) if c[0] != "GET"
                for k in ("exc", "falsy")]
        # the pool of exception objects: every member, before and after the effect, on every mutating call (a rotating
        # three of them when the workflow is not fully enumerated); two rotating members on every GET
        pool = []
        for p, pe in enumerate(ref):
            for i, c in enumerate(pe["calls"]):
                if c[0] != "GET" and case.get("full"):
                    ks = POOL_KINDS
                else:
                    n = 3 if c[0] != "GET" else 2
                    ks = [POOL_KINDS[(7 * (i + 3 * p) + 5 * j + case["uid"]) % len(POOL_KINDS)] for j in range(n)]
                pool += [{"p": p, "faults": {str(i): k}} for k in dict.fromkeys(ks)]
        if len(plan) > budget and not case.get("full"):
            # keep every (pass, index) with a rotating subset of kinds, plus a random sample
            keep = []
            for j, pl in enumerate(plan):
                (i, k), = pl["faults"].items()
                if ref[pl["p"]]["calls"][int(i)][0] != "GET":
                    keep.append(pl)         # every kind on every mutating call
                elif KINDS.index(k) in ((int(i) + pl["p"]) % len(KINDS), (int(i) + pl["p"] + 7) % len(KINDS)):
                    keep.append(pl)
            rest = [pl for pl in plan if pl not in keep]
            ctx.rng.shuffle(rest)
            plan = (keep + rest)[:budget]
        plan += late + pool
        extra = case.get("pairs", 0)
        for _ in range(extra):
            p = ctx.rng.randrange(len(ref))
            n = len(ref[p]["calls"])
            if n < 2:
                continue
            i, j = sorted(ctx.rng.sample(range(n), 2))
            pl = {"p": p, "faults": {str(i): ctx.rng.choice(KINDS[:-1] + POOL_KINDS), str(j): ctx.rng.choice(KINDS[:-1] + POOL_KINDS)}}
            if ctx.rng.random() < 0.5:
                pl["latency"] = {str(ctx.rng.randrange(n)): ctx.rng.choice([0.5, 1.0, 2.0])}
            plan.append(pl)
    done = 0
    for pl in plan:
        p = pl["p"]
        if p >= len(ref):
            continue
        faults = {int(i): k for i, k in pl["faults"].items()}
        latency = {int(i): v for i, v in pl.get("latency", {}).items()}
        tag = f"pass {p} faults {pl['faults']}" + (f" latency {pl['latency']}" if latency else "")
        obs, fired, rec = fault_run(case, wf, ref, p, faults, latency)
        done += 1
        problems = oracle_pass(case, obs, fired, tag) + check_recovery(ref, rec, tag)
        if pl.get("expect") and not obs["escaped"]:
            so = step_outcomes(obs["rec"].wfs[0]) or {}
            for lab, want in pl["expect"].items():
                got = so.get(lab)
                if got is None or any(got.get(k) != v for k, v in want.items()):
                    problems.append(("pinned regression expectation not met",
                                     f"step {lab}: expected {want}, got {got} ({tag})"))
        for sig, what in problems:
            ctx.fail(Failure(signature=sig, what=what, case=dict(slim(case), plan=[pl]),
                             observed={"calls": [(c["method"], c["endpoint"], c["name"], c.get("fault")) for c in obs["calls"]],
                                       "escaped": obs["escaped"], "t": obs["t"],
                                       "result": canon_result(obs["res"]) if obs["res"] is not None else None}))
        key = f"{case['uid']}|{sorted(map(str, initial))}|{p}|{sorted(pl['faults'].items())}|{sorted(latency.items())}"
        ctx.note_case({"uid": case["uid"], "pass": p, "faults": pl["faults"]}, nontrivial=bool(fired), key=key)
        if obs["rec"].disagree:
            ctx.count("task-end-differs-from-coroutine-end", obs["rec"].disagree)
        for (_i, k) in fired:
            ctx.count(f"fault:{k}")
        for c in obs["calls"]:
            if c.get("fault"):
                ctx.count(f"faulted-call:{c['method']}")
                ctx.count("faulted-in:" + case["prims"].get(c["endpoint"], "?"))
        if obs["escaped"]:
            ctx.count("pass:escaped")
        else:
            ctx.count("pass-overall:" + canon_oc(obs["res"].result)["cls"])
            ctx.count("pass-t:" + ("10" if obs["t"] and obs["t"] >= STEP_TIMEOUT - 1e-9 else "<10"))
        for o in [obs] + rec["passes"][:1]:
            for kind, t in terms_of_pass(o, ctx):
                cases.append({"uid": case["uid"], "kind": kind, "fault": pl})
                terms.append((kind, t))
    return done


def slim(case):
    return {k: case[k] for k in ("fns", "subs", "wf", "owners", "prims", "uid", "initial_items") if k in case}


def make_cases(ctx: Ctx):
    """workflow cases (with initial contents) for this tier"""
    out = []
    nwf = 10 if ctx.quick() else 40
    scripts = [["vf", "rf:patch", "rf:recreate", "rford", "fe", "vfdep", "rf:die"],
               ["vf", "sub", "rf:never", "rf:readonly", "switch", "vfdep"],
               ["vf", "rf:patch", "fesub", "rf:nocreate", "vfdep"]]
    for j in range(nwf):
        case = gen_workflow(ctx.rng, script=scripts[j] if j < len(scripts) else None)
        case["full"] = j < (2 if ctx.quick() else 6)
        case["initial_items"] = [[list(k), v] for k, v in seed_objects(case).items()] if ctx.rng.random() < 0.7 else []
        out.append(case)
        # a second start: converged content with some objects drifted / removed
        if ctx.rng.random() < (0.6 if ctx.quick() else 0.8):
            wf = build(case)
            if wf is None:
                continue
            ref = reference_run(wf, {tuple(k): v for k, v in case["initial_items"]})
            if ref is None or isinstance(ref, str):
                continue            # reported when `case` itself is explored
            c2 = copy.deepcopy(case)
            c2["full"] = False
            c2["initial_items"] = [[list(k), v] for k, v in perturb(ctx.rng, ref[-1]["after"]).items()]
            out.append(c2)
    return out


# =============================================================================================
# single ResourceFunction under a fault plan (Corr: CRf)
# =============================================================================================

def run_rf_faulty(sc, fg, fm):
    """Realise scenario `sc` (rf_model), store its live object, reconcile once with faults on call 0 (GET) and
    call 1 (mutation).  -> observation dict or None (prepare failed)."""
    import koreo.resource_function.reconcile as rec_mod
    drivers.reset_all()
    r = m.realise(sc)
    seen = {}
    orig = rec_mod.validate_match

    def wrapped(*a, **kw):
        try:
            res = orig(*a, **kw)
        except BaseException as e:
            seen["match"] = "raise:" + type(e).__name__
            raise
        seen["match"] = bool(res.match)
        return res

    async def go():
        prepared = await m._prepare(r)
        fn, err = drivers.unwrap_prepared(prepared)
        if fn is None:
            return None
        key = None
        if isinstance(sc["live"], dict):
            ns = sc["name"][2]
            key = (r.plural, ns, sc["name"][1])
            r.cluster.objects[key] = copy.deepcopy(sc["live"])
        before = copy.deepcopy(r.cluster.objects)
        r.cluster.faults = {i: mk_fault(k) for i, k in ((0, fg), (1, fm)) if k}
        kind = "returned"
        out = None
        guard = asyncio.timeout(10)
        try:
            async with guard:
                res = await drivers.reconcile_rf(fn, r.inputs, r.cluster, owner=r.owner)
            out = drivers.canon_outcome(res.outcome)
        except asyncio.CancelledError:
            kind = "cancelled"
        except Exception as e:      # noqa: BLE001
            if guard.expired():     # OUR guard fired (an injected TimeoutError object is just another exception)
                kind = "hung"
            else:
                out = {"cls": "Raise", "exc": type(e).__name__}
        calls = m.observe_calls(r.cluster)
        return {"kind": kind, "outcome": out, "calls": calls, "match": seen.get("match"),
                "before": before, "after": copy.deepcopy(r.cluster.objects)}

    rec_mod.validate_match = wrapped
    try:
        return drivers.run_async(go()), r
    except vloop.Deadlock:
        return "deadlock", r
    finally:
        rec_mod.validate_match = orig
        drivers.reset_all()


def c_rf_case(sc, fg, fm, o, r):
    ns = sc["name"][2] if sc["name"][0] == "Ok" else None
    key = (r.plural, ns, sc["name"][1] if sc["name"][0] == "Ok" else "?")
    stored = o["after"].get(key)
    if stored is None:
        after = None
    elif stored == o["before"].get(key):
        after = m.injected_live(sc, stored)
    else:
        after, _ = m._split_body(stored)
        after = m.injected_live(sc, after)
    out = o["outcome"]
    kind = {"returned": "FoReturned", "hung": "FoHung", "cancelled": "FoCancelled"}[o["kind"]]
    if out is None:
        cls, delay, val = "OSkip", None, None
    else:
        cls = m.CLS[out["cls"]]
        delay = out.get("delay")
        val = out.get("value") if out["cls"] == "Ok" else None
    calls = m.c_obs({"outcome": {"cls": "Skip"}, "calls": o["calls"]})
    calls = calls[calls.index("ob_calls := ") + len("ob_calls := "):-3]
    fobs = "{| fo_kind := %s; fo_cls := %s; fo_delay := %s; fo_value := %s; fo_calls := %s; fo_after := %s |}" % (
        kind, cls, copt(delay, cz), (f"(Some {cjson(val)})" if val is not None else "None"), calls, copt(after, cjson))
    fp = "{| fp_get := %s; fp_mut := %s |}" % (c_fault(fg), c_fault(fm))
    return f"CRf {m.c_scenario(sc, o['match'] is True)} {fp} {fobs}"


def rf_oracle(sc, fg, fm, o, r):
    """direct statements for one function: fault before the effect leaves the cluster unchanged; a fired fault
    never yields a value (GET-404 excepted)."""
    out = []
    n = len(o["calls"])
    fired_get = fg is not None and n >= 1
    fired_mut = fm is not None and n >= 2
    if fired_mut and (fm in ("exc", "srv500", "http404", "http409", "http500", "hang", "cancel", "falsy")
                      or fm.startswith("x:")) and o["after"] != o["before"]:
        out.append(("single function: fault before the effect changed the cluster", f"{fg}/{fm}"))
    if (fired_get and fg not in ABSENT_ANSWERS) or (fired_mut and fg is None):
        if o["kind"] == "returned" and o["outcome"]["cls"] not in ("Retry", "PermFail", "Raise"):
            out.append(("single function: faulted pass returned a value", f"{fg}/{fm}: {o['outcome']['cls']}"))
    return out


def rf_fault_cases(ctx: Ctx, cases, terms):
    n_sc = 30 if ctx.quick() else 200
    # the single-function MODEL covers exception objects whose str() works (load_api_resource / _create_api_resource
    # format the exception inside their handlers; an unprintable one turns into the error its __str__ raises)
    printable_pool = [k for k in POOL_KINDS if not k.endswith(":strraises")]
    kinds = [None] + KINDS + printable_pool
    for _ in range(n_sc):
        sc = m.rand_scenario(ctx.rng)
        m.clean_scenario(sc, ctx.rng)
        sc["cfg"]["plural"] = "widgets"
        sc["lookup"] = None
        if ctx.rng.random() < 0.5:
            sc["cfg"].update({"readonly": False, "delete_if_exists": False, "create_enabled": True})
        sc["pre"] = None if ctx.rng.random() < 0.9 else sc["pre"]
        m.prepare_live(sc, ctx.rng)
        if ctx.quick():
            plans = [(ctx.rng.choice(kinds), ctx.rng.choice(kinds)) for _ in range(6)] + \
                    [(None, k) for k in ctx.rng.sample(KINDS + printable_pool, 6)] + [(k, None) for k in ctx.rng.sample(KINDS + printable_pool, 4)]
        else:
            plans = [(a, b) for a in kinds for b in kinds if ctx.rng.random() < 0.35 or a is None or b is None]
        for fg, fm in plans:
            got = run_rf_faulty(copy.deepcopy(sc), fg, fm)
            if got is not None and got[0] == "deadlock":
                ctx.fail(Failure(signature="single function: the pass never returns after its hanging call was cancelled: deadlock",
                                 what=f"reconcile_resource_function under faults GET={fg} mutation={fm} could not be cancelled",
                                 case={"rf_scenario": sc, "fg": fg, "fm": fm}))
                continue
            if got is None or got[0] is None:
                ctx.count("rf:prepare-failed")
                break
            o, r = got
            if isinstance(o["match"], str):
                ctx.count("rf:comparator-raised")
                continue
            for sig, what in rf_oracle(sc, fg, fm, o, r):
                ctx.fail(Failure(signature=sig, what=what, case={"rf_scenario": sc, "fg": fg, "fm": fm},
                                 observed={"outcome": o["outcome"], "kind": o["kind"]}))
            sc2 = copy.deepcopy(sc)
            sc2["cfg"]["kind"] = r.spec["apiConfig"]["kind"]
            fired = (fg is not None and len(o["calls"]) >= 1) or (fm is not None and len(o["calls"]) >= 2)
            ctx.note_case({"rf": sc2["cfg"], "fg": fg, "fm": fm}, nontrivial=fired,
                          key=json.dumps(jsonable([sc2, fg, fm]), sort_keys=True, default=repr))
            ctx.count(f"rf:calls:{len(o['calls'])}")
            ctx.count("rf:" + (o["kind"] if o["kind"] != "returned" else o["outcome"]["cls"]))
            cases.append({"rf_scenario": sc2, "fg": fg, "fm": fm})
            terms.append(c_rf_case(sc2, fg, fm, o, r))


# =============================================================================================
# kind lookup under faults (observed only)
# =============================================================================================

LOOKUP_MODES = ["notfound", "raise", "http404", "http500", "hang", "cancel"]


class LookupCluster(Cluster):
    """the kind-discovery call (api.lookup_kind) number i of this cluster's life faults as lookup_faults[i] says:
    notfound = ValueError (what kr8s raises for an unknown kind), raise = plain Exception, http404 / http500 =
    kr8s.ServerError, hang = never answers, cancel = CancelledError"""
    def __init__(self, lookup_faults=None):
        super().__init__()
        self.lookup_faults = dict(lookup_faults or {})
        self.nlookups = 0
        self.lookup_fired = []

    async def lookup_kind(self, kind):
        i = self.nlookups
        self.nlookups += 1
        mode = self.lookup_faults.get(i)
        if mode:
            self.lookup_fired.append((i, kind, mode))
            if mode == "hang":
                await asyncio.Event().wait()
            if mode == "notfound":
                raise ValueError(f"Kind not found: {kind}")
            if mode == "cancel":
                raise asyncio.CancelledError()
            if mode.startswith("http"):
                raise server_error(int(mode[4:]))
            if mode.startswith("x:"):
                raise EXC_POOL[mode[2:]]()
            raise Exception("lookup failed")
        return await super().lookup_kind(kind)


def lookup_case(uid):
    """three ResourceFunctions WITHOUT apiConfig.plural (dynamic plural discovery): `one` and `three` of a fresh kind A,
    `two` of a fresh kind B; `three` needs `one`.  Discovery call 0 is kind A's, call 1 kind B's."""
    a = rf_spec(f"La{uid}", "lk", "patch")
    del a["apiConfig"]["plural"]
    c = copy.deepcopy(a)
    c["apiConfig"]["name"] = "lk3"
    b = rf_spec(f"Lb{uid}", "lk2", "patch")
    del b["apiConfig"]["plural"]
    return {"fns": {"rf-a": {"kind": "ResourceFunction", "spec": a}, "rf-b": {"kind": "ResourceFunction", "spec": b},
                    "rf-c": {"kind": "ResourceFunction", "spec": c}},
            "subs": {}, "uid": uid, "owners": {}, "prims": {},
            "wf": {"steps": [{"label": "one", "ref": {"kind": "ResourceFunction", "name": "rf-a"}, "inputs": {"size": 1},
                              "condition": {"type": "OneReady", "name": "one"}},
                             {"label": "two", "ref": {"kind": "ResourceFunction", "name": "rf-b"}, "inputs": {"size": 2}},
                             {"label": "three", "ref": {"kind": "ResourceFunction", "name": "rf-c"},
                              "inputs": {"size": "=steps.one.n"}}]}}


def run_lookup_case(ctx: Ctx, uid, lookup_faults):
    """Cold plural cache (fresh kinds), faults at the given discovery calls of the FIRST pass, then fault-free passes
    IN THE SAME PROCESS STATE (nothing is reset in between); the result and the cluster contents must converge to those
    of a run that never saw a fault."""
    def norm(x, u):
        if isinstance(x, dict):
            x = {str(k): v for k, v in x.items()}
        return json.loads(json.dumps(jsonable(x), sort_keys=True, default=repr).replace(str(u), "UID"))

    # the never-faulted run, on structurally identical functions of OTHER fresh kinds and BEFORE the faulted run, so that
    # nothing the faulted run leaves behind in the process (plural cache, locks, kr8s classes) can influence it
    uid_ref = uid + 1
    wf_ref = build(lookup_case(uid_ref))
    ref = reference_run(wf_ref, {}) if wf_ref is not None else None
    case = lookup_case(uid)
    wf = build(case)
    if wf is None:
        ctx.count("lookup:prepare-failed")
        return
    tag = f"plural discovery faults {lookup_faults}"
    cl = LookupCluster(lookup_faults)
    obs = run_pass(wf, cl)
    probs = []
    affected = {0: "one", 1: "two"}
    if obs["escaped"]:
        probs.append(escape_problem(obs["escaped"], f"lookup {'+'.join(sorted(set(lookup_faults.values())))}", tag))
    else:
        if obs["t"] > STEP_TIMEOUT + 1e-6:
            probs.append(("pass exceeds STEP_TIMEOUT", f"{obs['t']} ({tag})"))
        so = step_outcomes(obs["rec"].wfs[0]) or {}
        for (i, _kind, mode) in cl.lookup_fired:
            lab = affected.get(i)
            if lab and so.get(lab, {}).get("cls") not in ("Retry", "PermFail"):
                probs.append(("affected step is not Retry/PermFail", f"step {lab} is {so.get(lab)} after discovery fault {mode} ({tag})"))
        if cl.lookup_fired and canon_oc(obs["res"].result)["cls"] not in ("Retry", "PermFail"):
            probs.append(("overall outcome is Ok/Skip although a step faulted", f"({tag})"))
        probs += oracle_pass(case, obs, [], tag)
    # fault-free passes, same process: plural cache, lookup locks and the prepared functions are NOT reset
    rec_passes, final = [], None
    for _ in range(MAXP):
        o2 = run_pass(wf, cl)
        rec_passes.append(o2)
        if o2["escaped"]:
            break
        final = {"canon": canon_result(o2["res"]), "steps": step_outcomes(o2["rec"].wfs[0]),
                 "mut": [c for c in o2["calls"] if c["method"] != "GET"], "snapshot": copy.deepcopy(cl.objects)}
        if len(rec_passes) >= 2 and not final["mut"] and prev == (final["canon"], final["snapshot"]):
            break
        prev = (final["canon"], final["snapshot"])
    if isinstance(ref, str):
        probs.append(escape_problem(ref, "fault-free pass", tag))
    elif ref is None:
        ctx.count("lookup:reference-not-quiescent")
    else:
        last = {"after": norm(ref[-1]["after"], uid_ref), "canon": norm(ref[-1]["canon"], uid_ref),
                "steps": norm(ref[-1]["steps"], uid_ref)}
        fin = final and {"canon": norm(final["canon"], uid), "steps": norm(final["steps"], uid), "mut": final["mut"],
                         "snapshot": norm(final["snapshot"], uid)}
        probs += check_recovery([last], {"passes": rec_passes, "final": fin}, tag)
    for sig, what in probs:
        ctx.fail(Failure(signature=sig, what=what, case={"lookup_faults": {str(k): v for k, v in lookup_faults.items()}},
                         observed={"first_pass": canon_result(obs["res"]) if obs["res"] is not None else obs["escaped"],
                                   "final": final and final["canon"], "objects": final and sorted(map(str, final["snapshot"]))}))
    ctx.note_case({"lookup": lookup_faults, "uid": uid}, nontrivial=bool(cl.lookup_fired),
                  key=f"lookup|{sorted(lookup_faults.items())}")
    for (_i, _k, mode) in cl.lookup_fired:
        ctx.count(f"lookup:{mode}")
    drivers.reset_all()


def lookup_cases(ctx: Ctx, plans=None):
    if plans is None:
        plans = [{i: mode} for mode in LOOKUP_MODES for i in (0, 1)]
        plans += [{0: "notfound", 1: "notfound"}, {0: "hang", 1: "raise"}]
        plans += [{j % 2: f"x:{n}"} for j, n in enumerate(EXC_POOL)]
        if not ctx.quick():
            plans += [{0: a, 1: b} for a in LOOKUP_MODES for b in LOOKUP_MODES]
    for lf in plans:
        run_lookup_case(ctx, 2 * ctx.rng.randrange(10 ** 8, 5 * 10 ** 8), {int(k): v for k, v in lf.items()})


# =============================================================================================
# entry points
# =============================================================================================

def run(ctx: Ctx):
    cases, terms = [], []
    for c in corpus_cases("C09"):
        if "rf_scenario" in c:
            continue
        if "lookup_faults" in c:
            lookup_cases(ctx, plans=[c["lookup_faults"]])
            continue
        explore_workflow(ctx, c, cases, terms, budget=10 ** 6)
    budget = 40 if ctx.quick() else 400
    total = 0
    for case in make_cases(ctx):
        if not ctx.quick():
            case["pairs"] = 40
        total += explore_workflow(ctx, case, cases, terms, budget)
    ctx.count("fault-runs", total)
    lookup_cases(ctx)
    rf_fault_cases(ctx, cases, terms)
    if ctx.model_ok:
        by = {}
        for c, t in zip(cases, terms):
            name = t[0] if isinstance(t, tuple) else "rf"
            by.setdefault(name, ([], []))
            by[name][0].append(c)
            by[name][1].append(t[1] if isinstance(t, tuple) else t)
        names = {"steps": "classification of step tasks / conditions / overall outcome vs reconcile_workflow_m",
                 "gate": "dependency gate and invocation trace vs run_steps",
                 "foreach": "_for_each_reconciler vs foreach_result",
                 "rf": "reconcile_resource_function under a fault plan vs reconcile_rf_faulty"}
        for name, (cs, ts) in by.items():
            # identical terms (same workflow, same end states) are evaluated once
            uniq, seen = [], set()
            for c, t in zip(cs, ts):
                if t not in seen:
                    seen.add(t)
                    uniq.append((c, t))
            ctx.count(f"corr-distinct:{name}", len(uniq))
            ctx.correspond(names[name], "Corr_C09", [u[0] for u in uniq], [u[1] for u in uniq], check_fn="check_c09")


def replay(ctx: Ctx, data):
    case = data["case"] if "case" in data else data
    cases, terms = [], []
    if "rf_scenario" in case:
        sc = case["rf_scenario"]
        got = run_rf_faulty(copy.deepcopy(sc), case["fg"], case["fm"])
        if got and got[0] and got[0] != "deadlock":
            o, r = got
            for sig, what in rf_oracle(sc, case["fg"], case["fm"], o, r):
                ctx.fail(Failure(signature=sig, what=what, case=case))
            cases.append(case)
            terms.append(c_rf_case(sc, case["fg"], case["fm"], o, r))
    elif "lookup_faults" in case:
        lookup_cases(ctx, plans=[case["lookup_faults"]])
    else:
        explore_workflow(ctx, case, cases, terms, budget=10 ** 6)
    ctx.note_case(case, True)
    if ctx.model_ok and terms:
        ts = [t[1] if isinstance(t, tuple) else t for t in terms]
        ctx.correspond("replay", "Corr_C09", cases, ts, check_fn="check_c09")
